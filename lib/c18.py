"""C18 — Commands mean the same from any directory inside the repository.

Proof: lean/XvcTargets (Props.lean) — transcriptions of the heads of `filter_targets_from_store` and
`targets_from_disk` (file/src/common/mod.rs, after patches/C18-F3.patch), `filter_paths_by_globs`
(directory-slash rule), `build_glob_matcher`, `XvcPath::new`, with a small recursive glob matcher.

Tie/oracle (binary level, metamorphic): byte-identical copies of one prepared repository (the whole
sandbox incl. .git, .xvc, HOME); the same command is run (A) from the root with root-relative targets,
(B) from a subdirectory with targets relative to it, (C) with `-C <dir>`; the abstractions of the three
results are compared: records (JSON event stores replayed, entities canonicalised by path), cache objects
(address, bytes, modes), workspace entries (kind, bytes, writability, link targets canonicalised), storage
tree, parsed rows of `list`.  TIE: the paths the command touched in copy B vs the target set the compiled
model driver (`targetsmodel`) selects for (cwd, targets, recorded paths, paths on disk).

Layouts (`case['layout']`, default `base`): `base` (a, a/b, a/b/c, ...), `prefix` (adversarial names: siblings --
directories and files -- whose name extends the name of the cwd, at the root, nested and at depth 2; names that are
prefixes of each other), `mini` (the minimised scenario of seeded/C18-1: data/a.txt, data2/b.txt).  Second sentence of
C18 ("with no targets it applies to the files under the current directory"): besides root-with-`cwd/` vs subdirectory
without targets, a direct oracle on the observations (everything the command acted on lies COMPONENT-wise below the
cwd), and in the tie model selection == Lean specification `properAncestor` == component-wise descendants.

copy / move (`case['dest_state']`, second preparation step `apply_dest_state`): file and directory destinations whose
path is absent / an UNTRACKED workspace file / tracked / untracked at the mirrored location <cwd>/<cwd>/<dest> only,
copy with and without --force.  Compared between A/B/C: records, cache, workspace incl. the bytes of the pre-existing
untracked files, and the exit class (done / refused / panic).  Direct oracle on B and C: without --force a file xvc
does not know about is neither overwritten nor recorded.  Tie: model `copyDest` / `copyRefused` (destination path and
guard decision on the recorded paths and workspace paths of the case) vs what the binary did in B.

Destination spellings (`case['dest_spelling']`): the copy / move destination typed in the cwd as `./x`, with a detour
`tmpx/../x`, climbing and coming back (`../<cwd>/x`), climbing to the parent / the root / another top-level directory
with `..`; the root form A always uses the lexically normalised root-relative destination (a destination is a PATH that
XvcPath::new normalises, unlike a target, which is a glob: K-C18-dotdot).  Besides the abstraction, follow-up commands
by the real path are compared (`list <dest>`, `rm <dest>; recheck <dest>`), and no form may record a path with `..`.

Names that REPEAT along a path (layout `repeat`): a directory named like its parent (`data/data/x.bin` next to
`data/x.bin`, three levels `data/data/data/w.bin`), the whole root-relative path of the cwd once more inside it
(`a/b/a/b/f.txt` next to `a/b/f.txt`), a name equal to its grandparent (`p/q/p/h.txt` next to `p/h.txt`), a file named
like its directory (`cfg.d/cfg.d`).  Explicit targets typed in the cwd that go THROUGH the repeated name -- so that the
typed string is, read from the root, the name of ANOTHER recorded path -- as file, `dir/`, `dir` and glob targets, for
every command family (the disk-side `track` included: it must agree with the store-side families), every file in the
state in which the family acts on it; root form = the plain join cwd/target (`C18_target_never_reinterpreted`).

Form D (every copy / move case, one in FORM_D_EVERY of the others): `-C <absolute path of cwd>` run with a PROCESS
working directory outside the repository (form C: process cwd = root), so that anything resolved against the process
cwd instead of xvc's current directory differs; destination states `untracked` (the destination directory / file exists
under the -C directory, not where the process stands: seeded/C03-3) and `mirror-root` / populated $ELSEWHERE (the
other way round).  A run that hits the per-process timeout makes the case run once more (`run_case_retry`).
"""
import concurrent.futures, hashlib, json, os, shutil, stat
from common import Check, run_lines, shrink
from xvcbin import Sandbox, digest_hex, cache_rel

WORKERS = 10

FILES = {
    'r1.txt': 'root one\n', 'r2.dat': 'root two data\n',
    'a/f1.txt': 'a f1\n' * 2, 'a/f2.dat': 'a f2 dat\n' * 3,
    'a/b/g1.txt': 'a b g1\n' * 4, 'a/b/g2.dat': 'a b g2 dat\n' * 5,
    'a/b/c/h1.txt': 'a b c h1\n' * 6, 'a/b/c/h2.dat': 'a b c h2 dat\n' * 7,
    'a/b/c2/k1.txt': 'a b c2 k1\n' * 8, 'a/e/m1.txt': 'a e m1\n' * 9,
    'z/y1.txt': 'z y1\n' * 10, 'z/y2.dat': 'z y2 dat\n' * 11,
}
DIRS = sorted({os.path.dirname(p) for p in FILES if '/' in p} | {'a'})
CWDS = ['a', 'a/b', 'a/b/c']
STORES = ['xvc-path', 'xvc-metadata', 'content-digest', 'recheck-method', 'file-text-or-binary']

# Adversarial names: siblings (directories AND files) whose NAME extends the name of a directory the command is
# run in, at the root (`data` / `data2` `data-old` `data.bak` `datafile.txt`), nested (`proj/train` / `proj/train_aug`
# `proj/train.csv`), at depth 2 (`data/raw` / `data/rawer` `data/raw.txt`), names that are prefixes of each other
# (`da` < `data` < `data2`, `proj/tr` < `proj/train` < `proj/train_aug`) and a file name extending a file name
# (`data/a.txt` / `data/a.txt2`).  A selection that compares path STRINGS instead of path COMPONENTS differs on these.
# No glob metacharacters in names (known gap of the unchanged binary).  All contents are distinct (cache objects are
# attributed to paths by digest).
FILES_P = {
    'datafile.txt': 'datafile\n',
    'da/x.txt': 'da x\n' * 2,
    'data/a.txt': 'data a\n' * 3, 'data/a.txt2': 'data a txt2\n' * 4, 'data/b.dat': 'data b dat\n' * 5,
    'data/raw.txt': 'data raw.txt\n' * 6,
    'data/raw/r.txt': 'data raw r\n' * 7, 'data/raw/r2.dat': 'data raw r2 dat\n' * 8,
    'data/rawer/w.txt': 'data rawer w\n' * 9,
    'data2/b.txt': 'data2 b\n' * 10, 'data2/raw/q.dat': 'data2 raw q dat\n' * 11,
    'data-old/c.txt': 'data-old c\n' * 12,
    'data.bak/d.dat': 'data.bak d dat\n' * 13,
    'other/o.txt': 'other o\n' * 14,
    'proj/train.csv': 'proj train.csv\n' * 15,
    'proj/tr/v.txt': 'proj tr v\n' * 16,
    'proj/train/t.txt': 'proj train t\n' * 17, 'proj/train/sub/s.dat': 'proj train sub s dat\n' * 18,
    'proj/train_aug/u.txt': 'proj train_aug u\n' * 19, 'proj/train_aug/sub/s2.dat': 'proj train_aug sub s2 dat\n' * 20,
}
# the minimised layout of seeded/C18-1 (demo.sh): one directory and one sibling whose name extends it
FILES_M = {'data/a.txt': 'a v1\n', 'data2/b.txt': 'b v1\n'}

# Names that repeat along a path.  A typed target is resolved against the cwd by JOINING, whatever it begins with
# (Lean: C18_target_never_reinterpreted): typed in `data`, `data/x.bin` is data/data/x.bin although data/x.bin is a
# recorded path as well.  Shapes: a directory named like its parent (two and three levels), the root-relative path
# of the cwd repeated inside the cwd (`a/b` inside `a/b`; `a/b/a/m.txt` repeats only its first component), a name equal
# to its grandparent (`p/q/p`), a file named like its directory (`cfg.d/cfg.d`).  For every inner path the string typed
# in the cwd names, read from the root, an OUTER path that exists, is recorded and has other bytes.
FILES_R = {
    'top.txt': 'top\n',
    'data/x.bin': 'data x OUTER\n' * 2, 'data/y.bin': 'data y\n' * 3,
    'data/data/x.bin': 'data data x INNER\n' * 4, 'data/data/z.bin': 'data data z\n' * 5,
    'data/data/data/w.bin': 'data data data w\n' * 6,
    'a/f.txt': 'a f\n' * 7, 'a/m.txt': 'a m\n' * 8,
    'a/b/f.txt': 'a b f OUTER\n' * 9, 'a/b/g.dat': 'a b g dat\n' * 10, 'a/b/a/m.txt': 'a b a m\n' * 11,
    'a/b/a/b/f.txt': 'a b a b f INNER\n' * 12, 'a/b/a/b/k.dat': 'a b a b k dat\n' * 13,
    'p/h.txt': 'p h OUTER\n' * 14, 'p/q/r.txt': 'p q r\n' * 15, 'p/q/p/h.txt': 'p q p h INNER\n' * 16,
    'cfg.d/cfg.d': 'cfg.d cfg.d file\n' * 17, 'cfg.d/n.txt': 'cfg.d n\n' * 18,
}


def dirs_of(files, extra=()):
    d = set(extra)
    for p in files:
        while '/' in p:
            p = p.rsplit('/', 1)[0]
            d.add(p)
    return sorted(d)


LAYOUTS = {
    # the original layout; the preparation of this layout is unchanged
    'base': {'files': FILES, 'cwds': CWDS, 'track': ['a/', 'z/', 'r1.txt', 'r2.dat'], 'pretrack': ['a/f1.txt', 'z/'],
             'always': ['a/b/g1.txt', 'a/b/c/h1.txt'], 'always_rm': ['a/f1.txt'], 'rmtree': ['a/b'],
             'list_edit': ['a/b/g1.txt'], 'list_rm': ['a/b/c/h2.dat'],
             'list_new': {'a/b/untracked.txt': 'u\n', 'a/b/c/untracked2.dat': 'u2\n'}},
    'prefix': {'files': FILES_P, 'cwds': ['data', 'data/raw', 'proj/train', 'proj/tr', 'da', 'proj'],
               'track': ['data/', 'data2/', 'data-old/', 'data.bak/', 'da/', 'other/', 'proj/', 'datafile.txt'],
               'pretrack': ['data2/b.txt', 'proj/train_aug/'],
               'always': [], 'always_rm': [], 'rmtree': ['data', 'data2', 'data-old', 'data.bak', 'da', 'proj', 'datafile.txt'],
               'list_edit': ['data/a.txt', 'data2/b.txt', 'proj/train_aug/u.txt'], 'list_rm': ['data/raw/r2.dat', 'data2/raw/q.dat', 'proj/train.csv'],
               'list_new': {'data/untracked.txt': 'u\n', 'data2/untracked2.dat': 'u2\n', 'data/rawer/untracked3.txt': 'u3\n',
                            'proj/train_aug/untracked4.txt': 'u4\n'}},
    'repeat': {'files': FILES_R, 'cwds': ['data', 'a/b', 'p/q', 'cfg.d', 'data/data', 'a', 'a/b/a'],
               'track': ['data/', 'a/', 'p/', 'cfg.d/', 'top.txt'], 'pretrack': ['data/x.bin', 'a/b/a/'],
               'always': [], 'always_rm': [], 'rmtree': ['data', 'a', 'p', 'cfg.d'],
               'list_edit': ['data/x.bin', 'a/b/a/b/f.txt', 'p/h.txt'], 'list_rm': ['data/data/z.bin', 'a/b/g.dat', 'p/q/p/h.txt'],
               'list_new': {'data/untracked.bin': 'u\n', 'data/data/untracked.bin': 'u2\n', 'a/b/a/b/untracked.txt': 'u3\n'}},
    'mini': {'files': FILES_M, 'cwds': ['data'], 'track': ['data/', 'data2/'], 'pretrack': ['data2/b.txt'],
             'always': [], 'always_rm': [], 'rmtree': ['data', 'data2'],
             'list_edit': ['data2/b.txt'], 'list_rm': [], 'list_new': {'data2/untracked.txt': 'u\n'}},
}


def layout_of(case):
    """the layout of a case (default: the original one); `keep` restricts it to some of its files (shrinking)"""
    name = case.get('layout', 'base')
    L = dict(LAYOUTS[name], name=name)
    if case.get('keep') is not None:
        L['files'] = {p: c for p, c in L['files'].items() if p in case['keep']}
        tops = []
        for p in L['files']:
            t = p.split('/')[0] + '/' if '/' in p else p
            if t not in tops:
                tops.append(t)
        L['track'] = tops
    L['dirs'] = dirs_of(L['files'], [case['cwd']] if case.get('cwd') else [])
    return L


def join(cwd, t):
    return f'{cwd}/{t}' if cwd and cwd != '.' else t        # cwd '.': the root itself (only in hand-written replay cases)


def below(cwd, p):
    """what C18's second sentence means by "under the current directory": the COMPONENTS of cwd are a proper prefix
    of the components of p (Lean: `properAncestor`)"""
    if cwd == '.':
        return True
    c, q = cwd.split('/'), os.path.normpath(p).split('/')
    return len(q) > len(c) and q[:len(c)] == c


def prefix_siblings(cwd, paths):
    """paths that a string-prefix test would take for descendants of cwd although they are not"""
    return sorted(p for p in paths if p.startswith(cwd) and p != cwd and not below(cwd, p))


# ------------------------------------------------------------------------------------------------
# abstraction of one sandbox

def sha(b):
    return hashlib.sha1(b).hexdigest()[:12] if b is not None else None


def abstract(sb, storage_dir):
    recs = {}
    paths = sb.store_map('xvc-path')
    md = sb.store_map('xvc-metadata')
    cd = sb.store_map('content-digest')
    rm = sb.store_map('recheck-method')
    tb = sb.store_map('file-text-or-binary')
    dup = {}
    for e, p in paths.items():
        m = md.get(e)
        r = {'type': m['file_type'] if m else None, 'size': m.get('size') if m else None,
             'digest': digest_hex(cd[e])[1] if e in cd else None, 'algo': digest_hex(cd[e])[0] if e in cd else None,
             'method': rm.get(e), 'tob': tb.get(e)}
        if r['type'] == 'Directory':
            # the "digest" and size of a directory record depend on directory mtimes/inode sizes, not on the command's meaning
            r = {'type': 'Directory'}
        if p in recs:
            dup[p] = dup.get(p, 1) + 1
        recs[p] = r
    orphan = sorted(set(md) | set(cd) | set(rm) | set(tb) - set(paths)) if False else []
    cache = {k: {'sha': sha(v['bytes']), 'mode': oct(v['mode']), 'dirmode': oct(v['dirmode']), 'kind': v['kind']}
             for k, v in sb.cache_objects().items()}
    inode_to_obj = {v['ino']: k for k, v in sb.cache_objects().items()}
    ws = {}
    for rel, k in sb.workspace_files().items():
        if k['kind'] == 'symlink':
            tgt = k['target'].replace(sb.root, '$ROOT')
            ws[rel] = {'kind': 'symlink', 'target': tgt}
        elif k['kind'] == 'file' and os.path.basename(rel) in ('.gitignore', '.xvcignore'):
            # xvc writes a time-stamped banner line before the lines it appends
            lines = [l for l in (k['bytes'] or b'').decode('utf-8', 'replace').splitlines() if not l.startswith('### Following ')]
            ws[rel] = {'kind': 'file', 'lines': sorted(lines)}    # xvc appends `/name` lines in hash-map order
        elif k['kind'] == 'file':
            ws[rel] = {'kind': 'file', 'sha': sha(k['bytes']), 'writable': k['writable'],
                       'hardlink_of': inode_to_obj.get(k['ino']) if k['nlink'] > 1 else None}
        else:
            ws[rel] = {'kind': k['kind']}
    dirs = set()
    for dp, dn, fn in os.walk(sb.root):
        dn[:] = [d for d in dn if d not in ('.xvc', '.git')]
        if dp != sb.root:
            dirs.add(os.path.relpath(dp, sb.root))
    st = {}
    if storage_dir and os.path.isdir(storage_dir):
        for dp, dn, fn in os.walk(storage_dir):
            for f in fn:
                p = os.path.join(dp, f)
                st[os.path.relpath(p, storage_dir)] = sha(open(p, 'rb').read())
    return {'records': recs, 'duplicate_paths': dup, 'cache': cache, 'workspace': ws, 'dirs': sorted(dirs), 'storage': st}


def parse_list(out, cwd):
    """rows of `xvc file list` as (status columns, size, recorded/actual digests, root-relative name)"""
    rows = []
    for line in out.splitlines():
        t = line.split()
        if len(t) < 5 or line.startswith('Total'):
            continue
        name = t[-1]
        # columns: <type+status> <size> <date> <time> [<recorded>] [<actual>] <name>
        rest = t[4:-1]
        rows.append((t[0], t[1], ' '.join(rest), join(cwd, name) if not name.startswith('/') else name))
    return sorted(rows)


def diff_abs(a, b, what=('records', 'cache', 'workspace', 'storage', 'duplicate_paths')):
    out = []
    for k in what:
        if a[k] != b[k]:
            keys = sorted(set(a[k]) | set(b[k]))
            d = {p: (a[k].get(p), b[k].get(p)) for p in keys if a[k].get(p) != b[k].get(p)}
            out.append((k, d))
    return out


# ------------------------------------------------------------------------------------------------
# prepared repositories: one preparation per command family, then byte-identical copies

def prepare(chk, xvc, name, family, variant, storage_dir, L=None):
    """returns a Sandbox in the prepared pre-state (the staging copy)"""
    L = L or layout_of({})
    files = L['files']
    base = L['name'] == 'base'
    sb = Sandbox(chk.scratch, name, xvc)
    sb.git('init', '-q', '-b', 'main')
    sb.git('commit', '-q', '--allow-empty', '-m', 'root')
    shutil.rmtree(sb.path('.git/hooks'), ignore_errors=True)   # inert *.sample files; every case copies the sandbox 4-5 times
    rc, out, err = sb.x('init')
    if rc != 0:
        chk.fatal('xvc init failed', out + err)
    for p, c in files.items():
        sb.write(p, c)
    all_targets = list(L['track'])
    exists = lambda t: os.path.lexists(sb.path(t.rstrip('/')))
    if family == 'track':
        if variant % 2:
            pre = [t for t in L['pretrack'] if exists(t)]
            if pre:
                sb.x('file', 'track', *pre)                    # some files already tracked
        return sb
    method = ['copy', 'symlink', 'hardlink'][variant % 3] if family in ('recheck', 'untrack', 'copy', 'move', 'list') else 'copy'
    sb.x('file', 'track', '--recheck-method', method, *all_targets)
    if family == 'carry-in':
        if base:
            sel = list(files)[variant % 2::2] + L['always']
        else:
            # every file is changed (so that a file selected by mistake is carried in and the mistake is observable);
            # one variant in three changes every other file only
            sel = list(files) if variant % 3 != 1 else list(files)[::2]
        for p in sel:
            if p in files:
                sb.write(p, files[p] + 'edited\n')
    elif family == 'recheck':
        if variant % 4 == 3:                                  # whole directories are gone from the workspace
            for d in L['rmtree']:
                if os.path.isdir(sb.path(d)) and not os.path.islink(sb.path(d)):
                    shutil.rmtree(sb.path(d))
                elif os.path.lexists(sb.path(d)):
                    os.unlink(sb.path(d))
        else:
            if base:
                sel = list(files)[variant % 2::2] + L['always'] + L['always_rm']
            else:
                # every file is missing (a file selected by mistake is restored); one variant in four: every other file
                sel = list(files) if variant % 4 != 1 else list(files)[1::2]
            for p in sel:
                if os.path.lexists(sb.path(p)):
                    os.unlink(sb.path(p))
    elif family == 'list':
        for p in L['list_edit']:
            if p in files:
                sb.write(p, files[p] + 'edited\n')
        for p in L['list_rm']:
            if os.path.lexists(sb.path(p)):
                os.unlink(sb.path(p))
        for p, c in L['list_new'].items():
            if os.path.isdir(os.path.dirname(sb.path(p))):
                sb.write(p, c)
    elif family in ('send', 'bring'):
        sb.x('storage', 'new', 'local', '--name', 'st', '--path', storage_dir)
        if family == 'bring':
            sb.x('file', 'send', '--to', 'st', *all_targets)
            sb.x('file', 'remove', '--from-cache', *all_targets)
            for p in files:
                if os.path.lexists(sb.path(p)):
                    os.unlink(sb.path(p))
    return sb


def clone(chk, src, name):
    sb = Sandbox(chk.scratch, name, src.xvc)
    shutil.rmtree(sb.base)
    shutil.copytree(src.base, sb.base, symlinks=True)
    # absolute symlinks into the cache must point into the copy
    for dp, dn, fn in os.walk(sb.root):
        dn[:] = [d for d in dn if d not in ('.xvc', '.git')]
        for f in fn:
            p = os.path.join(dp, f)
            if os.path.islink(p):
                t = os.readlink(p)
                if t.startswith(src.root):
                    os.unlink(p)
                    os.symlink(sb.root + t[len(src.root):], p)
    # hard links between workspace and cache are broken by copytree: re-link
    objs = {}
    for rel, v in sb.cache_objects().items():
        objs.setdefault(sha(v['bytes']), os.path.join(sb.root, '.xvc', rel))
    for rel, k in src.workspace_files().items():
        if k['kind'] == 'file' and k['nlink'] > 1 and sha(k['bytes']) in objs:
            p = sb.path(rel)
            os.unlink(p)
            os.link(objs[sha(k['bytes'])], p)
    return sb


# ------------------------------------------------------------------------------------------------
# cases

def cmd_argv(case, targets):
    f = case['family']
    o = case.get('opts', [])
    if f == 'track':
        return ['file', 'track'] + o + targets
    if f == 'carry-in':
        return ['file', 'carry-in'] + o + targets
    if f == 'recheck':
        return ['file', 'recheck'] + o + targets
    if f == 'list':
        return ['file', 'list'] + o + targets
    if f == 'send':
        return ['file', 'send', '--to', 'st'] + o + targets
    if f == 'bring':
        return ['file', 'bring', '--from', 'st'] + o + targets
    if f == 'remove':
        return ['file', 'remove', '--from-cache'] + o + targets
    if f == 'untrack':
        return ['file', 'untrack'] + o + targets
    if f == 'copy':
        return ['file', 'copy'] + o + targets
    if f == 'move':
        return ['file', 'move'] + o + targets
    raise ValueError(f)


def under(cwd, files=FILES):
    return [p for p in files if p.startswith(cwd + '/')]


def gen_targets(rng, cwd, shape, L=None):
    L = L or layout_of({})
    files = [p[len(cwd) + 1:] for p in under(cwd, L['files'])]
    subdirs = sorted({d[len(cwd) + 1:] for d in L['dirs'] if d.startswith(cwd + '/')})
    if shape == 'file':
        return [rng.choice(files)]
    if shape == 'files':
        return rng.sample(files, min(2, len(files)))
    if shape == 'dir/':
        return [rng.choice(subdirs) + '/'] if subdirs else [rng.choice(files)]
    if shape == 'dir':
        return [rng.choice(subdirs)] if subdirs else [rng.choice(files)]
    if shape == 'glob':
        cands = ['*.txt', '*.dat', '*', '**/*.txt', '**/*.dat', '*1*']
        for d in subdirs:
            cands += [d + '/*', d + '/*.txt', d + '/**']
        # first letter of a file + `*`; not when it would also match a directory next to the file (a glob matching a
        # recorded directory makes untrack panic from everywhere, see the report; the original layout has no such name)
        cands += [f[0] + '*' for f in files if '/' not in f and not any(d[0] == f[0] for d in subdirs)]
        return [rng.choice(cands)]
    if shape == 'mixed':
        return gen_targets(rng, cwd, 'file', L) + gen_targets(rng, cwd, 'glob', L)
    if shape == 'none':
        return []
    raise ValueError(shape)


def through_repeat(cwd, rel):
    """does the target `rel`, typed in `cwd`, go through a name that already occurs in the cwd?  2: it begins with the
    whole root-relative cwd again (`data/x.bin` in data, `a/b/f.txt` in a/b: the typed string is itself a root-relative
    path below the cwd); 1: one of its components is the name of the cwd or of an ancestor (`a/m.txt` in a/b, `p/h.txt`
    in p/q, `cfg.d` in cfg.d); 0: no"""
    comps = [c for c in rel.rstrip('/').split('/') if c]
    if (rel.rstrip('/') + '/').startswith(cwd + '/'):
        return 2
    return 1 if set(comps) & set(cwd.split('/')) else 0


REPEAT_KINDS = ['file', 'dir/', 'dir', 'glob']


def gen_repeat_targets(rng, cwd, kind, L):
    """one target of the given kind, typed in cwd, that goes through a repeated name -- the deepest repetition the cwd
    offers (level 2 before level 1); the root form is the plain join cwd/target"""
    files = [p[len(cwd) + 1:] for p in under(cwd, L['files'])]
    subdirs = sorted({d[len(cwd) + 1:] for d in L['dirs'] if d.startswith(cwd + '/')})
    if kind == 'file':
        cands = files
    elif kind in ('dir/', 'dir'):
        cands = [d + ('/' if kind == 'dir/' else '') for d in subdirs]
    else:
        # globs below a sub-directory: its files by extension (`d/*.ext`, `d/?.ext`), at any depth (`d/**/*.ext`); never a
        # pattern that also matches a recorded DIRECTORY (untrack of such a glob panics from every directory)
        cands = []
        for d in subdirs:
            exts = sorted({f.rsplit('.', 1)[1] for f in files if f.startswith(d + '/') and '/' not in f[len(d) + 1:] and '.' in f})
            for e in exts:
                cands += [f'{d}/*.{e}', f'{d}/**/*.{e}'] + ([f'{d}/?.{e}'] if any(len(os.path.basename(f)) == len(e) + 2 for f in files if f.startswith(d + '/')) else [])
    best = max([through_repeat(cwd, c) for c in cands], default=0)
    cands = [c for c in cands if through_repeat(cwd, c) == best] or files
    return [rng.choice(cands)]


FAMILIES = ['track', 'carry-in', 'recheck', 'list', 'send', 'bring', 'remove', 'untrack', 'copy', 'move']
SHAPES = ['file', 'files', 'dir/', 'dir', 'glob', 'mixed', 'none']
# the families that accept "no targets" (remove and untrack too since the repair F33; copy/move take source and destination)
NOTARGET_FAMILIES = ['track', 'carry-in', 'recheck', 'list', 'send', 'bring', 'remove', 'untrack']


def gen_case(rng, chk, family=None, cwd=None, shape=None, layout='base', variant=None, dest_kind=None, dest_state=None, force=None, dest_spelling=None,
             repeat_kind=None):
    L = layout_of({'layout': layout})
    family = family or rng.choice(FAMILIES)
    cwd = cwd or rng.choice(L['cwds'])
    L = layout_of({'layout': layout, 'cwd': cwd})
    variant = rng.randrange(12) if variant is None else variant
    case = {'family': family, 'cwd': cwd, 'variant': variant, 'opts': []}
    if layout != 'base':
        case['layout'] = layout
    if repeat_kind:
        # a target that goes through a repeated name (layout `repeat`); copy / move: that target is the SOURCE, the
        # destination is a new file next to the cwd's files (file source) or a new directory (directory / glob source)
        t = gen_repeat_targets(rng, cwd, repeat_kind, L)
        case['shape'] = {'dir/': 'dir/', 'dir': 'dir', 'glob': 'glob'}.get(repeat_kind, 'file')
        case['targets'] = t
        if family in ('copy', 'move'):
            single = repeat_kind == 'file'
            case['targets'] = t + (['copied.' + t[0].rsplit('.', 1)[-1]] if single else ['dstdir/'])
            case['shape'] = 'file->file' if single else ('glob->dir' if repeat_kind == 'glob' else 'dir->dir')
            case['dest_state'] = 'absent'
    elif family in ('copy', 'move'):
        # source and destination, both relative to the cwd (no `..`: known finding).  Destination: a file or a directory
        # `dir/`; state of the destination path before the command: absent / an UNTRACKED workspace file / already
        # tracked / an untracked file at the mirrored location <cwd>/<cwd>/<dest> only; copy with and without --force
        files = [p[len(cwd) + 1:] for p in under(cwd, L['files'])]
        src = rng.choice(files)
        ext = src.split('.')[-1]                              # keep the extension (K2 is another property's finding)
        kind = dest_kind or ('dir' if rng.random() < 0.3 else 'file')
        if kind == 'dir':
            dst = rng.choice(['dstdir/', 'new/dd/'])
        else:
            dst = rng.choice(['copied.' + ext, 'new/dest.' + ext, (os.path.dirname(src) + '/' if '/' in src else '') + 'renamed.' + ext])
        # how the destination is SPELLED from the cwd (the root form always uses the normalised root-relative path):
        # plain; `./x`; a detour `tmpx/../x`; climbing and coming back `../<cwd name>/x`; climbing to the parent, to the
        # root and into another top-level directory.  Sources never contain `..` (targets are globs: K-C18-dotdot).
        spelling = dest_spelling or (rng.choice(SPELLINGS[1:]) if rng.random() < 0.35 else 'plain')
        dst = spell_destination(cwd, dst, spelling, L)
        if spelling != 'plain':
            case['dest_spelling'] = spelling
        case['targets'] = [src, dst]
        case['shape'] = 'file->dir' if kind == 'dir' else 'file->file'
        case['dest_state'] = dest_state or rng.choice(['absent'] * 3 + ['untracked'] * 4 + ['tracked'] + ['mirror'] * 2 + ['mirror-root'] * 2)
        if spelling.startswith('climb') and case['dest_state'].startswith('mirror'):
            case['dest_state'] = 'absent'                     # the mirrored locations of a climbing argument are outside the tree
        if family == 'copy' and (rng.random() < 0.3 if force is None else force):
            case['opts'] = ['--force']
    else:
        # on the adversarial layout the no-target shape (the second sentence of C18) gets a third of the random cases
        shape = shape or (rng.choice(SHAPES) if layout == 'base' or rng.random() >= 0.25 else 'none')
        case['shape'] = shape
        case['targets'] = gen_targets(rng, cwd, shape, L)
        if family == 'recheck' and rng.random() < 0.5:
            case['opts'] = ['--recheck-method', rng.choice(['symlink', 'hardlink', 'copy'])]
        if family == 'track' and rng.random() < 0.3:
            case['opts'] = ['--recheck-method', rng.choice(['symlink', 'hardlink'])]
        if family == 'carry-in' and rng.random() < 0.3:
            case['opts'] = ['--force']
    chk.count('family:' + family)
    chk.count('depth:' + str(cwd.count('/') + 1))
    chk.count('shape:' + case['shape'])
    count_case(chk, case)
    return case


def count_case(chk, case):
    """distribution of the adversarial-name class: is there, next to the cwd, a path whose name extends the cwd's"""
    L = layout_of(case)
    chk.count('layout:' + L['name'])
    if prefix_siblings(case['cwd'], list(L['files']) + L['dirs']):
        chk.count('prefix-sibling:' + case['family'])
        if case['shape'] == 'none':
            chk.count('prefix-sibling-notargets:' + case['family'])
    glob_targets = case['targets'][:1] if case['family'] in ('copy', 'move') and len(case['targets']) == 2 else case['targets']
    lvl = max([through_repeat(case['cwd'], t) for t in glob_targets if case['cwd'] != '.'], default=0)
    if lvl:
        kind = 'glob' if any('*' in t or '?' in t for t in glob_targets) else ('dir' if case['shape'].startswith('dir') else 'file')
        chk.count(f"repeated-name-target:{case['family']}:{kind}" + (':begins-with-cwd' if lvl == 2 else ''))
    if case['family'] in ('copy', 'move') and case['shape'] in ('file->file', 'file->dir'):
        chk.count(f"destination:{case['family']}:{case['shape'].split('->')[1]}:{case.get('dest_state', 'absent')}" + (':force' if '--force' in case['opts'] else ''))
        chk.count(f"destination-spelling:{case['family']}:{case.get('dest_spelling', 'plain')}")


SPELLINGS = ['plain', 'dot', 'detour', 'climb-back', 'climb-back-root', 'climb-parent', 'climb-root', 'climb-other']


def spell_destination(cwd, dst, spelling, L):
    """dst: a plain destination inside the cwd (`name.ext`, `new/dest.ext`, `dstdir/`); returns the argument to type in cwd"""
    depth = cwd.count('/') + 1
    up = '../' * depth
    if spelling == 'plain':
        return dst
    if spelling == 'dot':
        return './' + dst.replace('/', '/./', 1) if '/' in dst.rstrip('/') else './' + dst
    if spelling == 'detour':
        return 'tmpx/../' + dst
    if spelling == 'climb-back':                              # ../<name of the cwd>/dst: the same destination as `plain`
        return '../' + cwd.rsplit('/', 1)[-1] + '/' + dst
    if spelling == 'climb-back-root':                         # all the way up and down again
        return up + cwd + '/' + dst
    if spelling == 'climb-parent':                            # a destination next to the cwd
        return '../' + dst
    if spelling == 'climb-root':                              # a new top-level directory
        return up + 'outside/' + dst
    if spelling == 'climb-other':                             # an existing other top-level directory of the layout
        tops = [d for d in L['dirs'] if '/' not in d and d != cwd.split('/')[0]]
        return up + (tops[-1] if tops else 'outside') + '/' + dst
    raise ValueError(spelling)


def norm_dest(cwd, dst):
    """the corresponding root-relative destination: lexically normalised, directory marker kept"""
    return os.path.normpath(join(cwd, dst)) + ('/' if dst.endswith('/') else '')


def copy_dest_path(case):
    """root-relative path a copy / move of ONE file writes to, computed here (not by the model): a file destination is
    cwd/dest, a directory destination `dir/` is cwd/dir/<full root-relative source path>"""
    cwd = case['cwd']
    src, dst = case['targets']
    if dst.endswith('/'):
        return os.path.normpath(join(cwd, dst.rstrip('/')) + '/' + join(cwd, src))
    return os.path.normpath(join(cwd, dst))


def apply_dest_state(sb, case):
    """second preparation step of copy / move: what is at the destination path before the command"""
    st = case.get('dest_state', 'absent')
    if case['family'] not in ('copy', 'move') or case['shape'] not in ('file->file', 'file->dir'):
        return
    P = copy_dest_path(case)
    src, dst = case['targets']
    # the destination ARGUMENT read against a directory that is not xvc's current directory: the file it would name there
    arg_rel = os.path.normpath(dst.rstrip('/') + '/' + join(case['cwd'], src)) if dst.endswith('/') else os.path.normpath(dst)
    if arg_rel.startswith('..'):
        if st.startswith('mirror'):
            return
    elif st != 'untracked':
        # the PROCESS working directory of form D holds what the destination argument names (directory and file), the
        # repository does not (except for `tracked`); for `untracked` it is the other way round (seeded/C03-3)
        e = os.path.join(sb.base, 'elsewhere', arg_rel)
        os.makedirs(os.path.dirname(e), exist_ok=True)
        open(e, 'w').write(f'elsewhere {arg_rel}\n')
    if st == 'absent':
        return
    if st == 'mirror':
        # a file xvc does not know about at <cwd>/<root-relative destination> -- NOT the destination
        sb.write(join(case['cwd'], P), f'precious mirror {P}\n')
        return
    if st == 'mirror-root':
        # ... at <root>/<destination argument>: what the argument names from the process cwd of form C -- NOT the destination
        sb.write(arg_rel, f'precious mirror-root {arg_rel}\n')
        return
    sb.write(P, f'precious {P}\n')                           # a file xvc does not know about AT the destination
    if st == 'tracked':
        method = ['copy', 'symlink', 'hardlink'][case['variant'] % 3]
        sb.x('file', 'track', '--recheck-method', method, P)


def exit_class(rc):
    return {0: 'done (exit 0)', 101: 'panic', 124: 'timeout'}.get(rc, f'refused (exit {rc})')


def root_targets(case):
    cwd = case['cwd']
    if case.get('root_targets'):
        return case['root_targets']
    if case['shape'] == 'none':
        return [cwd + '/']                                    # "with no targets it applies to the files under the current directory"
    if case['family'] in ('copy', 'move') and len(case['targets']) == 2:
        # the destination is a PATH (XvcPath::new), not a glob: its root-relative form is the normalised one
        return [join(cwd, case['targets'][0]), norm_dest(cwd, case['targets'][1])]
    return [join(cwd, t) for t in case['targets']]


def wants_followup(case):
    return case['family'] in ('copy', 'move') and case['shape'] in ('file->file', 'file->dir') and bool(case.get('dest_spelling') or case.get('followup'))


def followup(sb, case):
    """later commands that name the destination by its REAL root-relative path, run from the root of the same sandbox
    (after its abstraction was taken): is it listed as recorded, and does recheck restore it after it was deleted"""
    P = copy_dest_path(case)
    rc1, o1, e1 = sb.x('file', 'list', '--no-summary', '--format', '{{aft}} {{rcd8}} {{name}}', P, cwd=sb.root)
    rows = sorted(tuple(l.split()) for l in o1.splitlines() if l.strip())
    if os.path.lexists(sb.path(P)):
        os.unlink(sb.path(P))
    rc2, o2, e2 = sb.x('file', 'recheck', P, cwd=sb.root)
    return {'list ' + P: rows, 'list exit': exit_class(rc1), 'recheck exit': exit_class(rc2),
            'after rm + recheck ' + P: sha(sb.read(P)) if os.path.lexists(sb.path(P)) else 'NOT restored'}


ELSEWHERE = '$ELSEWHERE (a directory outside the repository)'
FORM_D_EVERY = 3        # form D for copy / move always, for the other families in one case out of FORM_D_EVERY


def wants_form_d(case):
    if case.get('root_targets') or case.get('storage_path'):
        return False                                          # known-finding replays run exactly as before
    if case['family'] in ('copy', 'move') or case['cwd'] == '.':
        return True
    h = int(hashlib.sha1(json.dumps(case, sort_keys=True).encode()).hexdigest(), 16)
    return h % FORM_D_EVERY == 0


def run_case(chk, xvc, name, case):
    base = os.path.join(chk.scratch, name)
    storage = os.path.join(base, 'storage')
    os.makedirs(base, exist_ok=True)
    L = layout_of(case)
    stage = prepare(chk, xvc, f'{name}/stage', case['family'], case['variant'], case.get('storage_path') or storage, L)
    apply_dest_state(stage, case)
    storage0 = os.path.join(base, 'storage0')
    if os.path.isdir(storage):
        shutil.copytree(storage, storage0)
    pre = abstract(stage, storage0 if os.path.isdir(storage0) else None)
    cwd = case['cwd']
    runs = {}
    forms = {
        'A': (None, [], root_targets(case)),
        'B': (cwd, [], case['targets']),
        'C': (None, ['-C', cwd], case['targets']),
        # -C with a PROCESS working directory that is neither the root nor the -C directory: a scratch directory outside
        # the repository, `-C <absolute path of cwd>` (anything resolved against the process cwd instead of xvc's
        # current directory shows up here; form C has process cwd = root)
        'D': (ELSEWHERE, ['-C', '$ROOT/' + cwd], case['targets']),
    }
    if not wants_form_d(case):
        del forms['D']
    if case.get('forms'):
        forms = {k: v for k, v in forms.items() if k in case['forms']}
    try:
        for form, (cd, pre_args, targets) in forms.items():
            sb = clone(chk, stage, f'{name}/{form}')
            if os.path.isdir(storage0):
                shutil.rmtree(storage, ignore_errors=True)
                shutil.copytree(storage0, storage)
            os.makedirs(sb.path(cwd), exist_ok=True)         # the directory the user stands in exists in every copy
            wd = sb.path(cd) if cd else sb.root
            argv = pre_args + cmd_argv(case, targets)
            real_argv = argv
            if cd == ELSEWHERE:
                wd = os.path.join(sb.base, 'elsewhere')
                os.makedirs(wd, exist_ok=True)
                real_argv = [a.replace('$ROOT', sb.root) if a.startswith('$ROOT/') else a for a in argv]
            rc, out, err = sb.x(*real_argv, cwd=wd)
            ab = abstract(sb, storage if os.path.isdir(storage0) else None)
            ab['list'] = parse_list(out, cwd if form != 'A' else '') if case['family'] == 'list' else None
            if wants_followup(case):
                ab['followup'] = followup(sb, case)
            runs[form] = {'argv': ['xvc'] + argv, 'cwd': cd or '.', 'rc': rc, 'stdout': out[-1500:], 'stderr': err[-800:], 'abs': ab,
                          'errors': sum(1 for l in (out + '\n' + err).splitlines() if l.startswith('[ERROR]'))}
            sb.cleanup()
    finally:
        stage.cleanup()
        shutil.rmtree(base, ignore_errors=True)
    msgs = []
    panicked = [k for k, v in runs.items() if v['rc'] == 101]
    for other in ('B', 'C', 'D'):
        if other not in runs or 'A' not in runs:
            continue
        if 'A' in panicked and other in panicked:
            # the command panics from everywhere (e.g. untrack of a glob that matches a recorded directory): what is
            # left behind depends on which worker threads got how far, not on the directory the command was run in
            continue
        d = diff_abs(runs['A']['abs'], runs[other]['abs'])
        for k, dd in d:
            items = list(dd.items())[:4]
            msgs.append(f"{k} differ between `{' '.join(runs['A']['argv'])}` at the root and `{' '.join(runs[other]['argv'])}` in {runs[other]['cwd']}: "
                        + '; '.join(f'{p}: root={va} vs {vb}' for p, (va, vb) in items) + (f' (+{len(dd) - 4} more)' if len(dd) > 4 else ''))
        if case['family'] == 'list' and runs['A']['abs']['list'] != runs[other]['abs']['list']:
            la, lb = runs['A']['abs']['list'], runs[other]['abs']['list']
            msgs.append(f"list rows differ ({other}): only at root {[r for r in la if r not in lb][:4]}, only from {runs[other]['cwd']} {[r for r in lb if r not in la][:4]}")
    for other in ('B', 'C', 'D'):
        if other in runs and 'A' in runs and not ('A' in panicked and other in panicked) \
                and runs['A']['abs'].get('followup') != runs[other]['abs'].get('followup'):
            fa, fb = runs['A']['abs'].get('followup') or {}, runs[other]['abs'].get('followup') or {}
            msgs.append(f"follow-up commands by the real path differ after `{' '.join(runs['A']['argv'])}` at the root and `{' '.join(runs[other]['argv'])}` in {runs[other]['cwd']}: "
                        + '; '.join(f'{k}: root={fa.get(k)} vs {fb.get(k)}' for k in sorted(set(fa) | set(fb)) if fa.get(k) != fb.get(k)))
    if case['family'] in ('copy', 'move'):
        # records are root-relative NORMAL paths (XvcPath::new normalises): stated directly, independent of run A
        for other in ('A', 'B', 'C', 'D'):
            if other in runs and runs[other]['rc'] not in (101, 124):
                bad = sorted(p for p in runs[other]['abs']['records'] if '..' in p.split('/') and p not in pre['records'])
                if bad:
                    msgs.append(f"`{' '.join(runs[other]['argv'])}` in {runs[other]['cwd']} recorded paths that are not normalised: {bad[:6]}")
        # exit class: "refused at the root, done from the subdirectory" is a difference even before looking at effects
        for other in ('B', 'C', 'D'):
            if other in runs and 'A' in runs and not ('A' in panicked and other in panicked) \
                    and exit_class(runs['A']['rc']) != exit_class(runs[other]['rc']):
                msgs.append(f"exit class differs: `{' '.join(runs['A']['argv'])}` at the root: {exit_class(runs['A']['rc'])}, "
                            f"`{' '.join(runs[other]['argv'])}` in {runs[other]['cwd']}: {exit_class(runs[other]['rc'])}")
        # the guard, stated directly on the observations of the subdirectory runs (independent of run A and of the
        # model): without --force a file xvc does not know about is never overwritten and never becomes recorded
        if '--force' not in case['opts']:
            unknown = {p: w for p, w in pre['workspace'].items() if w['kind'] == 'file' and 'sha' in w and os.path.basename(p) not in ('.gitignore', '.xvcignore')
                       and pre['records'].get(p, {}).get('type') != 'File'}
            for other in ('A', 'B', 'C', 'D'):
                if other not in runs or runs[other]['rc'] in (101, 124):
                    continue
                post = runs[other]['abs']
                for p, w in sorted(unknown.items()):
                    if post['workspace'].get(p) != w:
                        msgs.append(f"`{' '.join(runs[other]['argv'])}` (no --force) in {runs[other]['cwd']} overwrote the untracked file {p}: {w} -> {post['workspace'].get(p)}")
                    if post['records'].get(p, {}).get('type') == 'File':
                        msgs.append(f"`{' '.join(runs[other]['argv'])}` (no --force) in {runs[other]['cwd']} recorded the pre-existing untracked file {p}")
    # second sentence of C18, stated directly on the observations (independent of run A and of the model): without
    # targets the command acts on nothing but files under the current directory -- component-wise (`below`)
    if case['shape'] == 'none':
        for other in ('B', 'C', 'D'):
            if other not in runs or runs[other]['rc'] in (101, 124):
                continue
            post = runs[other]['abs']
            acted = {os.path.normpath(p) for p in touched(pre, post, case['family'])}
            outside = sorted(p for p in acted if not below(cwd, p) and not is_dirpath(p, pre, post, dirs=L['dirs']))
            if outside:
                msgs.append(f"`{' '.join(runs[other]['argv'])}` without targets in {cwd} acted on paths that are "
                            f"not under {cwd}/: {outside[:6]}" + (f' (+{len(outside) - 6} more)' if len(outside) > 6 else ''))
    return {'case': case, 'pre': pre, 'runs': runs, 'oracle': msgs, 'all_panicked': len(panicked) == len(runs)}


def touched(pre, post, family):
    """root-relative paths the command acted on, read off the abstraction before/after (and the rows of list)"""
    t = set()
    if family == 'list':
        return {r[3] for r in post['list']}
    for p in set(pre['records']) | set(post['records']):
        if pre['records'].get(p) != post['records'].get(p):
            t.add(p)
    for p in set(pre['workspace']) | set(post['workspace']):
        if os.path.basename(p) in ('.gitignore', '.xvcignore'):
            continue
        if pre['workspace'].get(p) != post['workspace'].get(p):
            t.add(p)
    # cache / storage objects are attributed to the paths recording their digest
    def owners(recs, addr):
        return {p for p, r in recs.items() if r.get('digest') and r['type'] == 'File'
                and r.get('algo') and cache_rel(r['algo'], r['digest'], os.path.basename(p).rsplit('.', 1)[1] if '.' in os.path.basename(p) else '') == addr}
    for k in set(pre['cache']) | set(post['cache']):
        if pre['cache'].get(k) != post['cache'].get(k):
            t |= owners(post['records'], k) | owners(pre['records'], k)
    for k in set(pre['storage']) | set(post['storage']):
        if pre['storage'].get(k) != post['storage'].get(k):
            addr = k.split('/', 1)[1] if '/' in k else k
            t |= owners(post['records'], addr) | owners(pre['records'], addr)
    return t


def is_dirpath(p, *abss, dirs=DIRS):
    for ab in abss:
        r = ab['records'].get(p)
        if r and r['type'] == 'Directory':
            return True
        if p in ab['dirs']:
            return True
    return p in dirs


def model_select(model_bin, requests):
    """requests: list of (cwd, targets or None, store paths, disk files, dirs) -> list of (sel_store, sel_disk, (below_store, below_disk))"""
    lines, idx = [], []
    for cwd, targets, store, disk, dirs, *dest in requests:
        lines += ['reset', f'cwd {cwd or "."}']
        lines += [f'store {p}' for p in store] + [f'disk {p}' for p in disk] + [f'dir {p}' for p in dirs]
        lines += ['notargets'] if targets is None else [f'target {t}' for t in targets]
        lines += ['sel store', 'sel disk', 'sel below']
        # copy / move of one file: destination path and decision of the guard (force, destination argument, source path)
        lines += [f'refused {int(dest[0][0])} {dest[0][1]} {dest[0][2]}' if dest and dest[0] else '']
        idx.append(len(lines))
    rc, ans, err = run_lines(model_bin, [], lines)
    if rc != 0 or len(ans) != len(lines) or any(';' not in ans[k - 2] for k in idx):
        return None
    st = lambda x: {y for y in x.split(',') if y}
    # (selectStore, selectDisk, (specification `properAncestor` on the recorded paths, on the paths on disk), guard)
    return [(st(ans[k - 4]), st(ans[k - 3]), tuple(st(x) for x in ans[k - 2].split(';')),
             (ans[k - 1].split(';')[0], ans[k - 1].split(';')[1] == '1') if ';' in ans[k - 1] else None) for k in idx]


def model_request(r):
    case, pre = r['case'], r['pre']
    cwd = case['cwd']
    dirs = set(pre['dirs']) | {cwd} | {cwd.rsplit('/', i)[0] for i in range(1, cwd.count('/') + 1)}
    disk = [p for p in pre['workspace'] if os.path.basename(p) not in ('.gitignore', '.xvcignore')]
    fam = case['family']
    dest = None
    if fam in ('copy', 'move'):
        src = case['targets'][0]
        targets = [src + '*' if src.endswith('/') else src]           # get_source_path_metadata
        if case['shape'] in ('file->file', 'file->dir'):
            dest = ('--force' in case['opts'], case['targets'][1], join(cwd, src))
    else:
        targets = None if case['shape'] == 'none' else case['targets']
    return (cwd, targets, sorted(pre['records']), sorted(disk), sorted(dirs), dest)


def tie_no_targets(r, sel_store, sel_disk, spec):
    """no targets: the model's selection vs the specification `properAncestor` evaluated by the driver vs the
    component-wise test evaluated here, on the recorded paths and the paths on disk of this very case"""
    cwd, store, disk, dirs = model_request(r)[0], *model_request(r)[2:5]
    msgs = []
    want_s = {p for p in store if below(cwd, p)}
    want_d = {p for p in set(disk) | set(dirs) if below(cwd, p)}
    if not (sel_store == spec[0] == want_s):
        msgs.append(f'no targets in {cwd}: model selectStore {sorted(sel_store)} / Lean properAncestor {sorted(spec[0])} / component-wise descendants {sorted(want_s)} differ')
    if not (sel_disk == spec[1] == want_d):
        msgs.append(f'no targets in {cwd}: model selectDisk {sorted(sel_disk)} / Lean properAncestor {sorted(spec[1])} / component-wise descendants {sorted(want_d)} differ')
    return msgs


def tie_guard(r, guard):
    """copy / move of one file: destination path and decision of the guard -- model (`copyDest`, `copyRefused` on the
    recorded paths and the workspace paths of this very case) vs the path computed here vs what the binary did in B"""
    case, pre, run = r['case'], r['pre'], r['runs']['B']
    post = run['abs']
    if run['rc'] in (101, 124):
        return []
    mdest, mrefused = guard
    msgs = []
    P, srcP = copy_dest_path(case), join(case['cwd'], case['targets'][0])
    if mdest != P:
        msgs.append(f'destination path: model copyDest {mdest} vs cwd-joined {P}')
    is_file = lambda ab, p: ab['records'].get(p, {}).get('type') == 'File'
    files = lambda ab: {p: v for p, v in ab['records'].items() if v.get('type') == 'File'}
    if mrefused:
        if files(pre) != files(post) or post['workspace'].get(P) != pre['workspace'].get(P):
            msgs.append(f"{case['family']}: model guard refuses (destination {mdest} recorded or on disk, no --force) but the command changed records or the destination")
    else:
        src_digest = pre['records'].get(srcP, {}).get('digest')
        if not is_file(post, P) or post['records'][P].get('digest') != src_digest:
            msgs.append(f"{case['family']}: model guard lets the command pass but {P} is not recorded with the digest of {srcP} afterwards: {post['records'].get(P)}")
        if case['family'] == 'move' and is_file(post, srcP):
            msgs.append(f'move: model guard lets the command pass but the source {srcP} is still recorded')
    return msgs


def tie_check(r, sel_store, sel_disk, spec=None, guard=None):
    """compare what the command touched in copy B (run from the subdirectory) with the model's selection"""
    case, pre = r['case'], r['pre']
    if 'B' not in r['runs']:
        return []
    post = r['runs']['B']['abs']
    fam = case['family']
    L = layout_of(case)
    FILES = LAYOUTS[L['name']]['files']
    files = lambda s: {p for p in s if not is_dirpath(p, pre, post, dirs=L['dirs'])}
    tch = files(touched(pre, post, fam))
    selF = {p for p in sel_store if pre['records'].get(p, {}).get('type') == 'File'}
    selD = {p for p in sel_disk if p in pre['workspace']}
    msgs = []
    if case['shape'] == 'none' and spec is not None:
        msgs += tie_no_targets(r, sel_store, sel_disk, spec)
    if guard is not None:
        msgs += tie_guard(r, guard)

    def eq(must, what):
        if tch != must:
            msgs.append(f'{what}: touched-but-not-selected {sorted(tch - must)}, selected-but-not-touched {sorted(must - tch)}')
    if fam == 'track':
        new = {p for p in selD if pre['records'].get(p, {}).get('type') != 'File'}
        # selected files that are already recorded are touched only when an option changes them (--recheck-method)
        if not (new <= tch <= selD):
            msgs.append(f'track: touched {sorted(tch)} not between model selectDisk minus recorded {sorted(new)} and model selectDisk {sorted(selD)}')
    elif fam == 'carry-in':
        edited = {p for p in selF if p in pre['workspace'] and p in FILES and pre['workspace'][p].get('sha') != sha(FILES[p].encode())}
        if '--force' in case['opts']:
            if not (edited <= tch <= selF):
                msgs.append(f'carry-in --force: touched {sorted(tch)} not between edited∩selected {sorted(edited)} and selected {sorted(selF)}')
        else:
            eq(edited, 'carry-in: files carried in vs model selectStore ∩ edited')
    elif fam == 'recheck':
        m = case['opts'][1].capitalize() if case['opts'] else None
        must = {p for p in selF if p not in pre['workspace'] or (m and pre['records'][p]['method'] != m)}
        eq(must, 'recheck: files re-materialised vs model selectStore ∩ (absent or other method)')
    elif fam == 'list':
        listed = files({row[3] for row in post['list']})
        lo, hi = files(selD), files(selD | set(sel_store))
        if not (lo <= listed <= hi):
            msgs.append(f'list: listed {sorted(listed)} not between model selectDisk {sorted(lo)} and selectDisk ∪ selectStore {sorted(hi)}')
    elif fam in ('send', 'bring', 'remove'):
        eq(selF, f'{fam}: files whose objects moved vs model selectStore')
    elif fam == 'untrack':
        removed = {p for p, rec in pre['records'].items() if rec['type'] == 'File' and p not in post['records']}
        if removed != selF:
            msgs.append(f'untrack: records removed {sorted(removed)} vs model selectStore {sorted(selF)}')
    elif fam == 'move':
        removed = {p for p, rec in pre['records'].items() if rec['type'] == 'File' and p not in post['records']}
        want = set() if guard is not None and guard[1] else selF       # a refused move moves nothing
        if removed != want:
            msgs.append(f'move: source records moved away {sorted(removed)} vs model selectStore(source) {sorted(want)}')
    return msgs


def sibling_actionable(r):
    """no-target case: is there a path next to the cwd whose name extends the cwd's name and on which the command
    WOULD act if it were selected (so that a selection by string prefix is observable in the compared abstraction)"""
    case, pre = r['case'], r['pre']
    L = layout_of(case)
    fam, cwd = case['family'], case['cwd']
    orig = LAYOUTS[L['name']]['files']
    sib = [p for p in prefix_siblings(cwd, list(pre['records']) + list(pre['workspace'])) if not is_dirpath(p, pre, dirs=L['dirs'])]
    if fam == 'carry-in':
        return any(p in pre['workspace'] and p in orig and pre['workspace'][p].get('sha') != sha(orig[p].encode()) for p in sib)
    if fam == 'recheck':
        return any(p in pre['records'] and p not in pre['workspace'] for p in sib)
    if fam == 'track':
        return any(p in pre['workspace'] and pre['records'].get(p, {}).get('type') != 'File' for p in sib)
    if fam in ('list', 'send', 'bring'):
        return any(p in pre['records'] for p in sib)
    return False


def describe(r):
    return {'case': r['case'], 'runs': {k: {x: v[x] for x in ('argv', 'cwd', 'rc', 'stderr')} for k, v in r['runs'].items()},
            'oracle': r['oracle']}


def signature(case, msgs):
    glob_targets = case['targets'][:1] if case['family'] in ('copy', 'move') and len(case['targets']) == 2 else case['targets']
    if any('..' in t.split('/') for t in glob_targets):
        return {'finding': 'parent-relative-target'}
    if glob_targets is not case['targets'] and '..' in case['targets'][1].split('/'):
        # a DESTINATION goes through XvcPath::new, which normalises: not the known finding about targets (globs)
        return {'finding': 'parent-relative-destination', 'family': case['family']}
    if case['cwd'] == '.':
        return {'finding': 'dash-C-root-from-another-process-directory', 'family': case['family']}
    if case.get('storage_path') and not case['storage_path'].startswith('/'):
        return {'finding': 'relative-local-storage-path'}
    return {'finding': 'cwd-dependence', 'family': case['family']}


def _nt(layout, family, cwd, variant=0, opts=()):
    return {'layout': layout, 'family': family, 'cwd': cwd, 'variant': variant, 'opts': list(opts), 'shape': 'none', 'targets': []}


def _cm(layout, family, cwd, src, dst, state, force=False, variant=0):
    return {'layout': layout, 'family': family, 'cwd': cwd, 'variant': variant, 'opts': ['--force'] if force else [],
            'shape': 'file->dir' if dst.endswith('/') else 'file->file', 'targets': [src, dst], 'dest_state': state}


def _sp(c, spelling):
    return dict(c, dest_spelling=spelling)


def _rp(family, cwd, shape, targets, variant=0, opts=()):
    return {'layout': 'repeat', 'family': family, 'cwd': cwd, 'variant': variant, 'opts': list(opts), 'shape': shape, 'targets': list(targets)}


CORPUS = [
    # names that repeat along a path (seeded/C18-6 minimised: `remove --from-cache data/x.bin` in data, `untrack
    # data/x.bin` with -C data -- every case runs cd and -C); a name equal to its grandparent; a file named like its
    # directory; the inner directory as cwd; three levels of one name; a first component that repeats only part of the cwd
    _rp('remove', 'data', 'file', ['data/x.bin']), _rp('untrack', 'data', 'file', ['data/x.bin']),
    _rp('recheck', 'p/q', 'file', ['p/h.txt']), _rp('carry-in', 'cfg.d', 'file', ['cfg.d']),
    _rp('bring', 'data/data', 'file', ['data/w.bin']), _rp('send', 'data', 'dir', ['data/data']),
    _rp('recheck', 'a/b', 'file', ['a/m.txt']), _rp('list', 'a', 'glob', ['b/a/b/*.txt']),
    # seeded/C18-3 (minimised): a DESTINATION that climbs out of the cwd with `..` (XvcPath::new normalises it; a plain
    # join records data/../other/a.txt): move and copy, file and directory form, climbing and coming back; one level
    # (mini, cwd data) and two levels (prefix, cwd data/raw: ../../other/a.txt, ../clean/b.txt, ../raw/c2.txt as in demo.sh)
    _sp(_cm('mini', 'move', 'data', 'a.txt', '../other/a.txt', 'absent'), 'climb-root'),
    _sp(_cm('mini', 'copy', 'data', 'a.txt', '../data2/c.txt', 'absent'), 'climb-other'),
    _sp(_cm('mini', 'copy', 'data', 'a.txt', '../data/c2.txt', 'absent'), 'climb-back'),
    _sp(_cm('mini', 'copy', 'data', 'a.txt', '../backup/', 'absent'), 'climb-root'),
    _sp(_cm('prefix', 'move', 'data/raw', 'r.txt', '../../other/a.txt', 'absent'), 'climb-other'),
    _sp(_cm('prefix', 'copy', 'data/raw', 'r.txt', '../clean/b.txt', 'absent'), 'climb-parent'),
    _sp(_cm('prefix', 'copy', 'data/raw', 'r.txt', '../raw/c2.txt', 'untracked'), 'climb-back'),
    _sp(_cm('prefix', 'move', 'data/raw', 'r.txt', './tmpx/../moved.txt', 'absent'), 'detour'),
    # seeded/C18-2 (minimised): data/a.txt is tracked, a file xvc does not know about is at the copy destination (file
    # destination data/b.txt; directory destination data/backup/ -> data/backup/data/a.txt); without --force the copy is
    # refused at the root and must be refused from data/ (cd and -C) as well.  Mirror image: an unknown file at
    # data/data/c.txt must not make `copy a.txt c.txt` in data/ fail.  The same for move (same guard, other function).
    _cm('mini', 'copy', 'data', 'a.txt', 'b.txt', 'untracked'), _cm('mini', 'copy', 'data', 'a.txt', 'backup/', 'untracked'),
    _cm('mini', 'copy', 'data', 'a.txt', 'c.txt', 'mirror'), _cm('mini', 'move', 'data', 'a.txt', 'b.txt', 'untracked'),
    _cm('mini', 'move', 'data', 'a.txt', 'backup/', 'mirror'),
    # seeded/C03-3 (minimised): move into an EXISTING directory that holds an unknown file at the destination path; the
    # -C forms run with a process working directory (root / outside the repository) in which `backup/` does not exist.
    # Mirror image: `backup/` (and the file) exist where the process stands, not in the directory -C names.
    _cm('mini', 'move', 'data', 'a.txt', 'backup/', 'untracked'), _cm('mini', 'move', 'data', 'a.txt', 'backup/', 'mirror-root'),
    _cm('mini', 'copy', 'data', 'a.txt', 'backup/', 'mirror-root'),
    # seeded/C18-1 (minimised): no targets in `data`, the sibling `data2` extends its name and its file is changed
    # (carry-in) / missing (recheck, bring) / not in the storage (send); then the full adversarial layout at the root,
    # nested and with -C (every case runs cd and -C)
    _nt('mini', 'carry-in', 'data'), _nt('mini', 'recheck', 'data'), _nt('mini', 'list', 'data'),
    _nt('mini', 'send', 'data'), _nt('mini', 'bring', 'data'),
    _nt('prefix', 'carry-in', 'data'), _nt('prefix', 'recheck', 'proj/train'), _nt('prefix', 'recheck', 'data/raw', 3),
    _nt('prefix', 'list', 'proj/tr'), _nt('prefix', 'bring', 'da'),
    # explicit targets whose names are prefixes of sibling names: directory without '/', file
    {'layout': 'prefix', 'family': 'recheck', 'cwd': 'proj', 'variant': 0, 'opts': [], 'shape': 'dir', 'targets': ['train']},
    {'layout': 'prefix', 'family': 'carry-in', 'cwd': 'data', 'variant': 0, 'opts': [], 'shape': 'dir', 'targets': ['raw']},
    {'layout': 'prefix', 'family': 'recheck', 'cwd': 'data', 'variant': 0, 'opts': [], 'shape': 'file', 'targets': ['a.txt']},
    # F3 (fix: C18-F3.patch): store targets prefixed without '/'
    {'family': 'recheck', 'cwd': 'a', 'variant': 0, 'opts': [], 'shape': 'file', 'targets': ['f1.txt']},
    {'family': 'list', 'cwd': 'a/b', 'variant': 0, 'opts': [], 'shape': 'file', 'targets': ['g1.txt']},
    {'family': 'untrack', 'cwd': 'a/b/c', 'variant': 0, 'opts': [], 'shape': 'glob', 'targets': ['*.txt']},
    {'family': 'send', 'cwd': 'a/b', 'variant': 0, 'opts': [], 'shape': 'dir', 'targets': ['c']},
    # directory-slash rule: the directory named without '/' does not exist in the workspace
    {'family': 'recheck', 'cwd': 'a', 'variant': 3, 'opts': [], 'shape': 'dir', 'targets': ['b']},
    {'family': 'recheck', 'cwd': 'a/b', 'variant': 3, 'opts': [], 'shape': 'dir', 'targets': ['c']},
    # K9b (fix: C18-K9b.patch): directory destination of copy / move
    {'family': 'copy', 'cwd': 'a/b', 'variant': 0, 'opts': [], 'shape': 'file->dir', 'targets': ['g1.txt', 'dstdir/']},
    {'family': 'move', 'cwd': 'a', 'variant': 0, 'opts': [], 'shape': 'dir->dir', 'targets': ['b/c/', 'e/']},
    # track (fix: C18-track.patch): no targets; directory target with -C
    {'family': 'track', 'cwd': 'a/b', 'variant': 0, 'opts': [], 'shape': 'none', 'targets': []},
    {'family': 'track', 'cwd': 'a/b', 'variant': 0, 'opts': [], 'shape': 'dir/', 'targets': ['c/']},
    {'family': 'track', 'cwd': 'a', 'variant': 1, 'opts': [], 'shape': 'glob', 'targets': ['**/*.dat']},
    # F30: -C <root> with a plain root-level file target, run from another process directory (the shortcut for plain file
    # names stat'ed the bare name against the process working directory)
    {'family': 'track', 'cwd': '.', 'variant': 0, 'opts': [], 'shape': 'file', 'targets': ['r1.txt']},
    {'family': 'list', 'cwd': '.', 'variant': 0, 'opts': [], 'shape': 'file', 'targets': ['r2.dat']},
    {'family': 'recheck', 'cwd': '.', 'variant': 0, 'opts': [], 'shape': 'file', 'targets': ['r1.txt']},
]

KNOWN_REPLAYS = [
    # parent-relative targets are globs, never normalised
    {'family': 'recheck', 'cwd': 'a/b', 'variant': 0, 'opts': [], 'shape': 'file', 'targets': ['../f1.txt'], 'root_targets': ['a/f1.txt']},
    {'family': 'list', 'cwd': 'a/b/c', 'variant': 0, 'opts': [], 'shape': 'file', 'targets': ['../../f2.dat'], 'root_targets': ['a/f2.dat']},
    # a relative `storage new local --path` is resolved against the process cwd at use time
    {'family': 'send', 'cwd': 'a/b', 'variant': 0, 'opts': [], 'shape': 'file', 'targets': ['g1.txt'], 'storage_path': '../../storage'},
]


def run_case_retry(chk, xvc, name, case):
    """a process that hits the hard per-process timeout (xvcbin.XVC_TIMEOUT; seen under machine load ~100 for a command
    that takes 0.2 s) is not an outcome that can be compared between directories: the case is run once more; only a
    timeout that reproduces in the second run is kept (a hang from the subdirectory only WOULD be a difference)"""
    r = run_case(chk, xvc, name, case)
    timed_out = sorted(k for k, v in r['runs'].items() if v['rc'] == 124)
    if timed_out:
        chk.count('timeout-in-one-run-case-rerun:' + case['family'])
        chk.notes.append(f"timeout (exit 124) in form(s) {timed_out} of {json.dumps(case)}; case re-run")
        r = run_case(chk, xvc, name + 'r', case)
        if any(v['rc'] == 124 for v in r['runs'].values()):
            chk.count('timeout-reproduced:' + case['family'])
    return r


def run_cases(chk, xvc, cases, tag):
    with concurrent.futures.ThreadPoolExecutor(max_workers=WORKERS) as ex:
        futs = [ex.submit(run_case_retry, chk, xvc, f'{tag}{i}', c) for i, c in enumerate(cases)]
        return [f.result() for f in futs]


def simplify(chk, xvc, r, failing):
    """smaller failing variants: one target at a time, no options, depth 1"""
    case = r['case']
    best = r
    n = 0
    cands = []
    if len(case['targets']) > 1 and case['family'] not in ('copy', 'move'):
        cands += [dict(case, targets=[t]) for t in case['targets']]
    if case['opts']:
        cands.append(dict(case, opts=[]))
    for c in cands:
        n += 1
        x = run_case(chk, xvc, f'simp{n}', c)
        if failing(x):
            best = x
            if not c['opts']:
                break
    return shrink_layout(chk, xvc, best, failing)


SHRINK_BUDGET = [36]      # runs of the implementation spent on shrinking layouts, per check run


def shrink_layout(chk, xvc, r, failing):
    """fewer files in the repository: whole top-level entries first, then single files (greedy; `keep` in the case)"""
    case = r['case']
    if case.get('root_targets') or case.get('storage_path'):
        return r
    keep = list(layout_of(case)['files'])
    best = r
    needed = [join(case['cwd'], t.rstrip('/')) for t in case['targets'] if '*' not in t]

    def attempt(cand):
        nonlocal best, keep
        if SHRINK_BUDGET[0] <= 0 or not cand or cand == keep:
            return False
        if any(not any(p == t or p.startswith(t + '/') for p in cand) for t in needed[:1]):
            return False                                       # the first (source) target must still name something
        SHRINK_BUDGET[0] -= 1
        x = run_case(chk, xvc, f'shr{SHRINK_BUDGET[0]}', dict(case, keep=cand))
        if failing(x):
            best, keep = x, cand
            return True
        return False
    for top in sorted({p.split('/')[0] for p in keep}, key=lambda t: (case['cwd'].split('/')[0] == t, t)):
        attempt([p for p in keep if p.split('/')[0] != top])
    for p in list(keep):
        attempt([q for q in keep if q != p])
    return best


def private_binary(chk, xvc):
    """the forms of one case must run the SAME binary: other jobs rebuild /repo/target while a check runs (a commit
    lands, a patch is applied transiently), the file disappears during the relink and changes afterwards.  The check
    runs a private copy taken right after its own build."""
    dst = os.path.join(chk.scratch, 'xvc-under-test')
    shutil.copyfile(xvc, dst)
    os.chmod(dst, 0o755)
    return dst


def run(chk: Check):
    quick = chk.tier == 'quick'
    model = chk.lean('XvcTargets', 'XvcTargets.Props', exe='targetsmodel', extra_modules=['XvcTargets.Model', 'XvcTargets.Lemmas'])
    xvc = private_binary(chk, chk.build_xvc())
    chk.trusted_base += [
        'lib/c18.py: repository generator, cp -a copies, abstraction (independent replay of the JSON event stores, cache/workspace/storage walk), diff, attribution of touched objects to paths',
        'lib/xvcbin.py Sandbox; the concrete matcher `globMatch` of the model stands for fast_glob on the generated pattern shapes (literal, *, **/, trailing /**), validated by the tie',
    ]
    chk.assumptions += [
        'targets are relative, without `.`/`..` components (parent-relative targets: known finding), no spaces or commas',
        'the shortcut of targets_from_disk for plain file names (stat instead of walk) returns the same set as the walk (checked by the metamorphic comparison: the root run takes the shortcut, the subdirectory run does not)',
        'records of directories are compared by path and type only; `.gitignore` files as sorted lines without xvc\'s time-stamped banner',
        'local storage is created with an absolute path (relative path: known finding)',
        'copy / move: one source file WITHOUT `..` (sources are targets/globs: known finding K-C18-dotdot); destinations inside the repository, spelled plainly or with `.`, detours and `..` (own signature parent-relative-destination, not a known finding); same extension as the source (K2 is a finding of C19), no --name-only; a directory-destination copy that is refused per file exits 0 in the unchanged binary (the refusal is visible as "no effect")',
        'file and directory names are literal: letters, digits, `.`, `-`, `_` (glob metacharacters in names: known gap of the unchanged binary, not generated)',
        'messages are not compared (only effects and the rows of `list`); a differing number of [ERROR] lines between the directories is counted in the distribution (error-line-count-differs-between-directories:<family>)',
    ]
    n = 40 if quick else 1000
    cases = [dict(c) for c in CORPUS]
    for c in cases:
        count_case(chk, c)
    # systematic part: every family x every depth, shapes rotated; then random
    k = 0
    for fam in FAMILIES:
        for cwd in CWDS:
            shape = None if fam in ('copy', 'move') else SHAPES[k % len(SHAPES)]
            k += 1
            cases.append(gen_case(chk.rng, chk, fam, cwd, shape))
    # adversarial names, systematic: (a) NO TARGETS -- every family that accepts that x every directory that has a
    # sibling whose name extends its name, in the state where every file of the repository is actionable (variant 0:
    # all changed / all missing / nothing in the storage / nothing in the cache); (b) explicit targets -- every family
    # x two directories, shapes rotated
    PL = LAYOUTS['prefix']
    sib_cwds = [c for c in PL['cwds'] if prefix_siblings(c, list(PL['files']) + dirs_of(PL['files']))]
    for fam in NOTARGET_FAMILIES:
        for cwd in sib_cwds:
            cases.append(gen_case(chk.rng, chk, fam, cwd, 'none', layout='prefix', variant=0))
    for fam in FAMILIES:
        for j in range(1 if quick and fam in ('copy', 'move') else 2):     # copy / move get their own sweep below
            shape = None if fam in ('copy', 'move') else [x for x in SHAPES if x != 'none'][k % (len(SHAPES) - 1)]
            cwd = PL['cwds'][k % len(PL['cwds'])]
            k += 1
            cases.append(gen_case(chk.rng, chk, fam, cwd, shape, layout='prefix'))
    # destinations of copy / move, systematic, on both layouts: file and directory destination x state of the
    # destination path (absent / untracked file / tracked / untracked file at <cwd>/<cwd>/<dest> only); copy also --force
    for layout in ('base', 'prefix'):
        cw = LAYOUTS[layout]['cwds']
        for kind in ('file', 'dir'):
            for fam, state, force in [('copy', 'absent', False), ('copy', 'untracked', False), ('copy', 'untracked', True),
                                      ('copy', 'tracked', False), ('copy', 'tracked', True), ('copy', 'mirror', False),
                                      ('copy', 'mirror-root', False),
                                      ('move', 'absent', False), ('move', 'untracked', False), ('move', 'tracked', False),
                                      ('move', 'mirror', False), ('move', 'mirror-root', False)]:
                k += 1
                cases.append(gen_case(chk.rng, chk, fam, cw[k % len(cw)], layout=layout, dest_kind=kind, dest_state=state, force=force))
    # spellings of the destination, systematic: every non-plain spelling x copy / move x both layouts, file and directory
    # form and the state of the destination (absent / untracked / tracked) rotated
    for layout in ('base', 'prefix'):
        cw = LAYOUTS[layout]['cwds']
        for sp in SPELLINGS[1:]:
            for fam in ('copy', 'move'):
                k += 1
                cases.append(gen_case(chk.rng, chk, fam, cw[k % len(cw)], layout=layout, dest_kind=('file', 'dir')[k % 2],
                                      dest_state=('absent', 'untracked', 'absent', 'tracked')[k % 4], force=False, dest_spelling=sp))
    # names that repeat along a path, systematic: every family x (file, dir/, glob) target that goes through the repeated
    # name, typed in a cwd whose own root-relative path occurs again inside it (depth 1 `data`, depth 2 `a/b`, rotated),
    # every file actionable (variant 0); `dir` without slash and the other cwds of the layout come with the corpus and
    # the random part (there the targets are drawn from ALL files / directories / globs below the cwd)
    for fam in FAMILIES:
        for kind in ('file', 'dir/', 'glob'):
            k += 1
            cases.append(gen_case(chk.rng, chk, fam, ('data', 'a/b')[k % 2], layout='repeat', variant=0, repeat_kind=kind))
    cases += [gen_case(chk.rng, chk, layout=('base', 'prefix', 'repeat', 'prefix', 'base')[i % 5]) for i in range(n)]
    chk.extra['rule'] = (f'corpus ({len(CORPUS)} fixed cases: seeded/C18-6 minimised (a target that begins with the name of the cwd, typed in a directory that contains a directory of its own name), seeded/C18-3 minimised (destination climbing with `..` from a subdirectory), seeded/C18-2 minimised (copy onto an untracked file from a subdirectory), seeded/C18-1 minimised (no targets next to a sibling whose name extends the name of the cwd), F3, directory-slash rule with an absent directory, K9b, track without targets / with -C) + {len(KNOWN_REPLAYS)} known-finding replays + '
                         f'every command family (track, carry-in, recheck, list, send, bring, remove, untrack, copy, move) x every depth 1-3 with rotating target shapes + '
                         f'adversarial-name layout (data / data2 / data-old / data.bak / datafile.txt / da, data/raw / data/rawer / data/raw.txt, proj/train / proj/train_aug / proj/train.csv / proj/tr): '
                         f'copy / move destinations on both layouts: file and directory destination x (absent, untracked workspace file, tracked, untracked file at <cwd>/<cwd>/<dest> only), copy with and without --force (48 cases incl. the destination argument existing only where the PROCESS stands; exit class compared; direct guard oracle: without --force an untracked file is neither overwritten nor recorded; model copyDest/copyRefused vs binary); '
                         f'destination spellings ({", ".join(SPELLINGS[1:])}) x copy / move x both layouts (28 cases; the root form uses the normalised root-relative destination; follow-up list / rm + recheck by the real path compared; recorded paths without `..`); '
                         f'names that repeat along a path (layout repeat: data/data/x.bin next to data/x.bin, data/data/data, a/b/a/b next to a/b, p/q/p next to p, the file cfg.d/cfg.d): '
                         f'every family x (file, dir/, glob) target that goes through the repeated name, typed in data and in a/b, every file actionable (30 cases, counters repeated-name-target:<family>:<kind>[:begins-with-cwd]) + 8 corpus cases (seeded/C18-6 minimised, grandparent name, file named like its directory, inner cwd, dir without slash); '
                         f'no targets for every family that accepts it ({", ".join(NOTARGET_FAMILIES)}) x every cwd with such a sibling ({", ".join(sib_cwds)}) with every file actionable, and every family x 2 cwds (copy, move: 1) with explicit targets + {n} random cases, 2 in 5 on the adversarial layout, 1 in 5 on the repeated-name layout; every copy / move case and one in 3 of the others also runs form D: process cwd outside the repository, -C <absolute path> '
                         '(family, cwd of depth 1-3, shape in file / two files / dir/ / dir / glob / file+glob / no targets, option variants --recheck-method, --force, preparation variants incl. tracked '
                         'with copy/symlink/hardlink, edited files, deleted files, a whole directory deleted). Every case: one prepared repository, three byte-identical copies, the command from the root with '
                         'root-relative targets (A), from the subdirectory (B) and with -C (C); abstractions of A/B and A/C compared; model selection vs paths touched in B. '
                         'Non-trivial = the command touched at least one path in copy A; distinct by (family, cwd, targets, options, variant).')
    results = run_cases(chk, xvc, cases, 'c')
    have_model = os.path.exists(model)
    if not have_model:
        chk.notes.append('model driver did not build; only the metamorphic oracle ran')
    first = {}
    st = chk.tie['streams'].setdefault('metamorphic', {'cases': 0, 'failing': 0})
    for r in results:
        chk.evaluations += 1
        st['cases'] += 1
        c = r['case']
        if 'A' in r['runs'] and touched(r['pre'], r['runs']['A']['abs'], c['family']):
            chk.nontrivial.add(hashlib.sha1(json.dumps(c, sort_keys=True).encode()).hexdigest())
        if r['all_panicked']:
            chk.count('panics-from-every-directory:' + c['family'])
        if len({v['errors'] for v in r['runs'].values()}) > 1 and not r['oracle']:
            # not part of the compared abstraction (messages are not effects); recorded to see whether it ever happens
            chk.count('error-line-count-differs-between-directories:' + c['family'])
        if c['shape'] == 'none' and sibling_actionable(r):
            chk.count('prefix-sibling-notargets-actionable:' + c['family'])
        if r['oracle']:
            st['failing'] += 1
            first.setdefault(json.dumps(signature(c, r['oracle']), sort_keys=True), r)
        if len(chk.samples) < 6 and chk.evaluations % 9 == 0 and not r['oracle']:
            chk.samples.append({'case': c, 'runs': {k: {'argv': v['argv'], 'cwd': v['cwd'], 'rc': v['rc']} for k, v in r['runs'].items()},
                                'touched_in_B': sorted(touched(r['pre'], r['runs']['B']['abs'], c['family']))[:8]})
    for sig, r in first.items():
        small = simplify(chk, xvc, r, lambda x, s=sig: bool(x['oracle']) and json.dumps(signature(x['case'], x['oracle']), sort_keys=True) == s)
        chk.oracle_failure(small['oracle'][0][:600], small['case'], describe(small), signature=signature(small['case'], small['oracle']))
    # tie
    if have_model:
        ok = [r for r in results if not r['oracle'] and not r['all_panicked']]
        sels = model_select(model, [model_request(r) for r in ok])
        ts = chk.tie['streams'].setdefault('model_selection', {'cases': 0, 'disagreements': 0})
        if sels is None:
            chk.disagreement('model_selection', {}, 'n/a', 'model driver failed', 'process failure')
        else:
            seen = set()
            for r, (ss, sd, spec, guard) in zip(ok, sels):
                ts['cases'] += 1
                if r['case']['shape'] == 'none':
                    ts['no_targets_vs_properAncestor'] = ts.get('no_targets_vs_properAncestor', 0) + 1
                if guard is not None:
                    ts['copy_move_guard_vs_model'] = ts.get('copy_move_guard_vs_model', 0) + 1
                    chk.count(f"guard:{r['case']['family']}:{r['case'].get('dest_state', 'absent')}" + (':force' if '--force' in r['case']['opts'] else '')
                              + (':refused' if guard[1] else ':done'))
                m = tie_check(r, ss, sd, spec, guard)
                if m:
                    ts['disagreements'] += 1
                    if r['case']['family'] not in seen:
                        seen.add(r['case']['family'])
                        chk.disagreement('model_selection', r['case'], {'touched_in_B': sorted(touched(r['pre'], r['runs']['B']['abs'], r['case']['family']))},
                                         {'selectStore': sorted(ss), 'selectDisk': sorted(sd)}, '; '.join(m)[:1200])
    # known-finding replays (oracle only)
    kres = run_cases(chk, xvc, [dict(c) for c in KNOWN_REPLAYS], 'k')
    for r in kres:
        chk.evaluations += 1
        if r['oracle']:
            chk.oracle_failure(r['oracle'][0][:600], r['case'], describe(r), signature=signature(r['case'], r['oracle']))
    chk.tie['streams']['known_replays'] = {'cases': len(kres), 'failing': sum(1 for r in kres if r['oracle'])}
    return chk.finish()


def replay(chk: Check, data):
    xvc = private_binary(chk, chk.build_xvc())
    for i, f in enumerate(data.get('failures', [])):
        r = run_case(chk, xvc, f'replay{i}', f['case'])
        chk.evaluations += 1
        print(json.dumps(describe(r), indent=1))
        print('oracle:', r['oracle'] or 'property holds on this input')
        if r['oracle']:
            chk.oracle_failure(r['oracle'][0][:600], r['case'], describe(r), signature=signature(r['case'], r['oracle']))
    return chk.finish()
