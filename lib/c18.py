"""C18 — Commands mean the same from any directory inside the repository.

Proof: lean/XvcTargets (Props.lean) — transcriptions of the heads of `filter_targets_from_store` and
`targets_from_disk` (file/src/common/mod.rs, after patches/C18-F3.patch), `filter_paths_by_globs`
(directory-slash rule), `build_glob_matcher`, `XvcPath::new`, with a small recursive glob matcher.

Tie/oracle (binary level, metamorphic): byte-identical copies of one prepared repository (the whole
sandbox incl. .git, .xvc, HOME); the same command is run (A) from the root with root-relative targets,
(B) from a subdirectory with targets relative to it, (C) with `-C <dir>`; the abstractions of the three
results are compared: records (JSON event stores replayed, entities canonicalised by path), cache objects
(address, bytes, modes), workspace entries (kind, bytes, writability, link targets canonicalised), storage
tree, parsed rows of `list`.  TIE: the paths the command touched in copy B vs the target set the compiled
model driver (`targetsmodel`) selects for (cwd, targets, recorded paths, paths on disk).
"""
import concurrent.futures, hashlib, json, os, shutil, stat
from common import Check, run_lines, shrink
from xvcbin import Sandbox, digest_hex, cache_rel

WORKERS = 6

FILES = {
    'r1.txt': 'root one\n', 'r2.dat': 'root two data\n',
    'a/f1.txt': 'a f1\n' * 2, 'a/f2.dat': 'a f2 dat\n' * 3,
    'a/b/g1.txt': 'a b g1\n' * 4, 'a/b/g2.dat': 'a b g2 dat\n' * 5,
    'a/b/c/h1.txt': 'a b c h1\n' * 6, 'a/b/c/h2.dat': 'a b c h2 dat\n' * 7,
    'a/b/c2/k1.txt': 'a b c2 k1\n' * 8, 'a/e/m1.txt': 'a e m1\n' * 9,
    'z/y1.txt': 'z y1\n' * 10, 'z/y2.dat': 'z y2 dat\n' * 11,
}
DIRS = sorted({os.path.dirname(p) for p in FILES if '/' in p} | {'a'})
CWDS = ['a', 'a/b', 'a/b/c']
STORES = ['xvc-path', 'xvc-metadata', 'content-digest', 'recheck-method', 'file-text-or-binary']


def join(cwd, t):
    return f'{cwd}/{t}' if cwd else t


# ------------------------------------------------------------------------------------------------
# abstraction of one sandbox

def sha(b):
    return hashlib.sha1(b).hexdigest()[:12] if b is not None else None


def abstract(sb, storage_dir):
    recs = {}
    paths = sb.store_map('xvc-path')
    md = sb.store_map('xvc-metadata')
    cd = sb.store_map('content-digest')
    rm = sb.store_map('recheck-method')
    tb = sb.store_map('file-text-or-binary')
    dup = {}
    for e, p in paths.items():
        m = md.get(e)
        r = {'type': m['file_type'] if m else None, 'size': m.get('size') if m else None,
             'digest': digest_hex(cd[e])[1] if e in cd else None, 'algo': digest_hex(cd[e])[0] if e in cd else None,
             'method': rm.get(e), 'tob': tb.get(e)}
        if r['type'] == 'Directory':
            # the "digest" and size of a directory record depend on directory mtimes/inode sizes, not on the command's meaning
            r = {'type': 'Directory'}
        if p in recs:
            dup[p] = dup.get(p, 1) + 1
        recs[p] = r
    orphan = sorted(set(md) | set(cd) | set(rm) | set(tb) - set(paths)) if False else []
    cache = {k: {'sha': sha(v['bytes']), 'mode': oct(v['mode']), 'dirmode': oct(v['dirmode']), 'kind': v['kind']}
             for k, v in sb.cache_objects().items()}
    inode_to_obj = {v['ino']: k for k, v in sb.cache_objects().items()}
    ws = {}
    for rel, k in sb.workspace_files().items():
        if k['kind'] == 'symlink':
            tgt = k['target'].replace(sb.root, '$ROOT')
            ws[rel] = {'kind': 'symlink', 'target': tgt}
        elif k['kind'] == 'file' and os.path.basename(rel) in ('.gitignore', '.xvcignore'):
            # xvc writes a time-stamped banner line before the lines it appends
            lines = [l for l in (k['bytes'] or b'').decode('utf-8', 'replace').splitlines() if not l.startswith('### Following ')]
            ws[rel] = {'kind': 'file', 'lines': sorted(lines)}    # xvc appends `/name` lines in hash-map order
        elif k['kind'] == 'file':
            ws[rel] = {'kind': 'file', 'sha': sha(k['bytes']), 'writable': k['writable'],
                       'hardlink_of': inode_to_obj.get(k['ino']) if k['nlink'] > 1 else None}
        else:
            ws[rel] = {'kind': k['kind']}
    dirs = set()
    for dp, dn, fn in os.walk(sb.root):
        dn[:] = [d for d in dn if d not in ('.xvc', '.git')]
        if dp != sb.root:
            dirs.add(os.path.relpath(dp, sb.root))
    st = {}
    if storage_dir and os.path.isdir(storage_dir):
        for dp, dn, fn in os.walk(storage_dir):
            for f in fn:
                p = os.path.join(dp, f)
                st[os.path.relpath(p, storage_dir)] = sha(open(p, 'rb').read())
    return {'records': recs, 'duplicate_paths': dup, 'cache': cache, 'workspace': ws, 'dirs': sorted(dirs), 'storage': st}


def parse_list(out, cwd):
    """rows of `xvc file list` as (status columns, size, recorded/actual digests, root-relative name)"""
    rows = []
    for line in out.splitlines():
        t = line.split()
        if len(t) < 5 or line.startswith('Total'):
            continue
        name = t[-1]
        # columns: <type+status> <size> <date> <time> [<recorded>] [<actual>] <name>
        rest = t[4:-1]
        rows.append((t[0], t[1], ' '.join(rest), join(cwd, name) if not name.startswith('/') else name))
    return sorted(rows)


def diff_abs(a, b, what=('records', 'cache', 'workspace', 'storage', 'duplicate_paths')):
    out = []
    for k in what:
        if a[k] != b[k]:
            keys = sorted(set(a[k]) | set(b[k]))
            d = {p: (a[k].get(p), b[k].get(p)) for p in keys if a[k].get(p) != b[k].get(p)}
            out.append((k, d))
    return out


# ------------------------------------------------------------------------------------------------
# prepared repositories: one preparation per command family, then byte-identical copies

def prepare(chk, xvc, name, family, variant, storage_dir):
    """returns a Sandbox in the prepared pre-state (the staging copy)"""
    sb = Sandbox(chk.scratch, name, xvc)
    sb.git('init', '-q', '-b', 'main')
    sb.git('commit', '-q', '--allow-empty', '-m', 'root')
    rc, out, err = sb.x('init')
    if rc != 0:
        chk.fatal('xvc init failed', out + err)
    for p, c in FILES.items():
        sb.write(p, c)
    all_targets = ['a/', 'z/', 'r1.txt', 'r2.dat']
    if family == 'track':
        if variant % 2:
            sb.x('file', 'track', 'a/f1.txt', 'z/')        # some files already tracked
        return sb
    method = ['copy', 'symlink', 'hardlink'][variant % 3] if family in ('recheck', 'untrack', 'copy', 'move', 'list') else 'copy'
    sb.x('file', 'track', '--recheck-method', method, *all_targets)
    if family == 'carry-in':
        for p in list(FILES)[variant % 2::2] + ['a/b/g1.txt', 'a/b/c/h1.txt']:
            sb.write(p, FILES[p] + 'edited\n')
    elif family == 'recheck':
        if variant % 4 == 3:                                  # a whole directory is gone from the workspace
            shutil.rmtree(sb.path('a/b'))
        else:
            for p in list(FILES)[variant % 2::2] + ['a/b/g1.txt', 'a/b/c/h1.txt', 'a/f1.txt']:
                if os.path.lexists(sb.path(p)):
                    os.unlink(sb.path(p))
    elif family == 'list':
        sb.write('a/b/g1.txt', FILES['a/b/g1.txt'] + 'edited\n')
        os.unlink(sb.path('a/b/c/h2.dat'))
        sb.write('a/b/untracked.txt', 'u\n')
        sb.write('a/b/c/untracked2.dat', 'u2\n')
    elif family in ('send', 'bring'):
        sb.x('storage', 'new', 'local', '--name', 'st', '--path', storage_dir)
        if family == 'bring':
            sb.x('file', 'send', '--to', 'st', *all_targets)
            sb.x('file', 'remove', '--from-cache', *all_targets)
            for p in FILES:
                if os.path.lexists(sb.path(p)):
                    os.unlink(sb.path(p))
    return sb


def clone(chk, src, name):
    sb = Sandbox(chk.scratch, name, src.xvc)
    shutil.rmtree(sb.base)
    shutil.copytree(src.base, sb.base, symlinks=True)
    # absolute symlinks into the cache must point into the copy
    for dp, dn, fn in os.walk(sb.root):
        dn[:] = [d for d in dn if d not in ('.xvc', '.git')]
        for f in fn:
            p = os.path.join(dp, f)
            if os.path.islink(p):
                t = os.readlink(p)
                if t.startswith(src.root):
                    os.unlink(p)
                    os.symlink(sb.root + t[len(src.root):], p)
    # hard links between workspace and cache are broken by copytree: re-link
    objs = {}
    for rel, v in sb.cache_objects().items():
        objs.setdefault(sha(v['bytes']), os.path.join(sb.root, '.xvc', rel))
    for rel, k in src.workspace_files().items():
        if k['kind'] == 'file' and k['nlink'] > 1 and sha(k['bytes']) in objs:
            p = sb.path(rel)
            os.unlink(p)
            os.link(objs[sha(k['bytes'])], p)
    return sb


# ------------------------------------------------------------------------------------------------
# cases

def cmd_argv(case, targets):
    f = case['family']
    o = case.get('opts', [])
    if f == 'track':
        return ['file', 'track'] + o + targets
    if f == 'carry-in':
        return ['file', 'carry-in'] + o + targets
    if f == 'recheck':
        return ['file', 'recheck'] + o + targets
    if f == 'list':
        return ['file', 'list'] + o + targets
    if f == 'send':
        return ['file', 'send', '--to', 'st'] + o + targets
    if f == 'bring':
        return ['file', 'bring', '--from', 'st'] + o + targets
    if f == 'remove':
        return ['file', 'remove', '--from-cache'] + o + targets
    if f == 'untrack':
        return ['file', 'untrack'] + o + targets
    if f == 'copy':
        return ['file', 'copy'] + o + targets
    if f == 'move':
        return ['file', 'move'] + o + targets
    raise ValueError(f)


def under(cwd):
    return [p for p in FILES if p.startswith(cwd + '/')]


def gen_targets(rng, cwd, shape):
    files = [p[len(cwd) + 1:] for p in under(cwd)]
    subdirs = sorted({d[len(cwd) + 1:] for d in DIRS if d.startswith(cwd + '/')})
    if shape == 'file':
        return [rng.choice(files)]
    if shape == 'files':
        return rng.sample(files, min(2, len(files)))
    if shape == 'dir/':
        return [rng.choice(subdirs) + '/'] if subdirs else [rng.choice(files)]
    if shape == 'dir':
        return [rng.choice(subdirs)] if subdirs else [rng.choice(files)]
    if shape == 'glob':
        cands = ['*.txt', '*.dat', '*', '**/*.txt', '**/*.dat', '*1*']
        for d in subdirs:
            cands += [d + '/*', d + '/*.txt', d + '/**']
        cands += [f[0] + '*' for f in files if '/' not in f]
        return [rng.choice(cands)]
    if shape == 'mixed':
        return gen_targets(rng, cwd, 'file') + gen_targets(rng, cwd, 'glob')
    if shape == 'none':
        return []
    raise ValueError(shape)


FAMILIES = ['track', 'carry-in', 'recheck', 'list', 'send', 'bring', 'remove', 'untrack', 'copy', 'move']
SHAPES = ['file', 'files', 'dir/', 'dir', 'glob', 'mixed', 'none']


def gen_case(rng, chk, family=None, cwd=None, shape=None):
    family = family or rng.choice(FAMILIES)
    cwd = cwd or rng.choice(CWDS)
    variant = rng.randrange(12)
    case = {'family': family, 'cwd': cwd, 'variant': variant, 'opts': []}
    if family in ('copy', 'move'):
        # source and destination, both relative to the cwd; file -> file (directory destinations: K9b replay)
        files = [p[len(cwd) + 1:] for p in under(cwd)]
        src = rng.choice(files)
        dst = rng.choice(['copied.txt', 'new/dest.txt', os.path.dirname(src) + '/renamed.' + src.split('.')[-1] if '/' in src else 'renamed.' + src.split('.')[-1]])
        if not dst.endswith('.' + src.split('.')[-1]):
            dst = dst.rsplit('.', 1)[0] + '.' + src.split('.')[-1]     # keep the extension (K2 is another property's finding)
        case['targets'] = [src, dst]
        case['shape'] = 'file->file'
    else:
        shape = shape or rng.choice(SHAPES)
        if family in ('untrack', 'remove') and shape == 'none':
            shape = 'dir/'                                   # these commands require targets
        case['shape'] = shape
        case['targets'] = gen_targets(rng, cwd, shape)
        if family == 'recheck' and rng.random() < 0.5:
            case['opts'] = ['--recheck-method', rng.choice(['symlink', 'hardlink', 'copy'])]
        if family == 'track' and rng.random() < 0.3:
            case['opts'] = ['--recheck-method', rng.choice(['symlink', 'hardlink'])]
        if family == 'carry-in' and rng.random() < 0.3:
            case['opts'] = ['--force']
    chk.count('family:' + family)
    chk.count('depth:' + str(cwd.count('/') + 1))
    chk.count('shape:' + case['shape'])
    return case


def root_targets(case):
    cwd = case['cwd']
    if case['shape'] == 'none':
        return [cwd + '/']                                    # "with no targets it applies to the files under the current directory"
    return [join(cwd, t) for t in case['targets']]


def run_case(chk, xvc, name, case):
    base = os.path.join(chk.scratch, name)
    storage = os.path.join(base, 'storage')
    os.makedirs(base, exist_ok=True)
    stage = prepare(chk, xvc, f'{name}/stage', case['family'], case['variant'], storage)
    storage0 = os.path.join(base, 'storage0')
    if os.path.isdir(storage):
        shutil.copytree(storage, storage0)
    pre = abstract(stage, storage0 if os.path.isdir(storage0) else None)
    cwd = case['cwd']
    runs = {}
    forms = {
        'A': (None, [], root_targets(case)),
        'B': (cwd, [], case['targets']),
        'C': (None, ['-C', cwd], case['targets']),
    }
    if case.get('forms'):
        forms = {k: v for k, v in forms.items() if k in case['forms']}
    try:
        for form, (cd, pre_args, targets) in forms.items():
            sb = clone(chk, stage, f'{name}/{form}')
            if os.path.isdir(storage0):
                shutil.rmtree(storage, ignore_errors=True)
                shutil.copytree(storage0, storage)
            os.makedirs(sb.path(cwd), exist_ok=True)         # the directory the user stands in exists in every copy
            wd = sb.path(cd) if cd else sb.root
            argv = pre_args + cmd_argv(case, targets)
            rc, out, err = sb.x(*argv, cwd=wd)
            ab = abstract(sb, storage if os.path.isdir(storage0) else None)
            ab['list'] = parse_list(out, cwd if form != 'A' else '') if case['family'] == 'list' else None
            runs[form] = {'argv': ['xvc'] + argv, 'cwd': cd or '.', 'rc': rc, 'stdout': out[-1500:], 'stderr': err[-800:], 'abs': ab}
            sb.cleanup()
    finally:
        stage.cleanup()
        shutil.rmtree(base, ignore_errors=True)
    msgs = []
    for other in ('B', 'C'):
        if other not in runs or 'A' not in runs:
            continue
        d = diff_abs(runs['A']['abs'], runs[other]['abs'])
        for k, dd in d:
            items = list(dd.items())[:4]
            msgs.append(f"{k} differ between `{' '.join(runs['A']['argv'])}` at the root and `{' '.join(runs[other]['argv'])}` in {runs[other]['cwd']}: "
                        + '; '.join(f'{p}: root={va} vs {vb}' for p, (va, vb) in items) + (f' (+{len(dd) - 4} more)' if len(dd) > 4 else ''))
        if case['family'] == 'list' and runs['A']['abs']['list'] != runs[other]['abs']['list']:
            la, lb = runs['A']['abs']['list'], runs[other]['abs']['list']
            msgs.append(f"list rows differ ({other}): only at root {[r for r in la if r not in lb][:4]}, only from {runs[other]['cwd']} {[r for r in lb if r not in la][:4]}")
    return {'case': case, 'pre': pre, 'runs': runs, 'oracle': msgs}


def touched(pre, post, family):
    """root-relative paths the command acted on, read off the abstraction before/after (and the rows of list)"""
    t = set()
    if family == 'list':
        return {r[3] for r in post['list']}
    for p in set(pre['records']) | set(post['records']):
        if pre['records'].get(p) != post['records'].get(p):
            t.add(p)
    for p in set(pre['workspace']) | set(post['workspace']):
        if os.path.basename(p) in ('.gitignore', '.xvcignore'):
            continue
        if pre['workspace'].get(p) != post['workspace'].get(p):
            t.add(p)
    # cache / storage objects are attributed to the paths recording their digest
    def owners(recs, addr):
        return {p for p, r in recs.items() if r.get('digest') and r['type'] == 'File'
                and r.get('algo') and cache_rel(r['algo'], r['digest'], os.path.basename(p).rsplit('.', 1)[1] if '.' in os.path.basename(p) else '') == addr}
    for k in set(pre['cache']) | set(post['cache']):
        if pre['cache'].get(k) != post['cache'].get(k):
            t |= owners(post['records'], k) | owners(pre['records'], k)
    for k in set(pre['storage']) | set(post['storage']):
        if pre['storage'].get(k) != post['storage'].get(k):
            addr = k.split('/', 1)[1] if '/' in k else k
            t |= owners(post['records'], addr) | owners(pre['records'], addr)
    return t


def describe(r):
    return {'case': r['case'], 'runs': {k: {x: v[x] for x in ('argv', 'cwd', 'rc', 'stderr')} for k, v in r['runs'].items()},
            'oracle': r['oracle']}


def signature(case, msgs):
    if case.get('finding'):
        return {'finding': case['finding']}
    return {'finding': 'cwd-dependence', 'family': case['family']}


def run(chk: Check):
    raise NotImplementedError
