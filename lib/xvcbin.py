"""Scratch repositories driven by the freshly built xvc binary (binary-level harness, DESIGN.md 2.2 kind 2).

Every scratch repository lives outside /repo and /verif, has its own HOME / XDG_CONFIG_HOME (so the
machine's ~/.config/xvc never leaks into a run), fixed git identity, RUST_BACKTRACE=0 and a hard
per-process timeout (a hang is an observation, not a stuck check).
"""
import json, os, shutil, subprocess, stat, hashlib

XVC_TIMEOUT = 60


class Sandbox:
    def __init__(self, base, name, xvc, env=None):
        self.xvc = xvc
        self.base = os.path.join(base, name)
        shutil.rmtree(self.base, ignore_errors=True)
        self.root = os.path.join(self.base, 'repo')
        self.home = os.path.join(self.base, 'home')
        os.makedirs(self.root)
        os.makedirs(os.path.join(self.home, '.config'))
        self.env = {
            'PATH': os.environ.get('PATH', '/usr/bin:/bin'), 'HOME': self.home,
            'XDG_CONFIG_HOME': os.path.join(self.home, '.config'), 'RUST_BACKTRACE': '0',
            'GIT_AUTHOR_NAME': 'v', 'GIT_AUTHOR_EMAIL': 'v@v', 'GIT_COMMITTER_NAME': 'v', 'GIT_COMMITTER_EMAIL': 'v@v',
            'GIT_CONFIG_NOSYSTEM': '1', 'LC_ALL': 'C.UTF-8', 'TZ': 'UTC',
        }
        if os.environ.get('TMPDIR'):
            self.env['TMPDIR'] = os.environ['TMPDIR']
        if env:
            self.env.update(env)
        self.log = []

    def run(self, argv, cwd=None, env=None, timeout=XVC_TIMEOUT, input=None):
        e = dict(self.env)
        if env:
            e.update(env)
        try:
            p = subprocess.run(argv, cwd=cwd or self.root, env=e, stdout=subprocess.PIPE, stderr=subprocess.PIPE,
                               timeout=timeout, input=input, umask=getattr(self, 'umask', None) if getattr(self, 'umask', None) is not None else -1)
            rc, out, err = p.returncode, p.stdout.decode('utf-8', 'replace'), p.stderr.decode('utf-8', 'replace')
        except subprocess.TimeoutExpired as t:
            rc, out, err = 124, (t.stdout or b'').decode('utf-8', 'replace'), 'TIMEOUT'
        self.log.append({'argv': argv, 'cwd': os.path.relpath(cwd or self.root, self.root), 'rc': rc})
        return rc, out, err

    def git(self, *args, cwd=None):
        return self.run(['git'] + list(args), cwd=cwd)

    def x(self, *args, cwd=None, env=None, timeout=XVC_TIMEOUT):
        """run `xvc <args>`"""
        return self.run([self.xvc] + list(args), cwd=cwd, env=env, timeout=timeout)

    def init(self, git=True):
        if git:
            self.git('init', '-q', '-b', 'main')
            self.git('commit', '-q', '--allow-empty', '-m', 'root')
            return self.x('init')
        return self.x('init', '--no-git')

    def path(self, rel):
        return os.path.join(self.root, rel)

    def write(self, rel, data, mode='replace'):
        """user edit = replace the entry (unlink + create), what editors and `>` on a regular file do"""
        p = self.path(rel)
        os.makedirs(os.path.dirname(p), exist_ok=True)
        if os.path.lexists(p):
            os.unlink(p)
        with open(p, 'wb') as f:
            f.write(data if isinstance(data, bytes) else data.encode())

    def read(self, rel):
        try:
            with open(self.path(rel), 'rb') as f:
                return f.read()
        except OSError:
            return None

    def lstat_kind(self, rel):
        p = self.path(rel)
        try:
            st = os.lstat(p)
        except OSError:
            return {'kind': 'absent'}
        if stat.S_ISLNK(st.st_mode):
            return {'kind': 'symlink', 'target': os.readlink(p)}
        if stat.S_ISDIR(st.st_mode):
            return {'kind': 'dir'}
        return {'kind': 'file', 'writable': bool(st.st_mode & 0o200), 'ino': st.st_ino, 'nlink': st.st_nlink, 'size': st.st_size}

    def cache_objects(self):
        """{relative address under .xvc: (bytes, file mode, dir mode, inode)} for every object in the local cache"""
        out = {}
        xd = self.path('.xvc')
        for algo in ('b3', 'b2', 's2', 's3'):
            top = os.path.join(xd, algo)
            for dp, dn, fn in os.walk(top):
                for f in fn:
                    p = os.path.join(dp, f)
                    st = os.lstat(p)
                    kind = 'symlink' if stat.S_ISLNK(st.st_mode) else 'file'
                    try:
                        data = open(p, 'rb').read() if kind == 'file' else None
                    except OSError:
                        data = None
                    out[os.path.relpath(p, xd)] = {'bytes': data, 'mode': st.st_mode & 0o777, 'dirmode': os.lstat(dp).st_mode & 0o777,
                                                  'ino': st.st_ino, 'kind': kind}
        return out

    def workspace_files(self):
        """{rel path: lstat kind dict + bytes} for everything outside .xvc and .git"""
        out = {}
        for dp, dn, fn in os.walk(self.root):
            dn[:] = [d for d in dn if d not in ('.xvc', '.git')]
            for f in fn:
                rel = os.path.relpath(os.path.join(dp, f), self.root)
                k = self.lstat_kind(rel)
                k['bytes'] = self.read(rel)
                out[rel] = k
        return out

    def store_events(self, store):
        """independent replayer input: the event files of `.xvc/store/<store>-store` in file-name order"""
        d = self.path(f'.xvc/store/{store}-store')
        evs = []
        if os.path.isdir(d):
            for f in sorted(os.listdir(d)):
                try:
                    evs += json.load(open(os.path.join(d, f)))
                except Exception as ex:
                    evs.append({'Corrupt': {'file': f, 'error': str(ex)}})
        return evs

    def store_map(self, store):
        """replay to entity -> value (entity as 'c,r' string)"""
        m = {}
        for ev in self.store_events(store):
            if 'Add' in ev:
                m[','.join(map(str, ev['Add']['entity']))] = ev['Add']['value']
            elif 'Remove' in ev:
                m.pop(','.join(map(str, ev['Remove']['entity'])), None)
        return m

    def store_history(self, store):
        """entity -> list of all values ever added (in order)"""
        h = {}
        for ev in self.store_events(store):
            if 'Add' in ev:
                h.setdefault(','.join(map(str, ev['Add']['entity'])), []).append(ev['Add']['value'])
        return h

    def cleanup(self):
        # cache directories are read-only; make everything writable first
        for dp, dn, fn in os.walk(self.base):
            try:
                os.chmod(dp, 0o755)
            except OSError:
                pass
        shutil.rmtree(self.base, ignore_errors=True)


def digest_hex(d):
    """content-digest store value -> (algorithm name, 64 hex digits)"""
    return d['algorithm'], ''.join(f'{b:02x}' for b in d['digest'])


ALGO_PREFIX = {'Blake3': 'b3', 'Blake2s': 'b2', 'SHA2_256': 's2', 'SHA3_256': 's3'}


def cache_rel(algo, hexd, ext):
    return f'{ALGO_PREFIX[algo]}/{hexd[:3]}/{hexd[3:6]}/{hexd[6:]}/0.{ext}'
