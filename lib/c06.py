"""C06 — Send and bring through a storage form a lossless round trip.

Proof: lean/XvcRepo/XvcRepo/Props/C06.lean (storage model Storage.lean on top of the repository model).
Tie: scenarios (track in A, send, clone B / drop cache, bring with fault patterns and TMPDIR placements) are run with the
rebuilt xvc binary against a local and a generic (shell command) storage and compared with the model driver.
Oracle (model independent): bytes in the clone after bring, storage layout <guid>/<cache path>, idempotence of send and
bring (tree snapshots), every cache object re-hashed after every fault pattern.
Fault family "cross-device bring under a write fault" (class XdevFault): TMPDIR on another device, the final move of a
downloaded object into the cache hits a file size limit or a kill; no partial object at a cache address, a second bring
delivers byte-identical files (model: fetchF / Mv in Storage.lean, driver outcome `mf`).
"""
import os, re, shutil, subprocess, hashlib, json, itertools
from concurrent.futures import ThreadPoolExecutor
import hashref
import repo_harness as rh
import repo_check as rc
from repo_harness import Obs, Table, abstraction, fp, ext_of, addr_parts, split_abs
from xvcbin import Sandbox, cache_rel

UP = r'''#!/bin/sh
# upload <relative cache path> <absolute cache path> <full storage path> <full storage dir>
d=$(grep -F "$1 " "%(faults)s.up" 2>/dev/null | tail -1 | awk '{print $2}')
[ "$d" = "fail" ] && { echo "upload fails by fault pattern" >&2; exit 1; }
mkdir -p "$4" && cp "$2" "$3.tmp.$$" && mv "$3.tmp.$$" "$3"
'''
DOWN = r'''#!/bin/sh
# download <relative cache path> <full storage path> <absolute (temp) cache path> <absolute (temp) cache dir>
# a decision may be a comma separated list: one entry per invocation for the same cache path within one command
# (the last entry repeats); xvc is expected to run the command once per cache path
k=$(printf '%%s' "$1" | tr '/' '_')
c=$(cat "%(faults)s.cnt.$k" 2>/dev/null || echo 0); c=$((c+1)); echo $c > "%(faults)s.cnt.$k"
d=$(grep -F "$1 " "%(faults)s.down" 2>/dev/null | tail -1 | awk '{print $2}')
e=$(printf '%%s' "$d" | cut -d, -f$c); [ -z "$e" ] && e=$(printf '%%s' "$d" | awk -F, '{print $NF}')
d=$e
case "$d" in
  fc) echo "download fails cleanly by fault pattern" >&2; exit 1;;
  fp) mkdir -p "$4"; printf 'PAR' > "$3"; echo "download fails after a partial write by fault pattern" >&2; exit 1;;
esac
mkdir -p "$4" && cp "$2" "$3"
'''


def guid_of(sb):
    t = open(sb.path('.xvc/config.toml')).read()
    m = re.search(r'guid\s*=\s*"([^"]+)"', t)
    return m.group(1) if m else None


def storage_tree(d):
    out = {}
    for dp, dn, fn in os.walk(d):
        for f in fn:
            p = os.path.join(dp, f)
            rel = os.path.relpath(p, d)
            if rel == '.xvc-guid':
                continue
            out[rel] = open(p, 'rb').read()
    return out


class Scenario:
    def __init__(self, chk, xvc, name, rng, kind, faults=True):
        self.chk, self.xvc, self.name, self.rng, self.kind = chk, xvc, name, rng, kind
        self.base = os.path.join(chk.scratch, 'c06', name)
        self.lines = []          # model lines
        self.obs = []            # (label, abstraction string of the real side)
        self.fail = []           # oracle failures (msg, sig)
        self.table = Table()
        self.faults_enabled = faults and kind == 'generic'

    def model(self, line, real):
        self.lines.append(line); self.obs.append(real)

    def new_storage(self, sb, sdir):
        if self.kind == 'local':
            return sb.x('storage', 'new', 'local', '--name', 'st', '--path', sdir)
        fa = os.path.join(self.base, 'faults')
        up, down = os.path.join(self.base, 'up.sh'), os.path.join(self.base, 'down.sh')
        if not os.path.exists(up):
            open(up, 'w').write(UP % {'faults': fa}); open(down, 'w').write(DOWN % {'faults': fa})
            open(fa + '.up', 'w').close(); open(fa + '.down', 'w').close()
        self.faultfile = fa
        return sb.x('storage', 'new', 'generic', '--name', 'st', '--storage-dir', sdir + '/',
                    '--init', 'mkdir -p {STORAGE_DIR} && cp {LOCAL_GUID_FILE_PATH} {STORAGE_GUID_FILE_PATH}',
                    '--list', 'find {STORAGE_DIR} -type f',
                    '--upload', f'sh {up} {{RELATIVE_CACHE_PATH}} {{ABSOLUTE_CACHE_PATH}} {{FULL_STORAGE_PATH}} {{FULL_STORAGE_DIR}}',
                    '--download', f'sh {down} {{RELATIVE_CACHE_PATH}} {{FULL_STORAGE_PATH}} {{ABSOLUTE_CACHE_PATH}} {{ABSOLUTE_CACHE_DIR}}',
                    '--delete', 'rm -f {FULL_STORAGE_PATH}')

    def set_faults(self, which, decisions, obs):
        """decisions: path -> decision; written per relative cache path of the path's current record"""
        if not self.faults_enabled:
            return
        for fn in os.listdir(os.path.dirname(self.faultfile)):
            if fn.startswith(os.path.basename(self.faultfile) + '.cnt.'):
                os.unlink(os.path.join(os.path.dirname(self.faultfile), fn))
        with open(self.faultfile + '.' + which, 'w') as f:
            for p, d in decisions.items():
                r = obs.recs.get(p)
                if r and r['cur']:
                    # F20: a second invocation for the same cache path (duplicates) must not happen; if it does it fails
                    # after a partial write, which the first, successful invocation would mask
                    dd = f'{d},fp' if which == 'down' and d == 'ok' else d
                    f.write(f"{rc.rec_addr(r, p)} {dd}\n")

    def storage_abs(self, sdir, guids):
        items = []
        for rel, b in storage_tree(sdir).items():
            g, _, crel = rel.partition('/')
            pfx, hexd, ext = addr_parts(crel)
            items.append(f"{guids.get(g, '?' + g)}:{self.table.digest_token(rh.PREFIX_IDX.get(pfx, 9), hexd)}:{ext}={fp(b)}")
        return 'st={' + ';'.join(sorted(items)) + '}'

    def run(self):
        rng = self.rng
        os.makedirs(self.base, exist_ok=True)
        cfg = {'algo': rng.choice([0, 0, 1, 2, 3]), 'method': rng.choice(['copy', 'hardlink', 'symlink']), 'tob': 'auto'}
        self.cfg = cfg
        cargs = rh.Runner.cfg_args(None, cfg)
        A = Sandbox(self.base, 'A', self.xvc); A.init()
        pool = rh.content_pool(rng)
        names = rng.sample(sorted(pool), rng.randint(2, 4))
        paths = rng.sample(rh.PATHS, len(names))
        self.lines.append('\t'.join(['cfg', str(cfg['algo']), cfg['method'], cfg['tob']]))
        self.obs.append(None)
        used = set()
        files = {}
        for p, n in zip(paths, names):
            b = pool[n] + bytes(f'#{rng.randint(0, 9)}', 'ascii')
            if (p == paths[0] and rng.random() < 0.3) or rng.random() < 0.1:
                b = b'' if rng.random() < 0.7 else bytes([rng.randint(0, 255)])      # boundary sizes: 0 and 1 byte
            if hashref.strip_crlf(b) in used: b += b'x'
            used.add(hashref.strip_crlf(b))
            A.write(p, b); self.table.add(b); files[p] = b
            self.model('\t'.join(['write', p, b.hex()]), None)
        if rng.random() < 0.3 and len(paths) >= 2:       # a duplicate: two paths, one object
            A.write(paths[1], files[paths[0]]); files[paths[1]] = files[paths[0]]
            self.model('\t'.join(['write', paths[1], files[paths[0]].hex()]), None)
        stamps = {'k': 0, 'mine': set()}
        rh.Runner.restamp(A, stamps)
        rc_, out, err = A.x(*(cargs + ['file', 'track', '--no-parallel'] + paths))
        rh.Runner.restamp(A, stamps)
        oa = Obs(A)
        self.model('\t'.join(['track', '-', '-', '0', '0'] + paths), 'rc=ok ' + abstraction(oa, self.table))
        sdir = os.path.join(self.base, 'storage')
        rc_, out, err = self.new_storage(A, sdir)
        if rc_ != 0:
            self.fail.append((f'storage new failed rc={rc_} {err[-300:]}', {'kind': 'storage-new-failed'})); return self
        gA = guid_of(A)
        guids = {gA: '1'}
        # ---------------------------------------------------------------- send (subset, with upload faults)
        sent = rng.sample(paths, rng.randint(1, len(paths)))
        def per_address(dec):
            # duplicates share one object: the upload/download command runs per cache path, so one decision per address
            seen = {}
            for p in list(dec):
                a = rc.rec_addr(oa.recs[p], p) if p in oa.recs else p
                dec[p] = seen.setdefault(a, dec[p])
            return dec
        updec = per_address({p: (rng.choice(['ok', 'ok', 'fail']) if self.faults_enabled else 'ok') for p in sent})
        self.set_faults('up', updec, oa)
        rc_, out, err = A.x(*(cargs + ['file', 'send', '--to', 'st'] + sent))
        self.model('\t'.join(['send', '1'] + [f'{p}={updec[p]}' for p in sent]), self.storage_abs(sdir, guids))
        tree1 = storage_tree(sdir)
        # layout and content oracle
        for p in sent:
            rel = gA + '/' + rc.rec_addr(oa.recs[p], p)
            obj = oa.cache.get(rc.rec_addr(oa.recs[p], p))
            if updec[p] == 'ok':
                if tree1.get(rel) != (obj and obj['bytes']):
                    self.fail.append((f'send: {p} is not stored byte-identically under <guid>/<cache path> = {rel}', {'kind': 'send-missing-or-different'}))
        for rel in tree1:
            if not rel.startswith(gA + '/'):
                self.fail.append((f'send: storage entry {rel} is not under the repository guid', {'kind': 'storage-layout'}))
        # send again: nothing changes
        self.set_faults('up', {p: 'ok' for p in sent if updec[p] == 'ok'}, oa)
        ok_sent = [p for p in sent if updec[p] == 'ok']
        if ok_sent:
            A.x(*(cargs + ['file', 'send', '--to', 'st'] + ok_sent))
            if storage_tree(sdir) != tree1:
                self.fail.append(('sending again changed the storage', {'kind': 'send-not-idempotent'}))
            self.model('\t'.join(['send', '1'] + [f'{p}=ok' for p in ok_sent]), self.storage_abs(sdir, guids))
        # ---------------------------------------------------------------- another repository sharing the storage
        if rng.random() < 0.5:
            C = Sandbox(self.base, 'C', self.xvc); C.init()
            C.write('c.txt', files[paths[0]])
            C.x(*(cargs + ['file', 'track', 'c.txt']))
            self.new_storage(C, sdir)
            C.x(*(cargs + ['file', 'send', '--to', 'st', 'c.txt']))
            tree2 = storage_tree(sdir)
            for rel, b in tree1.items():
                if tree2.get(rel) != b:
                    self.fail.append((f'a second repository sending the same content changed {rel} of the first', {'kind': 'guid-collision'}))
            gC = guid_of(C)
            if gC == gA or not any(r.startswith(gC + '/') for r in tree2):
                self.fail.append(('second repository has no entries under its own guid', {'kind': 'guid-collision'}))
            C.cleanup()
            self.lines += ['use\tC', '\t'.join(['cfg', str(cfg['algo']), cfg['method'], cfg['tob']]), '\t'.join(['write', 'c.txt', files[paths[0]].hex()]),
                           '\t'.join(['track', '-', '-', '0', '0', 'c.txt']), 'send\t2\tc.txt=ok', 'use\tA']
            self.obs += [None, None, None, None, None, None]
            for rel in list(storage_tree(sdir)):
                if rel.startswith(gC + '/'):
                    os.unlink(os.path.join(sdir, rel))
        # ---------------------------------------------------------------- the receiving side
        same_repo = rng.random() < 0.35
        if same_repo:
            B = A
            for dp, dn, fn in os.walk(A.path('.xvc')):
                try: os.chmod(dp, 0o755)
                except OSError: pass
            for a in ('b3', 'b2', 's2', 's3'):
                shutil.rmtree(A.path('.xvc/' + a), ignore_errors=True)
            # C03 through `bring`: one path may hold an uncommitted edit instead of being absent - bring (no --force) must
            # leave it alone
            self.edited = {}
            for p in paths:
                if os.path.lexists(A.path(p)): os.unlink(A.path(p))
            self.lines += ['dropcache'] + ['\t'.join(['delete', p]) for p in paths]
            self.obs += [None] * (1 + len(paths))
            if rng.random() < 0.5:
                p = rng.choice(paths)
                eb = b'uncommitted edit of ' + p.encode() + bytes(f' {rng.randint(0, 99)}\n', 'ascii')
                A.write(p, eb); self.table.add(eb); self.edited[p] = eb
                rh.Runner.restamp(A, stamps)
                self.model('\t'.join(['write', p, eb.hex()]), None)
        else:
            A.git('add', '-A'); A.git('commit', '-q', '-m', 'all', '--allow-empty')
            B = Sandbox(self.base, 'B', self.xvc)
            shutil.rmtree(B.root)
            r = B.run(['git', 'clone', '-q', A.root, B.root], cwd=self.base)
            self.lines += ['clone\tB', 'use\tB', '\t'.join(['cfg', str(cfg['algo']), cfg['method'], cfg['tob']])]
            self.obs += [None, None, None]
        ob = Obs(B)
        want = rng.sample(paths, rng.randint(1, len(paths)))
        dldec = per_address({p: (rng.choice(['ok', 'ok', 'fc', 'fp']) if self.faults_enabled else 'ok') for p in want})
        if self.kind == 'local':
            want = [p for p in want if p in sent] or [sent[0]]       # a missing object makes the whole local receive fail
            dldec = {p: 'ok' for p in want}
        self.set_faults('down', dldec, oa)
        tmp_other = rng.random() < 0.5 and os.path.isdir('/dev/shm')
        env = {'TMPDIR': '/dev/shm'} if tmp_other else {}
        method = rng.choice([None, None, 'copy', 'hardlink', 'symlink'])
        args = cargs + ['file', 'bring', '--from', 'st'] + (['--recheck-as', method] if method else []) + want
        rc_, out, err = B.x(*args, env=env)
        rh.Runner.restamp(B, stamps)
        ob2 = Obs(B)
        stored = {rc.rec_addr(oa.recs[p], p) for p in sent if updec[p] == 'ok'}
        eff = {p: (dldec[p] if rc.rec_addr(oa.recs[p], p) in stored else 'fc') for p in want}
        self.model('\t'.join(['bring', 'other' if tmp_other else 'same', '1', method or '-'] + [f'{p}={eff[p]}' for p in want]),
                   f"rc={'ok' if rc_ in (0, 1) else 'panic'} " + abstraction(ob2, self.table))
        self.chk.count(f'bring:tmp={"other-fs" if tmp_other else "same-fs"}'); self.chk.count(f'bring:{"same-repo" if same_repo else "clone"}')
        for p in want: self.chk.count(f'download:{eff[p]}')
        for p in sent: self.chk.count(f'upload:{updec[p]}')
        # oracle: bytes, no corrupt object
        for p, eb in getattr(self, 'edited', {}).items():
            if rc.read_through(ob2, p) != eb:
                self.fail.append((f'bring (without --force) replaced the uncommitted edit at {p}', {'kind': 'bring-overwrote-uncommitted'}))
        for p in want:
            if p in getattr(self, 'edited', {}): continue
            got = rc.read_through(ob2, p)
            if eff[p] == 'ok':
                if got != files[p]:
                    self.fail.append((f"bring ({self.kind}, TMPDIR {'on another fs' if tmp_other else 'default'}, rc={rc_}): {p} is "
                                      f"{'missing' if got is None else 'different'} after a successful transfer {err[-200:]}",
                                      {'kind': 'roundtrip-lost', 'tmp_other': tmp_other}))
            elif got is not None and got != files[p]:
                self.fail.append((f'bring: {p} has wrong bytes after a failed download', {'kind': 'wrong-bytes-after-fault'}))
        fake = [{'i': 0, 'cmd': {'op': 'bring', 'targets': want}, 'rc': rc_, 'pre': None, 'post': ob2}]
        for msg, sig in rc.o1_content_addressed(fake, cfg, []):
            self.fail.append((f'after bring with download pattern {eff}: ' + msg, sig))
        # bring again (no faults): nothing that is there changes
        if rc_ in (0, 1):
            self.set_faults('down', {}, oa)
            snap_c = {k: (v['bytes'], v['ino']) for k, v in ob2.cache.items()}
            B.x(*(cargs + ['file', 'bring', '--from', 'st'] + [p for p in want if eff[p] == 'ok']), env=env)
            ob3 = Obs(B)
            for k, v in snap_c.items():
                n = ob3.cache.get(k)
                if not n or (n['bytes'], n['ino']) != v:
                    self.fail.append((f'bringing again replaced or removed cache object {k}', {'kind': 'bring-not-idempotent'}))
            for p in want:
                if p in getattr(self, 'edited', {}): continue
                if eff[p] == 'ok' and rc.read_through(ob3, p) != files[p]:
                    self.fail.append((f'bringing again changed {p}', {'kind': 'bring-not-idempotent'}))
        if B is not A: B.cleanup()
        A.cleanup()
        shutil.rmtree(self.base, ignore_errors=True)
        return self


def interrupted_send(chk, xvc, name, limit_blocks):
    """oracle-only scenario: `xvc file send` to a local storage is killed in the middle of an object (SIGXFSZ through
    `ulimit -f`); then (a) a clone brings directly, (b) the send is repeated and a second clone brings.  In both cases the
    file in the clone is byte-identical or absent - never a wrong or partial object at a cache address."""
    fails = []
    base = os.path.join(chk.scratch, 'c06', name)
    A = Sandbox(base, 'A', xvc); A.init()
    import random as _r
    rng = _r.Random(chk.seed * 13 + limit_blocks)
    big = bytes(rng.getrandbits(8) for _ in range(300_000)) * 8          # 2.4 MB
    A.write('big.bin', big); A.write('small.txt', b'small\n')
    A.x('file', 'track', 'big.bin', 'small.txt')
    sdir = os.path.join(base, 'storage')
    A.x('storage', 'new', 'local', '--name', 'st', '--path', sdir)
    rc_, out, err = A.run(['bash', '-c', f'ulimit -f {limit_blocks}; exec "$0" file send --to st big.bin small.txt', xvc])
    chk.count(f'interrupted-send:rc={rc_}')
    A.git('add', '-A'); A.git('commit', '-q', '-m', 'all', '--allow-empty')

    def bring_in_clone(tag):
        B = Sandbox(base, tag, xvc)
        shutil.rmtree(B.root)
        B.run(['git', 'clone', '-q', A.root, B.root], cwd=base)
        r, o, e = B.x('file', 'bring', '--from', 'st', 'big.bin', 'small.txt')
        ob = Obs(B)
        for p, want in (('big.bin', big), ('small.txt', b'small\n')):
            got = rc.read_through(ob, p)
            if got is not None and got != want:
                fails.append((f'{tag}: after a send killed at {limit_blocks} KiB, bring (rc={r}) delivered {len(got)} wrong/partial bytes for {p} (expected {len(want)} or nothing)',
                              {'kind': 'partial-object-after-interrupted-send', 'stage': tag}))
        fake = [{'i': 0, 'cmd': {'op': 'bring', 'targets': ['big.bin']}, 'rc': r, 'pre': None, 'post': ob}]
        for msg, sig in rc.o1_content_addressed(fake, {}, []):
            fails.append((f'{tag}: after an interrupted send: ' + msg, sig))
        B.cleanup()
        return ob
    bring_in_clone('clone-after-interrupted-send')
    r2, _, e2 = A.x('file', 'send', '--to', 'st', 'big.bin', 'small.txt')
    ob = bring_in_clone('clone-after-repeated-send')
    if r2 == 0 and (rc.read_through(ob, 'big.bin') != big or rc.read_through(ob, 'small.txt') != b'small\n'):
        fails.append((f'after an interrupted send and a successful repeated send (rc 0), bring in a clone does not deliver the files byte-identically', {'kind': 'repeated-send-does-not-repair'}))
    A.cleanup()
    shutil.rmtree(base, ignore_errors=True)
    return fails


def failing_bring(chk, xvc, name, limit_blocks, sigmode):
    """The transfer fails in the middle on the RECEIVING side: `xvc file bring` runs with a file size limit, so the copy out
    of the storage is cut short - with SIGXFSZ ignored the write fails with EFBIG (like a full disk or a quota), otherwise
    the process is killed.  Oracle: whatever the exit status, afterwards every file is byte-identical or absent and no
    wrong or partial object sits at a cache address; bringing again without the limit delivers everything."""
    fails = []
    base = os.path.join(chk.scratch, 'c06', name)
    A = Sandbox(base, 'A', xvc); A.init()
    import random as _r
    rng = _r.Random(chk.seed * 17 + limit_blocks)
    big = bytes(rng.getrandbits(8) for _ in range(300_000)) * 8          # 2.4 MB
    files = {'big.bin': big, 'small.txt': b'small\n', 'big2.dat': big[:1_000_000] + b'tail'}
    for p, b in files.items(): A.write(p, b)
    algo = rng.choice(['blake3', 'sha2', 'sha3', 'blake2'])
    cargs = ['-c', f'cache.algorithm={algo}']
    A.x(*(cargs + ['file', 'track', '--text-or-binary', 'binary'] + list(files)))
    sdir = os.path.join(base, 'storage')
    A.x('storage', 'new', 'local', '--name', 'st', '--path', sdir)
    A.x(*(cargs + ['file', 'send', '--to', 'st'] + list(files)))
    A.git('add', '-A'); A.git('commit', '-q', '-m', 'all', '--allow-empty')
    B = Sandbox(base, 'B', xvc)
    shutil.rmtree(B.root)
    B.run(['git', 'clone', '-q', A.root, B.root], cwd=base)
    tmpd = os.path.join(base, 'tmp'); os.makedirs(tmpd, exist_ok=True)
    trap = "trap '' XFSZ; " if sigmode == 'efbig' else ''
    r, o, e = B.run(['bash', '-c', f'{trap}ulimit -f {limit_blocks}; exec "$0" ' + ' '.join(cargs) + ' file bring --from st ' + ' '.join(files), xvc], env={'TMPDIR': tmpd})
    chk.count(f'failing-bring:{sigmode}:rc={r}')
    ob = Obs(B)
    for p, want in files.items():
        got = rc.read_through(ob, p)
        if got is not None and got != want:
            fails.append((f'bring cut short at {limit_blocks} KiB ({sigmode}, rc={r}) delivered {len(got)} wrong/partial bytes for {p} (expected {len(want)} or nothing)',
                          {'kind': 'partial-file-after-failing-bring', 'mode': sigmode}))
    fake = [{'i': 0, 'cmd': {'op': 'bring', 'targets': list(files)}, 'rc': r, 'pre': None, 'post': ob}]
    for msg, sig in rc.o1_content_addressed(fake, {}, []):
        if sig['kind'] in ('address-mismatch', 'object-is-symlink'):
            fails.append((f'after a bring cut short at {limit_blocks} KiB ({sigmode}, rc={r}): ' + msg, dict(sig, mode=sigmode)))
    r2, _, e2 = B.x(*(cargs + ['file', 'bring', '--from', 'st'] + list(files)), env={'TMPDIR': tmpd})
    ob2 = Obs(B)
    if r2 == 0:
        for p, want in files.items():
            if rc.read_through(ob2, p) != want:
                fails.append((f'after a bring cut short ({sigmode}) and a second, unlimited bring (rc 0), {p} is not byte-identical', {'kind': 'second-bring-does-not-repair', 'mode': sigmode}))
    B.cleanup(); A.cleanup()
    shutil.rmtree(base, ignore_errors=True)
    return fails


# ------------------------------------------------------------------------------------------------------------------
# fault family "cross-device bring under a write fault"
#
# The last step of `xvc file bring` moves every downloaded object from the temporary directory into the cache.  With the
# temporary directory (TMPDIR) on ANOTHER file system than the repository the move is a copy, and a copy can fail half
# way: disk full / quota / file size limit (here: RLIMIT_FSIZE, write(2) fails with EFBIG or the process dies of
# SIGXFSZ), or the process is killed.  The property: whatever happens, no file at a cache address holds anything but the
# complete object, and bringing again without the fault delivers every file byte-identically with exit status 0.

XDEV_CANDIDATES = ('/dev/shm', '/run/user/%d' % os.getuid(), '/run', '/var/tmp', os.path.expanduser('~'))
ADDR_RE = re.compile(r'^(b3|b2|s2|s3)/[0-9a-f]{3}/[0-9a-f]{3}/[0-9a-f]{58}/0(\.[^/]*)?$')
WRITE_CALLS = 'write,pwrite64,writev,pwritev,pwritev2,sendfile,copy_file_range'
# generic storage = a plain directory.  The download command lifts the SOFT file size limit for itself, so the download
# into the temporary directory always succeeds: only xvc's own move from there into the cache is subject to the limit.
XDEV_DOWNLOAD = 'ulimit -S -f unlimited ; mkdir -p {ABSOLUTE_CACHE_DIR} ; cp {FULL_STORAGE_PATH} {ABSOLUTE_CACHE_PATH}'


def other_device_dir(ref):
    """a fresh directory on another device than `ref` (for TMPDIR), or None when this machine has none"""
    import tempfile
    try:
        dev = os.stat(ref).st_dev
    except OSError:
        return None
    for cand in XDEV_CANDIDATES:
        try:
            if os.path.isdir(cand) and os.access(cand, os.W_OK) and os.stat(cand).st_dev != dev:
                return tempfile.mkdtemp(dir=cand, prefix='xvcv-c06-')
        except OSError:
            pass
    return None


def strace_usable():
    """strace present and allowed to inject (ptrace may be forbidden in a sandbox)"""
    if not shutil.which('strace'):
        return False
    try:
        p = subprocess.run(['strace', '-f', '-qq', '-o', '/dev/null', '-e', 'trace=write', '-e', 'inject=write:signal=KILL:when=1',
                            'sh', '-c', 'echo x'], stdout=subprocess.DEVNULL, stderr=subprocess.DEVNULL, timeout=30)
        return p.returncode in (-9, 137)
    except Exception:
        return False


class XdevFault:
    """one scenario of the family; same interface towards run() as Scenario (lines / obs / fail / kind / cfg)"""
    stream = 'xdev-write-fault'

    def __init__(self, chk, xvc, name, rng, kind, fault, tmp, limit, strace_ok, fixed=None):
        self.chk, self.xvc, self.name, self.rng, self.kind = chk, xvc, name, rng, kind
        self.fault, self.tmp, self.limit, self.strace_ok = fault, tmp, limit, strace_ok
        self.fixed = fixed          # minimisation: {'sizes': [...], 'cfg': {...}} instead of drawn sizes / configuration
        self.base = os.path.join(chk.scratch, 'c06', name)
        self.lines, self.obs, self.fail = [], [], []
        self.table = Table()
        self.hexof = {}
        self.skipped = None

    def model(self, line, real):
        self.lines.append(line); self.obs.append(real)

    # ---- independent hashing (each distinct byte string once per algorithm)
    def hexd(self, algo, b):
        k = (algo, b)
        if k not in self.hexof:
            self.hexof[k] = hashref.digest(algo, b)
        return self.hexof[k]

    def know(self, b):
        """what Table.add does, for the configured algorithm only (pure python BLAKE3 is slow on large objects)"""
        a = rh.ALGOS[self.cfg['algo']]
        for v in (b, hashref.strip_crlf(b)):
            self.table.t[(self.cfg['algo'], self.hexd(a, v))] = fp(v)

    def contents(self, n_files):
        """object sizes around the limit: below / exactly at / just above / far above; at least the shapes 'only some
        exceed it' and 'none exceeds it' (control) occur"""
        rng, L = self.rng, self.limit * 1024
        shape = rng.choice(['some', 'some', 'some', 'some', 'some', 'all', 'all', 'none'])
        below = [0, 1, L // 2, L - 4096, L - 1, L]
        above = [L + 1, L + 4096, L + L // 2, 2 * L + 17]
        if self.fixed: shape, sizes = 'fixed', list(self.fixed['sizes'])
        elif shape == 'none': sizes = [rng.choice(below) for _ in range(n_files)]
        elif shape == 'all': sizes = [rng.choice(above) for _ in range(n_files)]
        else:
            sizes = [rng.choice(above), rng.choice(below)] + [rng.choice(below + above) for _ in range(n_files - 2)]
            rng.shuffle(sizes)
        out = []
        for i, n in enumerate(sizes):
            n = max(0, n)
            if rng.random() < 0.3 and n >= 8:
                # text with mixed line ends (in auto/text mode the address is the hash of the bytes WITHOUT CR/LF, the
                # object holds the bytes as they are)
                line = b'%d: the quick brown fox\r\n' % i if rng.random() < 0.5 else b'%d: lorem ipsum\n' % i
                b = (line * (n // len(line) + 1))[:n - 3] + bytes(f'{i:03d}', 'ascii')
            else:
                b = rng.randbytes(n) if n else b''
                if n > 4: b = bytes(f'{i:04d}', 'ascii') + b[4:]
            out.append(b)
        return shape, out

    def audit_cache(self, sb, when, sent_objs):
        """MODEL INDEPENDENT: every file at a cache address holds bytes that hash to that address"""
        hidden = 0
        for rel, o in sb.cache_objects().items():
            if not ADDR_RE.match(rel):
                hidden += 1            # e.g. a hidden temporary name next to the address: not a cache address
                continue
            pfx, hexd, ext = addr_parts(rel)
            algo = {v: k for k, v in hashref.PREFIX.items()}.get(pfx)
            if o['kind'] != 'file' or o['bytes'] is None:
                self.fail.append((f"{when}: cache address {rel} is a {o['kind']}, not a readable regular file",
                                  {'kind': 'object-not-regular-after-failed-final-move', 'fault': self.fault, 'storage': self.kind}))
                continue
            b = o['bytes']
            if hexd in (self.hexd(algo, b), self.hexd(algo, hashref.strip_crlf(b))):
                continue
            full = sent_objs.get(rel)
            what = 'bytes that do not hash to the address'
            if full is not None and len(b) < len(full) and full.startswith(b):
                what = f'only the first {len(b)} of the {len(full)} bytes of the object (a partial copy)'
            elif full is not None:
                what = f'{len(b)} wrong bytes (the object has {len(full)})'
            self.fail.append((f"{when}: cache address {rel} holds {what}",
                              {'kind': 'partial-object-after-failed-final-move', 'fault': self.fault, 'storage': self.kind, 'tmp': self.tmp}))
        if hidden:
            self.chk.count('xdev:files-under-other-names-in-cache-dirs:' + ('after-bring-2' if when.startswith('after bring #2') else 'after-bring-1'), hidden)

    def find_kill_point(self, ref, cargs, want, env):
        """reference run in a twin clone under strace: the first write-like call whose target is a file below
        .xvc/<algorithm>/.  Returns (syscall, path relative to the repository root) or None."""
        tf = os.path.join(self.base, 'ref.trace')
        ref.run(['strace', '-f', '-qq', '-y', '-s', '0', '-e', 'signal=none', '-o', tf, '-e', f'trace={WRITE_CALLS}',
                 self.xvc] + cargs + ['file', 'bring', '--from', 'st'] + want, env=env, timeout=120)
        pat = re.compile(r'^\d+\s+(\w+)\((.*)$')
        pre = ref.root + '/.xvc/'
        try:
            for l in open(tf, errors='replace'):
                m = pat.match(l)
                if not m: continue
                sc, args = m.group(1), m.group(2)
                fds = re.findall(r'(\d+)<([^>]*)>', args)
                if not fds: continue
                # the fd written to: first argument, except copy_file_range (fd_in, off_in, fd_out, ...)
                out_fd = fds[1] if sc == 'copy_file_range' and len(fds) > 1 else fds[0]
                p = out_fd[1]
                if p.startswith(pre) and p[len(pre):].split('/')[0] in ('b3', 'b2', 's2', 's3'):
                    return sc, os.path.relpath(p, ref.root)
        except OSError:
            pass
        return None

    def run(self):
        try:
            return self._run()
        finally:
            for d in getattr(self, 'cleanup_dirs', []):
                shutil.rmtree(d, ignore_errors=True)
            shutil.rmtree(self.base, ignore_errors=True)

    def _run(self):
        rng, chk = self.rng, self.chk
        os.makedirs(self.base, exist_ok=True)
        self.cleanup_dirs = []
        cfg = {'algo': rng.choice([0, 1, 2, 2, 3, 3]), 'method': rng.choice(['copy', 'hardlink', 'symlink']), 'tob': rng.choice(['auto', 'auto', 'binary'])}
        if self.limit >= 256 and cfg['algo'] == 0: cfg['algo'] = 2          # the reference BLAKE3 is pure python: too slow for large objects
        if self.fixed: cfg = dict(self.fixed['cfg'])
        self.cfg = cfg
        cargs = rh.Runner.cfg_args(None, cfg)
        if self.tmp == 'other':
            tmpd = other_device_dir(self.base)
            if tmpd is None:
                self.skipped = 'no-other-device'
                return self
            self.cleanup_dirs.append(tmpd)
        else:
            tmpd = os.path.join(self.base, 'tmp'); os.makedirs(tmpd, exist_ok=True)
        env = {'TMPDIR': tmpd}
        A = Sandbox(self.base, 'A', self.xvc); A.init()
        self.lines.append('\t'.join(['cfg', str(cfg['algo']), cfg['method'], cfg['tob']])); self.obs.append(None)
        paths = rng.sample([p for p in rh.PATHS if p != '.hidden'], rng.randint(2, 4))
        if self.fixed: paths = ['g.bin', 'a.txt', 'd/h.bin', 'noext'][:len(self.fixed['sizes'])]
        shape, bodies = self.contents(len(paths))
        files = dict(zip(paths, bodies))
        if len(paths) >= 3 and rng.random() < 0.25 and not self.fixed:
            files[paths[2]] = files[paths[0]]          # two paths, one content (one object, or two names in one digest directory)
        for p in paths:
            A.write(p, files[p]); self.know(files[p])
            self.model('\t'.join(['write', p, files[p].hex()]), None)
        stamps = {'k': 0, 'mine': set()}
        rh.Runner.restamp(A, stamps)
        A.x(*(cargs + ['file', 'track', '--no-parallel'] + paths))
        rh.Runner.restamp(A, stamps)
        oa = Obs(A)
        self.model('\t'.join(['track', '-', '-', '0', '0'] + paths), 'rc=ok ' + abstraction(oa, self.table))
        sdir = os.path.join(self.base, 'storage')
        if self.kind == 'local':
            r0, _, e0 = A.x('storage', 'new', 'local', '--name', 'st', '--path', sdir)
        else:
            r0, _, e0 = A.x('storage', 'new', 'generic', '--name', 'st', '--url', sdir + '/', '--storage-dir', '',
                            '--init', 'mkdir -p {URL}{STORAGE_DIR} ; cp {LOCAL_GUID_FILE_PATH} {URL}{STORAGE_GUID_FILE_PATH}',
                            '--list', 'ls -1 {URL}{STORAGE_DIR}',
                            '--upload', 'mkdir -p {FULL_STORAGE_DIR} ; cp {ABSOLUTE_CACHE_PATH} {FULL_STORAGE_PATH}',
                            '--download', XDEV_DOWNLOAD, '--delete', 'rm -f {FULL_STORAGE_PATH}')
        if r0 != 0:
            self.fail.append((f'storage new failed rc={r0} {e0[-300:]}', {'kind': 'storage-new-failed'})); return self
        gA = guid_of(A)
        A.x(*(cargs + ['file', 'send', '--to', 'st'] + paths))
        addr = {p: rc.rec_addr(oa.recs[p], p) for p in paths if p in oa.recs and oa.recs[p]['cur']}
        sent_objs = {a: files[p] for p, a in addr.items()}
        tree = storage_tree(sdir)
        if len(addr) != len(paths) or any(tree.get(gA + '/' + a) != files[p] for p, a in addr.items()):
            self.fail.append(('precondition: the files did not reach the storage byte-identically', {'kind': 'send-missing-or-different'})); return self
        self.model('\t'.join(['send', '1'] + [f'{p}=ok' for p in paths]), None)
        # ---------------------------------------------------------------- the receiving side
        same_repo = self.fault != 'kill' and rng.random() < 0.4 and not self.fixed
        ref = None
        if same_repo:
            B = A
            for dp, dn, fn in os.walk(A.path('.xvc')):
                try: os.chmod(dp, 0o755)
                except OSError: pass
            for a in ('b3', 'b2', 's2', 's3'):
                shutil.rmtree(A.path('.xvc/' + a), ignore_errors=True)
            for p in paths:
                if os.path.lexists(A.path(p)): os.unlink(A.path(p))
            self.lines += ['dropcache'] + ['\t'.join(['delete', p]) for p in paths]
            self.obs += [None] * (1 + len(paths))
        else:
            A.git('add', '-A'); A.git('commit', '-q', '-m', 'all', '--allow-empty')
            def clone(tag):
                S = Sandbox(self.base, tag, self.xvc)
                shutil.rmtree(S.root)
                S.run(['git', 'clone', '-q', A.root, S.root], cwd=self.base)
                return S
            B = clone('B')
            if self.fault == 'kill': ref = clone('Bref')
            self.lines += ['clone\tB', 'use\tB', '\t'.join(['cfg', str(cfg['algo']), cfg['method'], cfg['tob']])]
            self.obs += [None, None, None]
        want = rng.sample(paths, rng.randint(max(1, len(paths) - 1), len(paths))) if not self.fixed else list(paths)
        big = [p for p in paths if len(files[p]) > self.limit * 1024]
        if big and not any(p in big for p in want): want.append(big[0])
        # xvc moves the downloaded objects in the order of their cache path strings, one object per address
        order = sorted({addr[p] for p in want})
        L = self.limit * 1024
        over = [a for a in order if len(sent_objs[a]) > L]
        bring = cargs + ['file', 'bring', '--from', 'st'] + want
        import shlex
        sh_bring = 'exec ' + ' '.join(shlex.quote(a) for a in [self.xvc] + bring)
        fail_at = None            # address whose final move fails (exact only for generic storage + TMPDIR on another device)
        if self.fault == 'efbig':
            r1, o1, e1 = B.run(['bash', '-c', f"trap '' XFSZ; ulimit -c 0; ulimit -S -f {self.limit}; {sh_bring}"], env=env)
            fail_at = over[0] if over else None
        elif self.fault == 'xfsz':
            # the same limit with the default action of SIGXFSZ: the process dies in the middle of the copy
            r1, o1, e1 = B.run(['bash', '-c', f"ulimit -c 0; ulimit -S -f {self.limit}; {sh_bring}"], env=env)
            fail_at = over[0] if over else None
        else:
            kp = self.find_kill_point(ref, cargs, want, env) if (ref and self.strace_ok) else None
            if ref: ref.cleanup()
            if kp is None:
                chk.count('xdev:kill:no-write-below-cache-dir' if self.strace_ok else 'xdev:kill:strace-unavailable')
                r1, o1, e1 = B.x(*bring, env=env)
            else:
                sc, relp = kp
                chk.count(f'xdev:kill:at-{sc}')
                tf = os.path.join(self.base, 'kill.trace')
                r1, o1, e1 = B.run(['strace', '-f', '-qq', '-e', 'signal=none', '-o', tf, '-e', f'trace={sc}', '-P', os.path.join(B.root, relp),
                                    '-e', f'inject={sc}:signal=KILL:when=1', self.xvc] + bring, env=env, timeout=120)
                if r1 not in (-9, 137):
                    chk.count('xdev:kill:not-delivered')
                else:
                    d = os.path.relpath(os.path.dirname(relp), '.xvc')
                    cands = [a for a in order if os.path.dirname(a) == d]
                    cands = [a for a in cands if os.path.basename(a) in os.path.basename(relp)] or cands
                    fail_at = cands[0] if cands else None
                    self.killed_at = relp
        chk.count(f'xdev:bring1:{self.fault}:{self.kind}:tmp-{self.tmp}:rc={r1}')
        chk.count(f'xdev:sizes:{shape}-exceed'); chk.count(f'xdev:receiver:{"same-repo" if same_repo else "clone"}')
        when1 = f'after bring #1 ({self.kind} storage, TMPDIR on {"ANOTHER" if self.tmp == "other" else "the same"} device, fault {self.fault}' + \
                (f' at {self.limit} KiB' if self.fault != 'kill' else f' at the first write to {getattr(self, "killed_at", "-")}') + f', exit {r1})'
        self.audit_cache(B, when1, sent_objs)
        ob1 = Obs(B)
        ob1.cache = {k: v for k, v in ob1.cache.items() if ADDR_RE.match(k)}
        for p in want:
            got = rc.read_through(ob1, p)
            k = ob1.ws.get(p)
            if k and k['kind'] == 'file' and got != files[p]:
                self.fail.append((f'{when1}: {p} holds {len(got or b"")} bytes that are not the {len(files[p])} bytes that were sent',
                                  {'kind': 'partial-file-after-failed-final-move', 'fault': self.fault, 'storage': self.kind}))
        exact = self.kind == 'generic' and self.tmp == 'other'
        if exact:
            # model: objects before the failing one (cache path order) arrive, the command stops there, nothing is rechecked
            outc = {a: ('mf' if a == fail_at else 'ok') for a in order}
            byaddr = {}
            for p in want: byaddr.setdefault(addr[p], []).append(p)
            seq = [p for a in order for p in byaddr[a]]
            # The recheck that follows a fetch without a failing move runs under the limit as well; it is not part of this
            # model.  A copy of a file of EXACTLY the limit on one file system fails (fs::copy ends with a copy_file_range
            # call at offset = limit, which the kernel refuses with EFBIG although nothing is left to write), the cross
            # device copy of the final move (sendfile with a known length) does not.  There only the fetch is compared.
            fetch_only = fail_at is None and self.fault != 'kill' and cfg['method'] == 'copy' and any(len(files[p]) >= L for p in want)
            if fetch_only: chk.count('xdev:recheck-under-the-limit-not-compared')
            self.model('\t'.join(['bring', 'other', '1', '-'] + [f'{p}={outc[addr[p]]}' for p in seq]),
                       ('after-fault-fetch ' if fetch_only else 'after-fault ') + 'rc=' + ('ok' if r1 in (0, 1) else 'panic') + ' ' + abstraction(ob1, self.table))
            chk.count(f'xdev:model-outcome:{"final-move-fails" if fail_at else "all-ok"}')
        # ---------------------------------------------------------------- bring #2: no fault
        r2, o2, e2 = B.x(*bring, env=env)
        rh.Runner.restamp(B, stamps)
        when2 = f'bring #2 (no fault) {when1}'
        if r2 != 0:
            self.fail.append((f'{when2}: exit {r2}: {e2[-300:]}', {'kind': 'second-bring-fails', 'fault': self.fault, 'storage': self.kind, 'tmp': self.tmp}))
        self.audit_cache(B, 'after ' + when2, sent_objs)
        ob2 = Obs(B)
        ob2.cache = {k: v for k, v in ob2.cache.items() if ADDR_RE.match(k)}
        for p in want:
            got = rc.read_through(ob2, p)
            if got != files[p]:
                self.fail.append((f'after {when2}: {p} is ' + ('missing' if got is None else f'{len(got)} bytes, not byte-identical to the {len(files[p])} bytes that were sent'),
                                  {'kind': 'second-bring-does-not-deliver', 'fault': self.fault, 'storage': self.kind, 'tmp': self.tmp}))
        if exact or r2 == 0:
            self.model('\t'.join(['bring', 'other' if self.tmp == 'other' else 'same', '1', '-'] + [f'{p}=ok' for p in want]),
                       f"rc={'ok' if r2 in (0, 1) else 'panic'} " + abstraction(ob2, self.table))
        self.minimal = {'storage': self.kind, 'tmpdir': self.tmp, 'fault': self.fault, 'limit_kib': self.limit, 'cfg': cfg,
                        'files': {p: len(files[p]) for p in paths}, 'brought': want, 'receiver': 'same-repo' if same_repo else 'clone',
                        'exit_bring1': r1, 'exit_bring2': r2, 'final_move_fails_at': fail_at if exact else None}
        if B is not A: B.cleanup()
        A.cleanup()
        return self


def xdev_plan(chk, xvc, quick):
    """the scenario list of the family (seeded); None when this machine has no second writable device"""
    import random
    probe = other_device_dir(chk.scratch)
    if probe is None:
        return None, False
    shutil.rmtree(probe, ignore_errors=True)
    strace_ok = strace_usable()
    out = []
    n = 30 if quick else 160
    for i in range(n):
        rng = random.Random(chk.seed * 104729 + 31 * i + 5)
        kind = 'generic' if i % 4 != 3 else 'local'
        fault = ['efbig', 'efbig', 'xfsz', 'kill', 'efbig'][i % 5]
        tmp = 'same' if i % 10 == 9 else 'other'          # a few controls: same device, the fault must be harmless as well
        limit = rng.choice([8, 16, 64] if quick else [8, 16, 64, 64, 256])
        out.append(XdevFault(chk, xvc, f'x{i}', rng, kind, fault, tmp, limit, strace_ok))
    return out, strace_ok


def run(chk):
    quick = chk.tier == 'quick'
    model = chk.lean('XvcRepo', 'XvcRepo.Props.C06', exe='repomodel', extra_modules=['XvcRepo.Model', 'XvcRepo.Storage'])
    xvc = chk.build_xvc()
    chk.trusted_base += ['fault injection of the xdev-write-fault family: bash `ulimit -S -f`, `trap \'\' XFSZ`, strace -f -P <path> -e inject=<call>:signal=KILL:when=1; os.stat().st_dev to find another device',
                         'binary harness lib/c06.py (scratch repositories, local storage and a generic storage whose upload/download commands consult a fault-pattern file, git clone, TMPDIR on /dev/shm = tmpfs on another device)',
                         'modelled, not verified: cloud back ends (s3, gcs, r2, minio, wasabi, digital-ocean) and rsync: they share send/bring/fetch and the XvcStorageOperations contract with the two storages exercised here but were not run (no network)']
    chk.assumptions += ['the upload/download commands of a generic storage either succeed with the right bytes or exit non-zero (the fault model: fail, fail leaving a partial temp file); a command that exits 0 after writing wrong bytes is outside the property',
                        'interruption of xvc itself during a transfer is covered by C07; here only: a kill at the first write below .xvc/<algorithm>/ of a bring, and death by SIGXFSZ in the middle of the final copy',
                        'a file size limit (RLIMIT_FSIZE) stands for every write fault of the final move (ENOSPC, EDQUOT, EFBIG behave alike for the caller: the copy stops after a prefix)']
    n = 48 if quick else 600
    scen = []
    for i in range(n):
        kind = 'generic' if i % 2 else 'local'
        scen.append(Scenario(chk, xvc, f's{i}', __import__('random').Random(chk.seed * 7919 + i), kind))

    def one(s):
        try:
            return s.run()
        except Exception:
            import traceback
            s.fail.append(('harness error: ' + traceback.format_exc()[-600:], {'kind': 'harness-error'}))
            return s
    with ThreadPoolExecutor(max_workers=8) as ex:
        done = list(ex.map(one, scen))
    have_model = os.path.exists(model)

    def judge(s, stream):
        st = chk.tie['streams'].setdefault(stream, {'scenarios': 0, 'model_lines': 0, 'compared': 0, 'disagreements': 0})
        chk.evaluations += 1
        st['scenarios'] += 1
        chk.count('storage:' + s.kind)
        chk.nontrivial.add(hashlib.sha1('\n'.join(s.lines).encode()).hexdigest())
        if have_model and s.lines:
            p = subprocess.run([model], input='\n'.join(s.lines) + '\n', stdout=subprocess.PIPE, text=True, timeout=600)
            out = p.stdout.split('\n')
            for line, real, mo in zip(s.lines, s.obs, out):
                st['model_lines'] += 1
                if real is None: continue
                st['compared'] += 1
                if real.startswith('st='):
                    ok = real == mo
                    d = None if ok else f'storage: implementation {real} model {mo}'
                elif real.startswith('after-fault'):
                    # a bring whose final move failed: exit class AND the state it left behind (which objects arrived)
                    a, m = split_abs(real.split(' ', 1)[1]), split_abs(mo)
                    keys = ('cache', 'rec') if real.startswith('after-fault-fetch ') else ('rc', 'cache', 'ws', 'rec')
                    d = next((f'{k} after the failed bring: implementation {a[k]} model {m[k]}' for k in keys if a[k] != m[k]), None)
                else:
                    d = rh.compare_step({'abs': real.split(' ', 1)[1], 'rc': 0 if real.startswith('rc=ok') else 101}, mo)
                if d:
                    st['disagreements'] += 1
                    if len(chk.tie['disagreements']) < 3:
                        chk.disagreement(stream, {'kind': s.kind, 'scenario': getattr(s, 'minimal', None), 'lines': [l[:200] for l in s.lines]}, real[:1500], mo[:1500], f'at `{line[:120]}`: {d[:600]}')
                    break
        seen = set()
        for msg, sig in s.fail:
            k = json.dumps(sig, sort_keys=True)
            if k in seen: continue
            seen.add(k)
            case = {'storage': s.kind, 'cfg': getattr(s, 'cfg', None), 'model_lines': [l[:300] for l in s.lines]}
            if getattr(s, 'minimal', None): case = dict(s.minimal, scenario=stream, model_lines=case['model_lines'])
            chk.oracle_failure(msg, case, None, signature=sig)
        if len([x for x in chk.samples if x.get('stream') == stream]) < 4:
            chk.samples.append({'stream': stream, 'storage': s.kind, 'protocol': [l[:160] for l in s.lines]})

    for s in done:
        judge(s, 'send-bring-scenarios')
    # ---------------------------------------------------------------- cross-device bring under a write fault
    xs, strace_ok = xdev_plan(chk, xvc, quick)
    fam = {'other_device_available': xs is not None, 'strace_injection_available': strace_ok, 'scenarios': 0, 'skipped_no_other_device': 0,
           'minimised_reruns': 0}
    if xs is None:
        chk.count('xdev:skipped:no-writable-directory-on-another-device')
        fam['skipped_no_other_device'] = 1
    else:
        with ThreadPoolExecutor(max_workers=8) as ex:
            xdone = list(ex.map(one, xs))
        failing = [s for s in xdone if any(sig.get('kind') != 'harness-error' for _, sig in s.fail)]
        for s in failing[:2]:
            # minimise: the same storage / fault / limit / TMPDIR placement with ONE file just above the limit
            fam['minimised_reruns'] += 1
            m = one(XdevFault(chk, xvc, s.name + 'min', __import__('random').Random(1), s.kind, s.fault, s.tmp, s.limit, strace_ok,
                              fixed={'sizes': [s.limit * 1024 + 1], 'cfg': s.cfg}))
            if any(sig.get('kind') != 'harness-error' for _, sig in m.fail):
                xdone[xdone.index(s)] = m
        for s in xdone:
            if s.skipped:
                fam['skipped_no_other_device'] += 1; chk.count('xdev:skipped:' + s.skipped); continue
            fam['scenarios'] += 1
            judge(s, 'xdev-write-fault')
    chk.extra['xdev_write_fault_family'] = fam
    for j, blocks in enumerate([1024, 300] if quick else [1024, 300, 2048, 64, 1]):
        chk.evaluations += 1
        chk.nontrivial.add(f'interrupted-send-{blocks}')
        try:
            fl = interrupted_send(chk, xvc, f'int{j}', blocks)
        except Exception:
            import traceback
            fl = [('harness error: ' + traceback.format_exc()[-600:], {'kind': 'harness-error'})]
        for msg, sig in fl:
            chk.oracle_failure(msg, {'scenario': 'interrupted-send', 'ulimit_f_blocks': blocks}, None, signature=sig)
    for j, (blocks, mode) in enumerate([(256, 'efbig'), (1500, 'efbig'), (256, 'kill')] if quick else [(256, 'efbig'), (1500, 'efbig'), (64, 'efbig'), (1, 'efbig'), (3000, 'efbig'), (256, 'kill'), (1500, 'kill')]):
        chk.evaluations += 1
        chk.nontrivial.add(f'failing-bring-{blocks}-{mode}')
        try:
            fl = failing_bring(chk, xvc, f'fb{j}', blocks, mode)
        except Exception:
            import traceback
            fl = [('harness error: ' + traceback.format_exc()[-600:], {'kind': 'harness-error'})]
        for msg, sig in fl:
            chk.oracle_failure(msg, {'scenario': 'failing-bring', 'ulimit_f_blocks': blocks, 'mode': mode}, None, signature=sig)
    chk.extra['rule'] = (f'{n} scenarios, alternating local / generic storage: 2-4 files from the content classes (duplicates allowed) tracked in A with a random algorithm and method; '
                         'a random subset sent (generic: random upload failures), sent again; with p=.5 a second repository with another guid sends the same content to the same storage; '
                         'then either a git clone B of A or A itself with cache and workspace removed brings a random subset (generic: each download ok / fails cleanly / fails leaving a partial temp file), '
                         'TMPDIR default or /dev/shm (another file system), random --recheck-as; brought again; plus interrupted local sends (killed by SIGXFSZ at several sizes) followed by bring in a clone, before and after repeating the send; plus brings from a local storage cut short on the receiving side by a file size limit (write fails with EFBIG, or the process is killed), then repeated without the limit. '
                         'Fault family "cross-device bring under a write fault" (stream xdev-write-fault, ' + (f"{fam['scenarios']} scenarios" if fam['other_device_available'] else 'SKIPPED: no writable directory on another device') + '): '
                         'TMPDIR on another device than the repository (first of /dev/shm, /run/user/<uid>, /run, /var/tmp, ~ whose st_dev differs; a few controls on the same device), '
                         'generic storage whose download command lifts the soft file size limit for itself (so only xvc\'s own final move into the cache is subject to it) 3 of 4, local storage 1 of 4, '
                         '2-4 objects with sizes around the limit (0, 1, limit/2, limit-4096, limit-1, limit | limit+1, limit+4096, 1.5 limit, 2 limit+17; shapes some / all / none exceed), random algorithm, method, text-or-binary, clone or same repository; '
                         'bring #1 under a fault: `trap \'\' XFSZ; ulimit -S -f <limit>` (write fails with EFBIG), the same limit with SIGXFSZ left fatal (the process dies mid-copy), or - strace available - SIGKILL at the first write-like call (write/pwrite/writev/sendfile/copy_file_range) whose target is a file below .xvc/<algorithm>/ (found by a reference run in a twin clone, injected with strace -P <that file>); '
                         'then bring #2 without fault. Oracles: after each bring every file at a cache ADDRESS re-hashed with lib/hashref.py (a shorter prefix of the object is named as such; files under other names in the cache directories are counted, not judged), requested workspace files byte-identical or absent after #1, bring #2 exits 0 and every requested file is byte-identical to what was sent. '
                         'Tie: for generic storage + other device the driver gets `bring` with per-path outcome `mf` (download ok, final move fails) in cache-path order and must reproduce exit class, cache, workspace and records after the FAILED bring, and the full state after bring #2. A failing scenario is re-run minimised (one file of limit+1 bytes). '
                         'Every scenario is distinct (seeded) and non-trivial (>= 1 object transferred or refused).')
    return chk.finish()


def replay(chk, data):
    print('C06 replays are scenario seeds: re-run `VERIF_SEED=<seed> ./check C06 quick`; failing scenarios are listed with their model lines in the replay file')
    return run(chk)
