"""C06 — Send and bring through a storage form a lossless round trip.

Proof: lean/XvcRepo/XvcRepo/Props/C06.lean (storage model Storage.lean on top of the repository model).
Tie: scenarios (track in A, send, clone B / drop cache, bring with fault patterns and TMPDIR placements) are run with the
rebuilt xvc binary against a local and a generic (shell command) storage and compared with the model driver.
Oracle (model independent): bytes in the clone after bring, storage layout <guid>/<cache path>, idempotence of send and
bring (tree snapshots), every cache object re-hashed after every fault pattern.
"""
import os, re, shutil, subprocess, hashlib, json, itertools
from concurrent.futures import ThreadPoolExecutor
import hashref
import repo_harness as rh
import repo_check as rc
from repo_harness import Obs, Table, abstraction, fp, ext_of, addr_parts, split_abs
from xvcbin import Sandbox, cache_rel

UP = r'''#!/bin/sh
# upload <relative cache path> <absolute cache path> <full storage path> <full storage dir>
d=$(grep -F "$1 " "%(faults)s.up" 2>/dev/null | tail -1 | awk '{print $2}')
[ "$d" = "fail" ] && { echo "upload fails by fault pattern" >&2; exit 1; }
mkdir -p "$4" && cp "$2" "$3.tmp.$$" && mv "$3.tmp.$$" "$3"
'''
DOWN = r'''#!/bin/sh
# download <relative cache path> <full storage path> <absolute (temp) cache path> <absolute (temp) cache dir>
# a decision may be a comma separated list: one entry per invocation for the same cache path within one command
# (the last entry repeats); xvc is expected to run the command once per cache path
k=$(printf '%%s' "$1" | tr '/' '_')
c=$(cat "%(faults)s.cnt.$k" 2>/dev/null || echo 0); c=$((c+1)); echo $c > "%(faults)s.cnt.$k"
d=$(grep -F "$1 " "%(faults)s.down" 2>/dev/null | tail -1 | awk '{print $2}')
e=$(printf '%%s' "$d" | cut -d, -f$c); [ -z "$e" ] && e=$(printf '%%s' "$d" | awk -F, '{print $NF}')
d=$e
case "$d" in
  fc) echo "download fails cleanly by fault pattern" >&2; exit 1;;
  fp) mkdir -p "$4"; printf 'PAR' > "$3"; echo "download fails after a partial write by fault pattern" >&2; exit 1;;
esac
mkdir -p "$4" && cp "$2" "$3"
'''


def guid_of(sb):
    t = open(sb.path('.xvc/config.toml')).read()
    m = re.search(r'guid\s*=\s*"([^"]+)"', t)
    return m.group(1) if m else None


def storage_tree(d):
    out = {}
    for dp, dn, fn in os.walk(d):
        for f in fn:
            p = os.path.join(dp, f)
            rel = os.path.relpath(p, d)
            if rel == '.xvc-guid':
                continue
            out[rel] = open(p, 'rb').read()
    return out


class Scenario:
    def __init__(self, chk, xvc, name, rng, kind, faults=True):
        self.chk, self.xvc, self.name, self.rng, self.kind = chk, xvc, name, rng, kind
        self.base = os.path.join(chk.scratch, 'c06', name)
        self.lines = []          # model lines
        self.obs = []            # (label, abstraction string of the real side)
        self.fail = []           # oracle failures (msg, sig)
        self.table = Table()
        self.faults_enabled = faults and kind == 'generic'

    def model(self, line, real):
        self.lines.append(line); self.obs.append(real)

    def new_storage(self, sb, sdir):
        if self.kind == 'local':
            return sb.x('storage', 'new', 'local', '--name', 'st', '--path', sdir)
        fa = os.path.join(self.base, 'faults')
        up, down = os.path.join(self.base, 'up.sh'), os.path.join(self.base, 'down.sh')
        if not os.path.exists(up):
            open(up, 'w').write(UP % {'faults': fa}); open(down, 'w').write(DOWN % {'faults': fa})
            open(fa + '.up', 'w').close(); open(fa + '.down', 'w').close()
        self.faultfile = fa
        return sb.x('storage', 'new', 'generic', '--name', 'st', '--storage-dir', sdir + '/',
                    '--init', 'mkdir -p {STORAGE_DIR} && cp {LOCAL_GUID_FILE_PATH} {STORAGE_GUID_FILE_PATH}',
                    '--list', 'find {STORAGE_DIR} -type f',
                    '--upload', f'sh {up} {{RELATIVE_CACHE_PATH}} {{ABSOLUTE_CACHE_PATH}} {{FULL_STORAGE_PATH}} {{FULL_STORAGE_DIR}}',
                    '--download', f'sh {down} {{RELATIVE_CACHE_PATH}} {{FULL_STORAGE_PATH}} {{ABSOLUTE_CACHE_PATH}} {{ABSOLUTE_CACHE_DIR}}',
                    '--delete', 'rm -f {FULL_STORAGE_PATH}')

    def set_faults(self, which, decisions, obs):
        """decisions: path -> decision; written per relative cache path of the path's current record"""
        if not self.faults_enabled:
            return
        for fn in os.listdir(os.path.dirname(self.faultfile)):
            if fn.startswith(os.path.basename(self.faultfile) + '.cnt.'):
                os.unlink(os.path.join(os.path.dirname(self.faultfile), fn))
        with open(self.faultfile + '.' + which, 'w') as f:
            for p, d in decisions.items():
                r = obs.recs.get(p)
                if r and r['cur']:
                    # F20: a second invocation for the same cache path (duplicates) must not happen; if it does it fails
                    # after a partial write, which the first, successful invocation would mask
                    dd = f'{d},fp' if which == 'down' and d == 'ok' else d
                    f.write(f"{rc.rec_addr(r, p)} {dd}\n")

    def storage_abs(self, sdir, guids):
        items = []
        for rel, b in storage_tree(sdir).items():
            g, _, crel = rel.partition('/')
            pfx, hexd, ext = addr_parts(crel)
            items.append(f"{guids.get(g, '?' + g)}:{self.table.digest_token(rh.PREFIX_IDX.get(pfx, 9), hexd)}:{ext}={fp(b)}")
        return 'st={' + ';'.join(sorted(items)) + '}'

    def run(self):
        rng = self.rng
        os.makedirs(self.base, exist_ok=True)
        cfg = {'algo': rng.choice([0, 0, 1, 2, 3]), 'method': rng.choice(['copy', 'hardlink', 'symlink']), 'tob': 'auto'}
        self.cfg = cfg
        cargs = rh.Runner.cfg_args(None, cfg)
        A = Sandbox(self.base, 'A', self.xvc); A.init()
        pool = rh.content_pool(rng)
        names = rng.sample(sorted(pool), rng.randint(2, 4))
        paths = rng.sample(rh.PATHS, len(names))
        self.lines.append('\t'.join(['cfg', str(cfg['algo']), cfg['method'], cfg['tob']]))
        self.obs.append(None)
        used = set()
        files = {}
        for p, n in zip(paths, names):
            b = pool[n] + bytes(f'#{rng.randint(0, 9)}', 'ascii')
            if (p == paths[0] and rng.random() < 0.3) or rng.random() < 0.1:
                b = b'' if rng.random() < 0.7 else bytes([rng.randint(0, 255)])      # boundary sizes: 0 and 1 byte
            if hashref.strip_crlf(b) in used: b += b'x'
            used.add(hashref.strip_crlf(b))
            A.write(p, b); self.table.add(b); files[p] = b
            self.model('\t'.join(['write', p, b.hex()]), None)
        if rng.random() < 0.3 and len(paths) >= 2:       # a duplicate: two paths, one object
            A.write(paths[1], files[paths[0]]); files[paths[1]] = files[paths[0]]
            self.model('\t'.join(['write', paths[1], files[paths[0]].hex()]), None)
        stamps = {'k': 0, 'mine': set()}
        rh.Runner.restamp(A, stamps)
        rc_, out, err = A.x(*(cargs + ['file', 'track', '--no-parallel'] + paths))
        rh.Runner.restamp(A, stamps)
        oa = Obs(A)
        self.model('\t'.join(['track', '-', '-', '0', '0'] + paths), 'rc=ok ' + abstraction(oa, self.table))
        sdir = os.path.join(self.base, 'storage')
        rc_, out, err = self.new_storage(A, sdir)
        if rc_ != 0:
            self.fail.append((f'storage new failed rc={rc_} {err[-300:]}', {'kind': 'storage-new-failed'})); return self
        gA = guid_of(A)
        guids = {gA: '1'}
        # ---------------------------------------------------------------- send (subset, with upload faults)
        sent = rng.sample(paths, rng.randint(1, len(paths)))
        def per_address(dec):
            # duplicates share one object: the upload/download command runs per cache path, so one decision per address
            seen = {}
            for p in list(dec):
                a = rc.rec_addr(oa.recs[p], p) if p in oa.recs else p
                dec[p] = seen.setdefault(a, dec[p])
            return dec
        updec = per_address({p: (rng.choice(['ok', 'ok', 'fail']) if self.faults_enabled else 'ok') for p in sent})
        self.set_faults('up', updec, oa)
        rc_, out, err = A.x(*(cargs + ['file', 'send', '--to', 'st'] + sent))
        self.model('\t'.join(['send', '1'] + [f'{p}={updec[p]}' for p in sent]), self.storage_abs(sdir, guids))
        tree1 = storage_tree(sdir)
        # layout and content oracle
        for p in sent:
            rel = gA + '/' + rc.rec_addr(oa.recs[p], p)
            obj = oa.cache.get(rc.rec_addr(oa.recs[p], p))
            if updec[p] == 'ok':
                if tree1.get(rel) != (obj and obj['bytes']):
                    self.fail.append((f'send: {p} is not stored byte-identically under <guid>/<cache path> = {rel}', {'kind': 'send-missing-or-different'}))
        for rel in tree1:
            if not rel.startswith(gA + '/'):
                self.fail.append((f'send: storage entry {rel} is not under the repository guid', {'kind': 'storage-layout'}))
        # send again: nothing changes
        self.set_faults('up', {p: 'ok' for p in sent if updec[p] == 'ok'}, oa)
        ok_sent = [p for p in sent if updec[p] == 'ok']
        if ok_sent:
            A.x(*(cargs + ['file', 'send', '--to', 'st'] + ok_sent))
            if storage_tree(sdir) != tree1:
                self.fail.append(('sending again changed the storage', {'kind': 'send-not-idempotent'}))
            self.model('\t'.join(['send', '1'] + [f'{p}=ok' for p in ok_sent]), self.storage_abs(sdir, guids))
        # ---------------------------------------------------------------- another repository sharing the storage
        if rng.random() < 0.5:
            C = Sandbox(self.base, 'C', self.xvc); C.init()
            C.write('c.txt', files[paths[0]])
            C.x(*(cargs + ['file', 'track', 'c.txt']))
            self.new_storage(C, sdir)
            C.x(*(cargs + ['file', 'send', '--to', 'st', 'c.txt']))
            tree2 = storage_tree(sdir)
            for rel, b in tree1.items():
                if tree2.get(rel) != b:
                    self.fail.append((f'a second repository sending the same content changed {rel} of the first', {'kind': 'guid-collision'}))
            gC = guid_of(C)
            if gC == gA or not any(r.startswith(gC + '/') for r in tree2):
                self.fail.append(('second repository has no entries under its own guid', {'kind': 'guid-collision'}))
            C.cleanup()
            self.lines += ['use\tC', '\t'.join(['cfg', str(cfg['algo']), cfg['method'], cfg['tob']]), '\t'.join(['write', 'c.txt', files[paths[0]].hex()]),
                           '\t'.join(['track', '-', '-', '0', '0', 'c.txt']), 'send\t2\tc.txt=ok', 'use\tA']
            self.obs += [None, None, None, None, None, None]
            for rel in list(storage_tree(sdir)):
                if rel.startswith(gC + '/'):
                    os.unlink(os.path.join(sdir, rel))
        # ---------------------------------------------------------------- the receiving side
        same_repo = rng.random() < 0.35
        if same_repo:
            B = A
            for dp, dn, fn in os.walk(A.path('.xvc')):
                try: os.chmod(dp, 0o755)
                except OSError: pass
            for a in ('b3', 'b2', 's2', 's3'):
                shutil.rmtree(A.path('.xvc/' + a), ignore_errors=True)
            # C03 through `bring`: one path may hold an uncommitted edit instead of being absent - bring (no --force) must
            # leave it alone
            self.edited = {}
            for p in paths:
                if os.path.lexists(A.path(p)): os.unlink(A.path(p))
            self.lines += ['dropcache'] + ['\t'.join(['delete', p]) for p in paths]
            self.obs += [None] * (1 + len(paths))
            if rng.random() < 0.5:
                p = rng.choice(paths)
                eb = b'uncommitted edit of ' + p.encode() + bytes(f' {rng.randint(0, 99)}\n', 'ascii')
                A.write(p, eb); self.table.add(eb); self.edited[p] = eb
                rh.Runner.restamp(A, stamps)
                self.model('\t'.join(['write', p, eb.hex()]), None)
        else:
            A.git('add', '-A'); A.git('commit', '-q', '-m', 'all', '--allow-empty')
            B = Sandbox(self.base, 'B', self.xvc)
            shutil.rmtree(B.root)
            r = B.run(['git', 'clone', '-q', A.root, B.root], cwd=self.base)
            self.lines += ['clone\tB', 'use\tB', '\t'.join(['cfg', str(cfg['algo']), cfg['method'], cfg['tob']])]
            self.obs += [None, None, None]
        ob = Obs(B)
        want = rng.sample(paths, rng.randint(1, len(paths)))
        dldec = per_address({p: (rng.choice(['ok', 'ok', 'fc', 'fp']) if self.faults_enabled else 'ok') for p in want})
        if self.kind == 'local':
            want = [p for p in want if p in sent] or [sent[0]]       # a missing object makes the whole local receive fail
            dldec = {p: 'ok' for p in want}
        self.set_faults('down', dldec, oa)
        tmp_other = rng.random() < 0.5 and os.path.isdir('/dev/shm')
        env = {'TMPDIR': '/dev/shm'} if tmp_other else {}
        method = rng.choice([None, None, 'copy', 'hardlink', 'symlink'])
        args = cargs + ['file', 'bring', '--from', 'st'] + (['--recheck-as', method] if method else []) + want
        rc_, out, err = B.x(*args, env=env)
        rh.Runner.restamp(B, stamps)
        ob2 = Obs(B)
        stored = {rc.rec_addr(oa.recs[p], p) for p in sent if updec[p] == 'ok'}
        eff = {p: (dldec[p] if rc.rec_addr(oa.recs[p], p) in stored else 'fc') for p in want}
        self.model('\t'.join(['bring', 'other' if tmp_other else 'same', '1', method or '-'] + [f'{p}={eff[p]}' for p in want]),
                   f"rc={'ok' if rc_ in (0, 1) else 'panic'} " + abstraction(ob2, self.table))
        self.chk.count(f'bring:tmp={"other-fs" if tmp_other else "same-fs"}'); self.chk.count(f'bring:{"same-repo" if same_repo else "clone"}')
        for p in want: self.chk.count(f'download:{eff[p]}')
        for p in sent: self.chk.count(f'upload:{updec[p]}')
        # oracle: bytes, no corrupt object
        for p, eb in getattr(self, 'edited', {}).items():
            if rc.read_through(ob2, p) != eb:
                self.fail.append((f'bring (without --force) replaced the uncommitted edit at {p}', {'kind': 'bring-overwrote-uncommitted'}))
        for p in want:
            if p in getattr(self, 'edited', {}): continue
            got = rc.read_through(ob2, p)
            if eff[p] == 'ok':
                if got != files[p]:
                    self.fail.append((f"bring ({self.kind}, TMPDIR {'on another fs' if tmp_other else 'default'}, rc={rc_}): {p} is "
                                      f"{'missing' if got is None else 'different'} after a successful transfer {err[-200:]}",
                                      {'kind': 'roundtrip-lost', 'tmp_other': tmp_other}))
            elif got is not None and got != files[p]:
                self.fail.append((f'bring: {p} has wrong bytes after a failed download', {'kind': 'wrong-bytes-after-fault'}))
        fake = [{'i': 0, 'cmd': {'op': 'bring', 'targets': want}, 'rc': rc_, 'pre': None, 'post': ob2}]
        for msg, sig in rc.o1_content_addressed(fake, cfg, []):
            self.fail.append((f'after bring with download pattern {eff}: ' + msg, sig))
        # bring again (no faults): nothing that is there changes
        if rc_ in (0, 1):
            self.set_faults('down', {}, oa)
            snap_c = {k: (v['bytes'], v['ino']) for k, v in ob2.cache.items()}
            B.x(*(cargs + ['file', 'bring', '--from', 'st'] + [p for p in want if eff[p] == 'ok']), env=env)
            ob3 = Obs(B)
            for k, v in snap_c.items():
                n = ob3.cache.get(k)
                if not n or (n['bytes'], n['ino']) != v:
                    self.fail.append((f'bringing again replaced or removed cache object {k}', {'kind': 'bring-not-idempotent'}))
            for p in want:
                if p in getattr(self, 'edited', {}): continue
                if eff[p] == 'ok' and rc.read_through(ob3, p) != files[p]:
                    self.fail.append((f'bringing again changed {p}', {'kind': 'bring-not-idempotent'}))
        if B is not A: B.cleanup()
        A.cleanup()
        shutil.rmtree(self.base, ignore_errors=True)
        return self


def interrupted_send(chk, xvc, name, limit_blocks):
    """oracle-only scenario: `xvc file send` to a local storage is killed in the middle of an object (SIGXFSZ through
    `ulimit -f`); then (a) a clone brings directly, (b) the send is repeated and a second clone brings.  In both cases the
    file in the clone is byte-identical or absent - never a wrong or partial object at a cache address."""
    fails = []
    base = os.path.join(chk.scratch, 'c06', name)
    A = Sandbox(base, 'A', xvc); A.init()
    import random as _r
    rng = _r.Random(chk.seed * 13 + limit_blocks)
    big = bytes(rng.getrandbits(8) for _ in range(300_000)) * 8          # 2.4 MB
    A.write('big.bin', big); A.write('small.txt', b'small\n')
    A.x('file', 'track', 'big.bin', 'small.txt')
    sdir = os.path.join(base, 'storage')
    A.x('storage', 'new', 'local', '--name', 'st', '--path', sdir)
    rc_, out, err = A.run(['bash', '-c', f'ulimit -f {limit_blocks}; exec "$0" file send --to st big.bin small.txt', xvc])
    chk.count(f'interrupted-send:rc={rc_}')
    A.git('add', '-A'); A.git('commit', '-q', '-m', 'all', '--allow-empty')

    def bring_in_clone(tag):
        B = Sandbox(base, tag, xvc)
        shutil.rmtree(B.root)
        B.run(['git', 'clone', '-q', A.root, B.root], cwd=base)
        r, o, e = B.x('file', 'bring', '--from', 'st', 'big.bin', 'small.txt')
        ob = Obs(B)
        for p, want in (('big.bin', big), ('small.txt', b'small\n')):
            got = rc.read_through(ob, p)
            if got is not None and got != want:
                fails.append((f'{tag}: after a send killed at {limit_blocks} KiB, bring (rc={r}) delivered {len(got)} wrong/partial bytes for {p} (expected {len(want)} or nothing)',
                              {'kind': 'partial-object-after-interrupted-send', 'stage': tag}))
        fake = [{'i': 0, 'cmd': {'op': 'bring', 'targets': ['big.bin']}, 'rc': r, 'pre': None, 'post': ob}]
        for msg, sig in rc.o1_content_addressed(fake, {}, []):
            fails.append((f'{tag}: after an interrupted send: ' + msg, sig))
        B.cleanup()
        return ob
    bring_in_clone('clone-after-interrupted-send')
    r2, _, e2 = A.x('file', 'send', '--to', 'st', 'big.bin', 'small.txt')
    ob = bring_in_clone('clone-after-repeated-send')
    if r2 == 0 and (rc.read_through(ob, 'big.bin') != big or rc.read_through(ob, 'small.txt') != b'small\n'):
        fails.append((f'after an interrupted send and a successful repeated send (rc 0), bring in a clone does not deliver the files byte-identically', {'kind': 'repeated-send-does-not-repair'}))
    A.cleanup()
    shutil.rmtree(base, ignore_errors=True)
    return fails


def failing_bring(chk, xvc, name, limit_blocks, sigmode):
    """The transfer fails in the middle on the RECEIVING side: `xvc file bring` runs with a file size limit, so the copy out
    of the storage is cut short - with SIGXFSZ ignored the write fails with EFBIG (like a full disk or a quota), otherwise
    the process is killed.  Oracle: whatever the exit status, afterwards every file is byte-identical or absent and no
    wrong or partial object sits at a cache address; bringing again without the limit delivers everything."""
    fails = []
    base = os.path.join(chk.scratch, 'c06', name)
    A = Sandbox(base, 'A', xvc); A.init()
    import random as _r
    rng = _r.Random(chk.seed * 17 + limit_blocks)
    big = bytes(rng.getrandbits(8) for _ in range(300_000)) * 8          # 2.4 MB
    files = {'big.bin': big, 'small.txt': b'small\n', 'big2.dat': big[:1_000_000] + b'tail'}
    for p, b in files.items(): A.write(p, b)
    algo = rng.choice(['blake3', 'sha2', 'sha3', 'blake2'])
    cargs = ['-c', f'cache.algorithm={algo}']
    A.x(*(cargs + ['file', 'track', '--text-or-binary', 'binary'] + list(files)))
    sdir = os.path.join(base, 'storage')
    A.x('storage', 'new', 'local', '--name', 'st', '--path', sdir)
    A.x(*(cargs + ['file', 'send', '--to', 'st'] + list(files)))
    A.git('add', '-A'); A.git('commit', '-q', '-m', 'all', '--allow-empty')
    B = Sandbox(base, 'B', xvc)
    shutil.rmtree(B.root)
    B.run(['git', 'clone', '-q', A.root, B.root], cwd=base)
    tmpd = os.path.join(base, 'tmp'); os.makedirs(tmpd, exist_ok=True)
    trap = "trap '' XFSZ; " if sigmode == 'efbig' else ''
    r, o, e = B.run(['bash', '-c', f'{trap}ulimit -f {limit_blocks}; exec "$0" ' + ' '.join(cargs) + ' file bring --from st ' + ' '.join(files), xvc], env={'TMPDIR': tmpd})
    chk.count(f'failing-bring:{sigmode}:rc={r}')
    ob = Obs(B)
    for p, want in files.items():
        got = rc.read_through(ob, p)
        if got is not None and got != want:
            fails.append((f'bring cut short at {limit_blocks} KiB ({sigmode}, rc={r}) delivered {len(got)} wrong/partial bytes for {p} (expected {len(want)} or nothing)',
                          {'kind': 'partial-file-after-failing-bring', 'mode': sigmode}))
    fake = [{'i': 0, 'cmd': {'op': 'bring', 'targets': list(files)}, 'rc': r, 'pre': None, 'post': ob}]
    for msg, sig in rc.o1_content_addressed(fake, {}, []):
        if sig['kind'] in ('address-mismatch', 'object-is-symlink'):
            fails.append((f'after a bring cut short at {limit_blocks} KiB ({sigmode}, rc={r}): ' + msg, dict(sig, mode=sigmode)))
    r2, _, e2 = B.x(*(cargs + ['file', 'bring', '--from', 'st'] + list(files)), env={'TMPDIR': tmpd})
    ob2 = Obs(B)
    if r2 == 0:
        for p, want in files.items():
            if rc.read_through(ob2, p) != want:
                fails.append((f'after a bring cut short ({sigmode}) and a second, unlimited bring (rc 0), {p} is not byte-identical', {'kind': 'second-bring-does-not-repair', 'mode': sigmode}))
    B.cleanup(); A.cleanup()
    shutil.rmtree(base, ignore_errors=True)
    return fails


def run(chk):
    quick = chk.tier == 'quick'
    model = chk.lean('XvcRepo', 'XvcRepo.Props.C06', exe='repomodel', extra_modules=['XvcRepo.Model', 'XvcRepo.Storage'])
    xvc = chk.build_xvc()
    chk.trusted_base += ['binary harness lib/c06.py (scratch repositories, local storage and a generic storage whose upload/download commands consult a fault-pattern file, git clone, TMPDIR on /dev/shm = tmpfs on another device)',
                         'modelled, not verified: cloud back ends (s3, gcs, r2, minio, wasabi, digital-ocean) and rsync: they share send/bring/fetch and the XvcStorageOperations contract with the two storages exercised here but were not run (no network)']
    chk.assumptions += ['the upload/download commands of a generic storage either succeed with the right bytes or exit non-zero (the fault model: fail, fail leaving a partial temp file); a command that exits 0 after writing wrong bytes is outside the property',
                        'interruption of xvc itself during a transfer is covered by C07']
    n = 48 if quick else 600
    scen = []
    for i in range(n):
        kind = 'generic' if i % 2 else 'local'
        scen.append(Scenario(chk, xvc, f's{i}', __import__('random').Random(chk.seed * 7919 + i), kind))

    def one(s):
        try:
            return s.run()
        except Exception:
            import traceback
            s.fail.append(('harness error: ' + traceback.format_exc()[-600:], {'kind': 'harness-error'}))
            return s
    with ThreadPoolExecutor(max_workers=8) as ex:
        done = list(ex.map(one, scen))
    st = chk.tie['streams'].setdefault('send-bring-scenarios', {'scenarios': 0, 'model_lines': 0, 'compared': 0, 'disagreements': 0})
    have_model = os.path.exists(model)
    for s in done:
        chk.evaluations += 1
        st['scenarios'] += 1
        chk.count('storage:' + s.kind)
        chk.nontrivial.add(hashlib.sha1('\n'.join(s.lines).encode()).hexdigest())
        if have_model and s.lines:
            p = subprocess.run([model], input='\n'.join(s.lines) + '\n', stdout=subprocess.PIPE, text=True, timeout=600)
            out = p.stdout.split('\n')
            for line, real, mo in zip(s.lines, s.obs, out):
                st['model_lines'] += 1
                if real is None: continue
                st['compared'] += 1
                if real.startswith('st='):
                    ok = real == mo
                    d = None if ok else f'storage: implementation {real} model {mo}'
                else:
                    d = rh.compare_step({'abs': real.split(' ', 1)[1], 'rc': 0 if real.startswith('rc=ok') else 101}, mo)
                if d:
                    st['disagreements'] += 1
                    if len(chk.tie['disagreements']) < 3:
                        chk.disagreement('send-bring-scenarios', {'kind': s.kind, 'lines': [l[:200] for l in s.lines]}, real[:1500], mo[:1500], f'at `{line[:120]}`: {d[:600]}')
                    break
        seen = set()
        for msg, sig in s.fail:
            k = json.dumps(sig, sort_keys=True)
            if k in seen: continue
            seen.add(k)
            chk.oracle_failure(msg, {'storage': s.kind, 'cfg': getattr(s, 'cfg', None), 'model_lines': [l[:300] for l in s.lines]}, None, signature=sig)
        if len(chk.samples) < 4:
            chk.samples.append({'storage': s.kind, 'protocol': [l[:160] for l in s.lines]})
    for j, blocks in enumerate([1024, 300] if quick else [1024, 300, 2048, 64, 1]):
        chk.evaluations += 1
        chk.nontrivial.add(f'interrupted-send-{blocks}')
        try:
            fl = interrupted_send(chk, xvc, f'int{j}', blocks)
        except Exception:
            import traceback
            fl = [('harness error: ' + traceback.format_exc()[-600:], {'kind': 'harness-error'})]
        for msg, sig in fl:
            chk.oracle_failure(msg, {'scenario': 'interrupted-send', 'ulimit_f_blocks': blocks}, None, signature=sig)
    for j, (blocks, mode) in enumerate([(256, 'efbig'), (1500, 'efbig'), (256, 'kill')] if quick else [(256, 'efbig'), (1500, 'efbig'), (64, 'efbig'), (1, 'efbig'), (3000, 'efbig'), (256, 'kill'), (1500, 'kill')]):
        chk.evaluations += 1
        chk.nontrivial.add(f'failing-bring-{blocks}-{mode}')
        try:
            fl = failing_bring(chk, xvc, f'fb{j}', blocks, mode)
        except Exception:
            import traceback
            fl = [('harness error: ' + traceback.format_exc()[-600:], {'kind': 'harness-error'})]
        for msg, sig in fl:
            chk.oracle_failure(msg, {'scenario': 'failing-bring', 'ulimit_f_blocks': blocks, 'mode': mode}, None, signature=sig)
    chk.extra['rule'] = (f'{n} scenarios, alternating local / generic storage: 2-4 files from the content classes (duplicates allowed) tracked in A with a random algorithm and method; '
                         'a random subset sent (generic: random upload failures), sent again; with p=.5 a second repository with another guid sends the same content to the same storage; '
                         'then either a git clone B of A or A itself with cache and workspace removed brings a random subset (generic: each download ok / fails cleanly / fails leaving a partial temp file), '
                         'TMPDIR default or /dev/shm (another file system), random --recheck-as; brought again; plus interrupted local sends (killed by SIGXFSZ at several sizes) followed by bring in a clone, before and after repeating the send; plus brings from a local storage cut short on the receiving side by a file size limit (write fails with EFBIG, or the process is killed), then repeated without the limit. Every scenario is distinct (seeded) and non-trivial (>= 1 object transferred or refused).')
    return chk.finish()


def replay(chk, data):
    print('C06 replays are scenario seeds: re-run `VERIF_SEED=<seed> ./check C06 quick`; failing scenarios are listed with their model lines in the replay file')
    return run(chk)
