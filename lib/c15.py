"""C15 — xvc leaves the user's Git state alone.

Proof: lean/XvcGit (Props.lean) — a model of head/index/work tree/stash/branches, the git commands xvc
issues on the conflict-free fragment, and line-by-line transcriptions of `git_auto_commit`,
`git_auto_stage`, `handle_git_automation`, `git_checkout_ref` (core/src/util/git.rs, after
patches/C15-F4.patch and patches/C15-pathspec.patch) called as in lib/src/cli/mod.rs.

Tie (binary level, REAL git): generated user states x xvc commands x settings are executed with the
rebuilt `xvc` binary in scratch repositories; the abstraction of the real state before the command
and the xvc-side writes observed are given to the compiled model driver (`gitmodel`), whose predicted
post-state (index, work tree, stash, HEAD, refs, new commits with their trees) is diffed with the
abstraction of the real post-state.

Oracle (independent of the model): what the property text demands, evaluated on `git status
--porcelain`, the index entries, `git stash list`, `git for-each-ref`, the changed paths of every new
commit and the bytes of user files before/after the command.

Layouts: `flat` (Xvc root = Git root) and `nested` (Git repository at the top, `xvc init` in `proj/`,
commands run in `proj/` or `proj/data/`).  All observations are taken at the top of the Git work tree,
so paths are always relative to it; in the nested layout the paths xvc may stage/commit are
`proj/.xvc/**` and files named .gitignore/.xvcignore BELOW `proj/`; everything outside `proj/`
(the user's own .gitignore files included) is user state.  The Lean model takes the Xvc root as a
parameter (`isXvcPathAt root`, driver line `root proj`).
"""
import concurrent.futures, hashlib, json, os, shutil, stat
from common import Check, run_lines, shrink
from xvcbin import Sandbox

IGN = ('.gitignore', '.xvcignore')
WORKERS = 8


NESTED = 'proj/'          # the Xvc root of the nested layout, relative to the top of the Git work tree


def pfx_of(case):
    """the Xvc root of a case as a path prefix relative to the top of the Git work tree ('' = the Git root itself)"""
    return NESTED if case.get('layout') == 'nested' else ''


def is_xvc_path(p, pfx=''):
    """the paths the property lets xvc stage/commit: below <xvc root>/.xvc/ and files NAMED .gitignore / .xvcignore
    below the xvc root. A path outside the xvc root is never xvc's, whatever it is called."""
    if not p.startswith(pfx):
        return False
    q = p[len(pfx):]
    return q.startswith('.xvc/') or os.path.basename(q) in IGN


def is_target(p, pfx=''):
    """xvc-managed data area of the scratch repositories (the commands' own targets), not user state"""
    return p.startswith(pfx + 'data/') and os.path.basename(p) not in IGN


def is_user(p, pfx=''):
    return not is_xvc_path(p, pfx) and not is_target(p, pfx)


# ------------------------------------------------------------------------------------------------
# scratch repositories

TRACKED_USER = ['t.txt', 'm.txt', 'del.txt', 'dir/a.txt', 'dir/b.txt', 'dir/sub/c.txt', 'x y.txt'.replace(' ', '_'),
                'keep.gitignore', 'dir/.gitignore']
TEN = ''.join(f'line{i}\n' for i in range(1, 11))


def add_user_history(t):
    """Branches with histories of their own, made by the user before xvc enters: `behind` stays at the root commit (an
    ancestor of every later HEAD), `div` gets a commit of its own (adds div.txt, edits dir/b.txt) and main another one
    afterwards (diverged). Together with `other` (at main's tip) and `side` (main's tip + one user commit: ahead) every
    relation a --to-branch target can have to HEAD is present."""
    t.git('branch', 'behind')
    t.git('checkout', '-q', '-b', 'div')
    t.write('div.txt', 'only on div\n')
    t.write('dir/b.txt', f'dir/b.txt\nedited on div\n{TEN}')
    t.git('add', 'div.txt', 'dir/b.txt')
    t.git('commit', '-q', '-m', 'user commit on div')
    t.git('checkout', '-q', 'main')
    t.write('main2.txt', 'second user commit on main\n')
    t.git('add', 'main2.txt')
    t.git('commit', '-q', '-m', 'user second')


def build_template(chk, xvc):
    t = Sandbox(chk.scratch, 'c15-template', xvc)
    t.git('init', '-q', '-b', 'main')
    for p in TRACKED_USER:
        t.write(p, ('# user rules\n*.tmp\n' if p.endswith('.gitignore') else f'{p}\n{TEN}'))
    t.git('add', '-A')
    t.git('commit', '-q', '-m', 'user root')
    add_user_history(t)
    rc, out, err = t.x('init')
    if rc != 0:
        chk.fatal('xvc init failed in the template repository', out + err)
    for i in range(3):
        t.write(f'data/d{i}.bin', f'data-{i}\n' * (i + 2))
    t.x('file', 'track', 'data/d0.bin')
    t.x('pipeline', 'step', 'new', '--step-name', 's0', '--command', 'echo s0')
    t.git('tag', 'v0')
    t.git('branch', 'other')
    t.git('checkout', '-q', '-b', 'side')
    t.write('side.txt', 'only on side\n')
    t.git('add', 'side.txt')
    t.git('commit', '-q', '-m', 'user commit on side')
    t.git('checkout', '-q', 'main')
    rc, out, err = t.git('status', '--porcelain')
    left = [l for l in out.splitlines() if not l.endswith('data/d1.bin') and not l.endswith('data/d2.bin')]
    if left:
        chk.fatal('template repository is not clean after setup (xvc init/track did not commit?)', out)
    return t


def build_plain_template(chk, xvc):
    """a git repository with the same user files, branches and tag, but not yet an xvc repository (for `xvc init`)"""
    t = Sandbox(chk.scratch, 'c15-template-plain', xvc)
    t.git('init', '-q', '-b', 'main')
    for p in TRACKED_USER:
        t.write(p, ('# user rules\n*.tmp\n' if p.endswith('.gitignore') else f'{p}\n{TEN}'))
    t.git('add', '-A')
    t.git('commit', '-q', '-m', 'user root')
    add_user_history(t)
    t.git('tag', 'v0')
    t.git('branch', 'other')
    t.git('checkout', '-q', '-b', 'side')
    t.write('side.txt', 'only on side\n')
    t.git('add', 'side.txt')
    t.git('commit', '-q', '-m', 'user commit on side')
    t.git('checkout', '-q', 'main')
    return t


# nested layout: the Git repository carries the same user files at the top (all OUTSIDE the Xvc root), the user's own
# top-level .gitignore, and a project directory `proj/` with user files of its own in which `xvc init` is run
NESTED_OUT = TRACKED_USER + ['.gitignore']
NESTED_IN = [NESTED + p for p in ('in_t.txt', 'in_m.txt', 'in_del.txt', 'sub/a.txt', 'sub/deep/c.txt', 'keep.gitignore', 'sub/.gitignore')]


def build_nested_template(chk, xvc, plain=False):
    """git repository at the top, Xvc project in the subdirectory proj/ (plain=True: `xvc init` not yet run)"""
    t = Sandbox(chk.scratch, 'c15-template-nested' + ('-plain' if plain else ''), xvc)
    proj = t.path(NESTED.rstrip('/'))
    t.git('init', '-q', '-b', 'main')
    for p in NESTED_OUT + NESTED_IN:
        t.write(p, ('# user rules\n*.tmp\n' if p.endswith('.gitignore') else f'{p}\n{TEN}'))
    t.git('add', '-A')
    t.git('commit', '-q', '-m', 'user root')
    add_user_history(t)
    if not plain:
        rc, out, err = t.x('init', cwd=proj)
        if rc != 0 or not os.path.isdir(os.path.join(proj, '.xvc')):
            chk.fatal('xvc init failed in the subdirectory of the nested template repository', out + err)
        for i in range(3):
            t.write(f'{NESTED}data/d{i}.bin', f'data-{i}\n' * (i + 2))
        t.x('file', 'track', 'data/d0.bin', cwd=proj)
        t.x('pipeline', 'step', 'new', '--step-name', 's0', '--command', 'echo s0', cwd=proj)
    t.git('tag', 'v0')
    t.git('branch', 'other')
    t.git('checkout', '-q', '-b', 'side')
    t.write('side.txt', 'only on side\n')
    t.git('add', 'side.txt')
    t.git('commit', '-q', '-m', 'user commit on side')
    t.git('checkout', '-q', 'main')
    rc, out, err = t.git('status', '--porcelain')
    left = [l for l in out.splitlines() if not l.endswith('data/d1.bin') and not l.endswith('data/d2.bin')]
    if left:
        chk.fatal('nested template repository is not clean after setup (xvc init/track in proj/ did not commit?)', out)
    return t


TEMPLATE_BUILDERS = {
    'xvc': lambda chk, xvc: build_template(chk, xvc),
    'plain': lambda chk, xvc: build_plain_template(chk, xvc),
    'nested': lambda chk, xvc: build_nested_template(chk, xvc),
    'nested_plain': lambda chk, xvc: build_nested_template(chk, xvc, plain=True),
}


def template_kind(case):
    init = case['cmd'][0] == 'init'
    if case.get('layout') == 'nested':
        return 'nested_plain' if init else 'nested'
    return 'plain' if init else 'xvc'


def build_templates(chk, xvc, kinds=None):
    return {k: b(chk, xvc) for k, b in TEMPLATE_BUILDERS.items() if kinds is None or k in kinds}


def instantiate(chk, tmpl, name):
    if isinstance(tmpl, dict):
        raise TypeError('pick a template first')
    sb = Sandbox(chk.scratch, name, tmpl.xvc)
    shutil.copytree(tmpl.root, sb.root, symlinks=True, dirs_exist_ok=True)
    return sb


# ------------------------------------------------------------------------------------------------
# user states

def apply_op(sb, op):
    k = op[0]
    if k == 'stash':                      # a pre-existing stash entry of the user's (ordinary `git stash`)
        sb.write('m.txt', f'stashed work {op[1]}\n{TEN}')
        if op[1] % 2:
            sb.write(f'stashed-new{op[1]}.txt', 'x\n')
            sb.git('add', f'stashed-new{op[1]}.txt')
        sb.git('stash', 'push', '-q', '-m', f'user stash {op[1]}')
    elif k == 'detach':
        sb.git('checkout', '-q', '--detach')
    elif k == 'branch':
        sb.git('checkout', '-q', op[1])
    elif k in ('stage_new', 'stage_mod'):
        sb.write(op[1], op[2])
        sb.git('add', '--', op[1])
    elif k == 'stage_del':
        sb.git('rm', '-q', '--', op[1])
    elif k == 'edit':
        sb.write(op[1], op[2])
    elif k == 'rm':
        os.unlink(sb.path(op[1]))
    elif k == 'untracked':
        sb.write(op[1], op[2])
    elif k == 'hook_fail':                # every `git commit` is rejected
        hp = os.path.join(sb.root, '.git', 'hooks', 'pre-commit')
        os.makedirs(os.path.dirname(hp), exist_ok=True)
        open(hp, 'w').write('#!/bin/sh\nexit 1\n')
        os.chmod(hp, 0o755)
    elif k == 'mixed_am':                 # staged new file with a further unstaged edit
        sb.write(op[1], 'first\n')
        sb.git('add', '--', op[1])
        sb.write(op[1], 'first\nsecond\n')
    elif k == 'mixed_mm':                 # staged hunk and unstaged hunk in one tracked file
        sb.write(op[1], f'{op[1]}\n{TEN}'.replace('line1\n', 'LINE1 staged\n'))
        sb.git('add', '--', op[1])
        sb.write(op[1], f'{op[1]}\n{TEN}'.replace('line1\n', 'LINE1 staged\n').replace('line10\n', 'LINE10 unstaged\n'))
    elif k == 'mixed_dq':                 # staged deletion, path re-created untracked
        sb.git('rm', '-q', '--', op[1])
        sb.write(op[1], 're-created\n')
    else:
        raise ValueError(op)


def gen_state(rng, chk):
    ops = []
    r = rng.random()
    if r < 0.30:
        ops += [('stash', i) for i in range(rng.choice([1, 1, 2]))]
    r = rng.random()
    if r < 0.15:
        ops.append(('detach',))
    elif r < 0.27:
        ops.append(('branch', 'other'))
    pool = [p for p in TRACKED_USER]
    rng.shuffle(pool)
    n = 0

    def take(pred=lambda p: True):
        for i, p in enumerate(pool):
            if pred(p):
                return pool.pop(i)
        return None
    plain = lambda p: not p.endswith('.gitignore')
    if rng.random() < 0.6:
        for _ in range(rng.choice([1, 1, 2])):
            n += 1
            ops.append(('stage_new', rng.choice([f'new{n}.txt', f'dir/new{n}.txt', f'newdir/deep/n{n}.txt']), f'new {n}\n'))
    if rng.random() < 0.5:
        p = take(plain)
        ops.append(('stage_mod', p, f'{p}\nstaged modification\n{TEN}'))
    if rng.random() < 0.35:
        ops.append(('stage_del', take(plain)))
    if rng.random() < 0.5:
        p = take(plain)
        ops.append(('edit', p, f'{p}\n{TEN}unstaged edit\n'))
    if rng.random() < 0.15:
        ops.append(('rm', take(plain)))
    if rng.random() < 0.5:
        n += 1
        ops.append(('untracked', rng.choice([f'untracked{n}.txt', f'dir/untracked{n}.log', f'scratch/u{n}.txt']), f'untracked {n}\n'))
    # user files whose names merely END in .gitignore / .xvcignore (user files, C15-pathspec)
    if rng.random() < 0.2:
        ops.append(('untracked', rng.choice(['notes.gitignore', 'dir/my.xvcignore', 'backup.xvcignore']), 'user notes\n'))
    if rng.random() < 0.12:
        ops.append(('edit', 'keep.gitignore', '# user rules\n*.tmp\n*.bak\n'))
        pool.remove('keep.gitignore') if 'keep.gitignore' in pool else None
    # the user's own ignore files: edits are allowed to be swept into xvc's commit; a staged edit must stay staged
    r = rng.random()
    if r < 0.08:
        ops.append(('edit', '.gitignore', None))          # content filled in at apply time (append to what xvc wrote)
    elif r < 0.16:
        ops.append(('stage_mod', 'dir/.gitignore', '# user rules\n*.tmp\n*.o\n'))
    elif r < 0.22:
        ops.append(('untracked', 'newdir/.gitignore', '*.cache\n'))
    if rng.random() < 0.06:
        ops.append(('hook_fail',))
    for o in ops:
        chk.count('state:' + o[0])
    return ops


RO_CMDS = [
    ['file', 'list'], ['pipeline', 'list'], ['pipeline', 'step', 'list'], ['root'], ['storage', 'list'],
    ['file', 'hash', 't.txt'], ['check-ignore', 't.txt'], ['pipeline', 'dag'], ['pipeline', 'export'],
    ['file', 'track', 'nonexistent.bin'],
]
MUT_CMDS = [
    ['file', 'track', 'data/d1.bin'], ['file', 'track', 'data/d1.bin', 'data/d2.bin'], ['file', 'track', 'data/'],
    ['file', 'recheck', 'data/d0.bin', '--recheck-method', 'symlink'],
    ['pipeline', 'new', '--pipeline-name', 'p1'],
    ['pipeline', 'step', 'new', '--step-name', 's1', '--command', 'echo hi'],
    ['storage', 'new', 'local', '--name', 'st1', '--path', '../storage1'],
    ['file', 'copy', 'data/d0.bin', 'data/d9.bin'], ['file', 'move', 'data/d0.bin', 'data/d7.bin'],
    ['file', 'untrack', 'data/d0.bin'], ['pipeline', 'run'],
]
SETTINGS = [
    ({}, 10),
    ({'cfg': ['git.auto_commit=false', 'git.auto_stage=true']}, 3),
    ({'cfg': ['git.auto_commit=false']}, 2),
    ({'cfg': ['git.use_git=false']}, 2),
    ({'skip_git': True}, 2),
    ({'to_branch': 'newb'}, 3),
    ({'to_branch': 'other'}, 1),
    ({'from_ref': 'other'}, 2),
    ({'from_ref': 'side'}, 1),
    ({'from_ref': 'nosuchref'}, 1),
    # a value that is not a reference but names a path: a file with an unstaged edit, a directory, the whole work tree (F35)
    ({'from_ref': '@edited'}, 2),
    ({'from_ref': 'dir'}, 1),
    ({'from_ref': '.'}, 1),
    # the same options through the environment and through .xvc/config.local.toml (git-ignored)
    ({'cfg': ['git.auto_commit=false', 'git.auto_stage=true'], 'via': 'env'}, 1),
    ({'cfg': ['git.use_git=false'], 'via': 'env'}, 1),
    ({'cfg': ['git.auto_commit=false'], 'via': 'local'}, 1),
    ({'cfg': ['git.auto_commit=false', 'git.auto_stage=true'], 'via': 'local'}, 1),
]


def gen_init_case(rng, chk):
    """`xvc init` in a git repository that carries user work"""
    ops = [o for o in gen_state(rng, chk) if not (o[0] == 'edit' and o[1] == '.gitignore')]
    chk.count('cmd:init')
    # `xvc init` under the global switches too (F36: --skip-git was ignored by init)
    setting = rng.choice([{}, {}, {'skip_git': True}, {'to_branch': 'newb'}])
    chk.count('setting:' + (json.dumps(setting, sort_keys=True) if setting else 'default'))
    return {'ops': [list(o) for o in ops], 'cmd': ['init'], 'readonly': False, 'setting': setting}


def gen_case(rng, chk):
    ops = gen_state(rng, chk)
    ro = rng.random() < 0.45
    cmd = rng.choice(RO_CMDS if ro else MUT_CMDS)
    total = sum(w for _, w in SETTINGS)
    x = rng.random() * total
    for s, w in SETTINGS:
        x -= w
        if x < 0:
            break
    setting = dict(s)
    if setting.get('from_ref') == '@edited':
        edited = [o[1] for o in ops if o[0] in ('edit', 'rm') and o[1] not in ('.gitignore',)]
        setting['from_ref'] = edited[0] if edited else 't.txt'
    if any(o[0] in ('detach', 'branch') for o in ops) and setting.get('to_branch') == 'other' and ('branch', 'other') in ops:
        setting['to_branch'] = 'main'
    chk.count('cmd:' + ' '.join(cmd[:3 if cmd[0] == 'pipeline' and len(cmd) > 2 and cmd[1] == 'step' else 2]))
    chk.count('setting:' + (json.dumps(setting, sort_keys=True) if setting else 'default'))
    return {'ops': [list(o) for o in ops], 'cmd': cmd, 'readonly': ro, 'setting': setting}


# ---- nested layout: Xvc root = proj/ inside the Git work tree

# commands as typed in the Xvc root proj/ (cwd '') or in proj/data/ (cwd 'data'); `../../storage1` is outside the Git work tree
NESTED_RO = {
    '': [['file', 'list'], ['pipeline', 'list'], ['pipeline', 'step', 'list'], ['root'], ['storage', 'list'],
         ['file', 'hash', 'in_t.txt'], ['check-ignore', 'in_t.txt'], ['pipeline', 'dag'], ['pipeline', 'export'],
         ['file', 'track', 'nonexistent.bin']],
    'data': [['file', 'list'], ['pipeline', 'list'], ['root'], ['pipeline', 'step', 'list']],
}
NESTED_MUT = {
    '': [['file', 'track', 'data/d1.bin'], ['file', 'track', 'data/d1.bin', 'data/d2.bin'], ['file', 'track', 'data/'],
         ['file', 'recheck', 'data/d0.bin', '--recheck-method', 'symlink'],
         ['pipeline', 'new', '--pipeline-name', 'p1'],
         ['pipeline', 'step', 'new', '--step-name', 's1', '--command', 'echo hi'],
         ['storage', 'new', 'local', '--name', 'st1', '--path', '../../storage1'],
         ['file', 'copy', 'data/d0.bin', 'data/d9.bin'], ['file', 'move', 'data/d0.bin', 'data/d7.bin'],
         ['file', 'untrack', 'data/d0.bin'], ['pipeline', 'run']],
    'data': [['file', 'track', 'd1.bin'], ['file', 'track', 'd1.bin', 'd2.bin'],
             ['pipeline', 'new', '--pipeline-name', 'p1'],
             ['pipeline', 'step', 'new', '--step-name', 's1', '--command', 'echo hi']],
}
STAGED_KINDS = ('stage_new', 'stage_mod', 'stage_del')


def staged_where(ops):
    """where the user's staged changes of a nested case lie relative to the Xvc root: none | all-outside | all-inside | both"""
    st = [o[1] for o in ops if o[0] in STAGED_KINDS]
    if not st:
        return 'none'
    ins = [p for p in st if p.startswith(NESTED)]
    return 'all-outside' if not ins else ('all-inside' if len(ins) == len(st) else 'both')


def gen_state_nested(rng, chk):
    """user state of the nested layout. Every path is used by at most one op (no path with a staged AND an unstaged
    change: K-C15-mixed stays excluded); the staged changes are all outside proj/, all inside, on both sides, or absent."""
    ops = []
    if rng.random() < 0.25:
        ops += [('stash', i) for i in range(rng.choice([1, 1, 2]))]
    r = rng.random()
    if r < 0.12:
        ops.append(('detach',))
    elif r < 0.22:
        ops.append(('branch', 'other'))
    plain = lambda p: not p.endswith('.gitignore')
    pools = {'out': [p for p in NESTED_OUT if plain(p)], 'in': [p for p in NESTED_IN if plain(p)]}
    for v in pools.values():
        rng.shuffle(v)
    pre = {'out': '', 'in': NESTED}
    n = [0]

    def fresh():
        n[0] += 1
        return n[0]
    r = rng.random()
    sides = ['out'] if r < 0.45 else ['out', 'in'] if r < 0.70 else ['in'] if r < 0.82 else []
    for side in sides:
        for k in rng.sample(['new', 'mod', 'del'], rng.choice([1, 1, 2, 3])):
            if k == 'new':
                i = fresh()
                ops.append(('stage_new', pre[side] + rng.choice([f'new{i}.txt', f'dir/new{i}.txt', f'newdir/deep/n{i}.txt']), f'new {i}\n'))
            elif k == 'mod':
                q = pools[side].pop()
                ops.append(('stage_mod', q, f'{q}\nstaged modification\n{TEN}'))
            else:
                ops.append(('stage_del', pools[side].pop()))
    # a staged edit of an ignore file of the user's: outside proj/ it is an ordinary user file, inside it is an xvc-class path
    if 'out' in sides and rng.random() < 0.15:
        ops.append(('stage_mod', 'dir/.gitignore', '# user rules\n*.tmp\n*.o\n'))
    if 'in' in sides and rng.random() < 0.12:
        ops.append(('stage_mod', NESTED + 'sub/.gitignore', '# user rules\n*.tmp\n*.o\n'))
    for side in ('out', 'in'):
        if rng.random() < 0.4:
            q = pools[side].pop()
            ops.append(('edit', q, f'{q}\n{TEN}unstaged edit\n'))
        if rng.random() < 0.12:
            ops.append(('rm', pools[side].pop()))
        if rng.random() < 0.4:
            i = fresh()
            ops.append(('untracked', pre[side] + rng.choice([f'untracked{i}.txt', f'dir/untracked{i}.log', f'scratch/u{i}.txt']), f'untracked {i}\n'))
    if rng.random() < 0.2:
        ops.append(('untracked', rng.choice(['notes.gitignore', 'dir/my.xvcignore', NESTED + 'notes.gitignore', NESTED + 'sub/my.xvcignore']), 'user notes\n'))
    # ignore files OUTSIDE the Xvc root are user files: an unstaged edit stays unstaged, an untracked one stays untracked
    r = rng.random()
    if r < 0.14:
        ops.append(('edit', '.gitignore', '# user rules\n*.tmp\n*.bak\n'))
    elif r < 0.22:
        ops.append(('untracked', 'newdir/.gitignore', '*.cache\n'))
    elif r < 0.30:
        ops.append(('untracked', 'dir/.xvcignore', '*.skip\n'))
    elif r < 0.36:
        ops.append(('edit', 'keep.gitignore', '# user rules\n*.tmp\n*.bak\n'))
    # ignore files INSIDE the Xvc root: a pending user edit may be swept into xvc's commit
    r = rng.random()
    if r < 0.08:
        ops.append(('edit', NESTED + '.gitignore', None))      # content filled in at apply time (append to what xvc wrote)
    elif r < 0.14:
        ops.append(('untracked', NESTED + 'newdir/.gitignore', '*.cache\n'))
    if rng.random() < 0.06:
        ops.append(('hook_fail',))
    for o in ops:
        chk.count('nested:state:' + o[0])
    return ops


def pick_setting(rng, ops):
    total = sum(w for _, w in SETTINGS)
    x = rng.random() * total
    for s, w in SETTINGS:
        x -= w
        if x < 0:
            break
    setting = dict(s)
    if setting.get('to_branch') == 'other' and ('branch', 'other') in ops:
        setting['to_branch'] = 'main'
    return setting


def gen_case_nested(rng, chk):
    ops = gen_state_nested(rng, chk)
    ro = rng.random() < 0.35
    cwd = 'data' if rng.random() < 0.25 else ''
    cmd = rng.choice((NESTED_RO if ro else NESTED_MUT)[cwd])
    setting = pick_setting(rng, ops)
    chk.count('layout:nested')
    chk.count('nested:cwd=' + (NESTED + cwd))
    chk.count('nested:staged=' + staged_where(ops))
    chk.count('nested:cmd:' + ' '.join(cmd[:3 if cmd[0] == 'pipeline' and len(cmd) > 2 and cmd[1] == 'step' else 2]))
    chk.count('nested:setting:' + (json.dumps(setting, sort_keys=True) if setting else 'default'))
    return {'layout': 'nested', 'cwd': cwd, 'ops': [list(o) for o in ops], 'cmd': cmd, 'readonly': ro, 'setting': setting}


def gen_init_case_nested(rng, chk):
    """`xvc init` in the subdirectory proj/ of a git repository that carries user work inside and outside proj/"""
    ops = [o for o in gen_state_nested(rng, chk) if not (o[0] == 'edit' and o[1] == NESTED + '.gitignore')]
    chk.count('layout:nested')
    chk.count('nested:staged=' + staged_where(ops))
    chk.count('nested:cmd:init')
    return {'layout': 'nested', 'cwd': '', 'ops': [list(o) for o in ops], 'cmd': ['init'], 'readonly': False, 'setting': {}}


# ---- --to-branch stream: every relation the named branch can have to HEAD

TB_TARGETS = ['newb', 'other', 'behind', 'side', 'div', '@current']


def gen_case_tobranch(rng, chk, nested):
    """a generated case (flat or nested) whose setting is `--to-branch <t>`, t drawn from: a new name, `other` (at main's
    tip), `behind` (ancestor), `side` (ahead: a user commit of its own), `div` (diverged), the current branch; the user is
    on main, on other, on side (then main/other are behind HEAD) or detached. The relation actually found is counted from
    the observation (to_branch_target:*)."""
    c = gen_case_nested(rng, chk) if nested else gen_case(rng, chk)
    ops = [o for o in c['ops'] if o[0] not in ('detach', 'branch')]
    k = sum(1 for o in ops if o[0] == 'stash')
    r = rng.random()
    here = [] if r < 0.5 else [['branch', 'other']] if r < 0.65 else [['branch', 'side']] if r < 0.85 else [['detach']]
    c['ops'] = ops[:k] + here + ops[k:]
    t = rng.choice(TB_TARGETS)
    if t == '@current':
        t = here[0][1] if here and here[0][0] == 'branch' else 'main'
    c['setting'] = {'to_branch': t}
    c['stream'] = 'to-branch'
    chk.count('stream:to-branch' + (':nested' if nested else ''))
    return c


# ---- long command lines with multi-byte characters (the command line is part of the auto-commit message, which is built
# between `git stash push --staged` and `git stash pop --index`)

MB_CHARS = [('デ', '3-byte'), ('漢', '3-byte'), ('é', '2-byte'), ('ü', '2-byte'), ('😀', '4-byte'), ('𝒳', '4-byte'), ('デ😀é', 'mixed')]
ARGV0_LINKS = ['x', 'xv', 'xvc', 'xvc_']          # xvc is called through symlinks of these names: argv[0] is part of the command line
MSG_PREFIX = len("Xvc auto-commit after '")


def mb_text(ch, nbytes):
    unit = len(ch.encode())
    return ch * max(1, nbytes // unit)


def mb_name(pad, ch, nbytes=240, ext='.bin'):
    """a file name of `pad` ASCII bytes + about `nbytes` bytes of multi-byte characters + ext (<= 255 bytes)"""
    return 'ab'[:pad] + mb_text(ch, nbytes) + ext


def longcmd_case(layout, ops, kind, pad, ch, link, setting=None, ntargets=1):
    """one case of the long-command-line stream; paths of `files` are relative to the top of the git work tree"""
    pfx = NESTED if layout == 'nested' else ''
    c = {'stream': 'long-cmdline', 'kind': kind, 'ops': [list(o) for o in ops], 'readonly': False, 'setting': dict(setting or {}),
         'argv0': link, 'cwd': '', 'files': [], 'setup': [], 'files2': []}
    if layout == 'nested':
        c['layout'] = 'nested'
    names = ['data/' + mb_name(pad, ch, 240 - 3 * i) for i in range(ntargets)]
    if kind == 'track-deep':
        # few targets, each below 14 directories of 240-byte names: the command line exceeds 128 KiB, the most a single
        # argument of a process may have, so `git commit -m <message>` cannot even be started (E2BIG)
        deep = '/'.join(mb_text('漢', 240) for _ in range(14))
        names = [f'data/{deep}/' + 'ab'[:pad] + f'f{i:02d}' + mb_text(ch, 231) + '.bin' for i in range(ntargets)]
        kind = c['kind'] = 'track'
        c['commit_cannot_start'] = True       # for the model: the outcome parameter of `git commit` (hookOk) is false
    if kind == 'track':
        c['files'] = [[pfx + n, f'payload {i}\n'] for i, n in enumerate(names)]
        c['cmd_head'], c['targets'] = ['file', 'track'], names
        c['cmd'] = c['cmd_head'] + names
    elif kind == 'carry-in':
        c['files'] = [[pfx + names[0], 'payload\n']]
        c['setup'] = [['file', 'track', names[0]]]
        c['files2'] = [[pfx + names[0], 'payload changed by the user\n']]
        c['cmd'] = ['file', 'carry-in', names[0]]
    elif kind in ('copy', 'move'):
        c['cmd'] = ['file', kind, 'data/d0.bin', names[0]]
    elif kind == 'step-new':
        c['cmd'] = ['pipeline', 'step', 'new', '--step-name', 's1', '--command', 'ab'[:pad] + 'echo ' + mb_text(ch, 240)]
    elif kind == 'pipeline-new':
        c['cmd'] = ['pipeline', 'new', '--pipeline-name', 'ab'[:pad] + mb_text(ch, 240)]
    elif kind == 'storage-new':
        c['cmd'] = ['storage', 'new', 'local', '--name', 'ab'[:pad] + mb_text(ch, 240), '--path', ('../../' if layout == 'nested' else '../') + 'storage1']
    else:
        raise ValueError(kind)
    return c


def gen_case_longcmd(rng, chk, nested):
    """user state WITH staged changes (and, half of the time, stash entries of the user's own) x a state-changing command whose
    command line is longer than 256 / 1024 / 4096 bytes and consists mostly of multi-byte characters, typed through a
    symlink whose name length shifts the alignment of every character"""
    ops = [tuple(o) for o in (gen_state_nested(rng, chk) if nested else gen_state(rng, chk))]
    if not any(o[0] in STAGED_KINDS for o in ops):
        ops.append(('stage_new', 'forced-new.txt', 'staged by the user\n'))
    if not any(o[0] == 'stash' for o in ops) and rng.random() < 0.5:
        ops.insert(0, ('stash', 0))
    if rng.random() < 0.15:
        ops.append(('stage_new', 'ノート/メモ.txt', 'a user file with a non-ASCII name\n'))
    kind = rng.choice(['track'] * 10 + ['copy', 'copy', 'move', 'move', 'carry-in', 'carry-in', 'step-new', 'step-new', 'pipeline-new', 'storage-new'])
    nt = 1
    if kind == 'track':
        nt = rng.choice([1, 1, 1, 1, 2, 5, 5, 20])           # > 256, > 512, > 1024, > 4096 bytes of command line
    ch, cls = rng.choice(MB_CHARS)
    pad = rng.choice([0, 1, 2])
    link = rng.choice(ARGV0_LINKS)
    setting = {'to_branch': 'newb'} if rng.random() < 0.12 else {}
    c = longcmd_case('nested' if nested else 'flat', ops, kind, pad, ch, link, setting, nt)
    chk.count('stream:long-cmdline' + (':nested' if nested else ''))
    chk.count('longcmd:kind=' + kind + (f'x{nt}' if nt > 1 else ''))
    chk.count('longcmd:chars=' + cls)
    chk.count(f'longcmd:pad={pad},argv0={link}')
    return c


def argv_of(case):
    s = case['setting']
    a = []
    if s.get('via', 'cli') == 'cli':
        for c in s.get('cfg', []):
            a += ['-c', c]
    if s.get('skip_git'):
        a.append('--skip-git')
    if s.get('to_branch'):
        a += ['--to-branch', s['to_branch']]
    if s.get('from_ref'):
        a += ['--from-ref', s['from_ref']]
    return a + case['cmd']


def git_mode(case):
    """which git automation the settings ask for: off | stage | commit"""
    s = case['setting']
    cfg = {c.split('=')[0]: c.split('=')[1] for c in s.get('cfg', [])}
    if s.get('skip_git') or cfg.get('git.use_git') == 'false':
        return 'off'
    if cfg.get('git.auto_commit') == 'false':
        return 'stage' if cfg.get('git.auto_stage') == 'true' else 'off'
    return 'commit'


# ------------------------------------------------------------------------------------------------
# observation of a real repository

def blob_id(path):
    st = os.lstat(path)
    if stat.S_ISLNK(st.st_mode):
        data, mode = os.readlink(path).encode(), '120000'
    else:
        data, mode = open(path, 'rb').read(), ('100755' if st.st_mode & 0o100 else '100644')
    return mode + ':' + hashlib.sha1(b'blob %d\0' % len(data) + data).hexdigest()[:12]


def ls_tree(sb, rev):
    rc, out, err = sb.git('ls-tree', '-r', '-z', rev)
    t = {}
    for ent in out.split('\0'):
        if ent:
            meta, p = ent.split('\t', 1)
            mode, typ, sha = meta.split(' ')
            t[p] = f'{mode}:{sha[:12]}'
    return t


def observe(sb, trees_for=None, known_trees=None):
    """known_trees: trees already listed for some commit ids (commits are immutable, no need to ask git again)"""
    o = {}
    rc, out, err = sb.git('symbolic-ref', '-q', '--short', 'HEAD')
    rc2, sha, err = sb.git('rev-parse', '-q', '--verify', 'HEAD')
    o['head_sha'] = sha.strip() if rc2 == 0 else None
    o['head'] = ['branch', out.strip()] if rc == 0 else ['detached', o['head_sha']]
    refs = {}
    for line in sb.git('for-each-ref', '--format=%(refname) %(objectname)')[1].splitlines():
        n, s = line.split(' ')
        refs[n] = s
    o['refs'] = refs
    o['stash'] = sb.git('stash', 'list', '--format=%H')[1].split()
    idx = {}
    for ent in sb.git('ls-files', '-s', '-z')[1].split('\0'):
        if ent:
            meta, p = ent.split('\t', 1)
            mode, s, stage = meta.split(' ')
            idx[p] = f'{mode}:{s[:12]}' + ('' if stage == '0' else f':stage{stage}')
    o['index'] = idx
    paths = set(sb.git('ls-files', '-z', '-c', '-o', '--exclude-standard')[1].split('\0')) - {''}
    wt = {}
    for p in paths:
        if os.path.lexists(sb.path(p)):
            wt[p] = blob_id(sb.path(p))
    o['wt'] = wt
    st = sb.git('-c', 'status.renames=false', 'status', '--porcelain=v1', '-z', '--untracked-files=all')[1]
    o['status'] = sorted(e for e in st.split('\0') if e)
    o['cached'] = sb.git('diff', '--cached', '--name-status', '--no-renames')[1].splitlines()
    shas = set(s for n, s in refs.items() if n.startswith('refs/heads/') or n.startswith('refs/tags/'))
    if o['head_sha']:
        shas.add(o['head_sha'])
    o['trees'] = {s: (known_trees[s] if known_trees and s in known_trees else ls_tree(sb, s)) for s in (shas if trees_for is None else trees_for)}
    return o


def commit_chain(sb, tip, known):
    """first-parent chain from `tip` back to the first commit in `known`: [(sha, parent, changed paths, subject)], newest first"""
    chain = []
    cur = tip
    while cur and cur not in known and len(chain) < 8:
        rc, out, err = sb.git('log', '-1', '--format=%P%x00%s', cur)
        parents, subj = out.strip('\n').split('\0')
        par = parents.split(' ')[0] if parents else None
        if par:
            ch = [p for p in sb.git('diff-tree', '-r', '--no-commit-id', '--name-only', '-z', par, cur)[1].split('\0') if p]
        else:
            ch = [p for p in sb.git('ls-tree', '-r', '--name-only', '-z', cur)[1].split('\0') if p]
        chain.append({'sha': cur, 'parent': par, 'changed': ch, 'subject': subj, 'tree': ls_tree(sb, cur)})
        cur = par
    return chain, cur


def ref_moves(sb, pre, post, pfx):
    """For every ref that existed before and has another value now (and for a detached HEAD that moved): is the old tip an
    ancestor of the new tip, is the old tip still reachable from some ref or HEAD, which paths that xvc does not own differ
    between the trees of the two tips. Plain git plumbing on the real repository (no model involved)."""
    moves = []

    def reachable(sha):
        if sb.git('for-each-ref', '--contains', sha, '--format=%(refname)')[1].strip():
            return True
        return bool(post['head_sha']) and sb.git('merge-base', '--is-ancestor', sha, post['head_sha'])[0] == 0
    cands = [(r, pre['refs'][r], post['refs'].get(r)) for r in sorted(pre['refs']) if r != 'refs/stash']
    if pre['head'][0] == 'detached' and pre['head_sha'] and post['head'][0] == 'detached':
        cands.append(('HEAD (detached)', pre['head_sha'], post['head_sha']))
    for r, old, new in cands:
        if old == new:
            continue
        m = {'ref': r, 'old': old, 'new': new, 'old_reachable': reachable(old)}
        if new is not None:
            m['old_is_ancestor_of_new'] = sb.git('merge-base', '--is-ancestor', old, new)[0] == 0
            to = pre['trees'][old] if old in pre['trees'] else ls_tree(sb, old)
            tn = post['trees'][new] if new in post['trees'] else ls_tree(sb, new)
            m['foreign_paths_changed'] = sorted(p for p in set(to) | set(tn) if not is_xvc_path(p, pfx) and to.get(p) != tn.get(p))
        moves.append(m)
    return moves


def to_branch_kind(sb, pre, name):
    """relation of the branch named by --to-branch to HEAD before the command: new | current | at-HEAD | behind | ahead | diverged"""
    sha = pre['refs'].get('refs/heads/' + name)
    if sha is None:
        return 'new'
    if pre['head'] == ['branch', name]:
        return 'current'
    h = pre['head_sha']
    if sha == h:
        return 'at-HEAD'
    if sb.git('merge-base', '--is-ancestor', sha, h)[0] == 0:
        return 'behind'
    if sb.git('merge-base', '--is-ancestor', h, sha)[0] == 0:
        return 'ahead'
    return 'diverged'


# ------------------------------------------------------------------------------------------------
# the oracle: what the property text demands of (pre, post); independent of the model

def oracle(case, pre, post, chain, base_reached, refmoves=()):
    msgs = []
    s = case['setting']
    mode = git_mode(case)
    pfx = pfx_of(case)                    # '' or 'proj/': paths outside the Xvc root are user paths, whatever their names
    # "the stash list ... unchanged"
    if pre['stash'] != post['stash']:
        msgs.append(f"stash list changed: {len(pre['stash'])} -> {len(post['stash'])} entries "
                    f"(new: {[x[:8] for x in post['stash'] if x not in pre['stash']]}, lost: {[x[:8] for x in pre['stash'] if x not in post['stash']]})")
    # "the user's staged changes stay staged"
    for p in sorted(set(pre['index']) | set(post['index'])):
        if is_user(p, pfx) and pre['index'].get(p) != post['index'].get(p):
            if s.get('from_ref') and pre['trees'].get(pre['head_sha'], {}).get(p) != post['trees'].get(post['head_sha'], {}).get(p):
                continue                      # the requested checkout rewrites paths that differ between the two refs
            msgs.append(f"index entry of user path {p}: {pre['index'].get(p)} -> {post['index'].get(p)}")
    # "unstaged and untracked files stay as they were" (presence and bytes of every user file git can see)
    for p in sorted(set(pre['wt']) | set(post['wt'])):
        if is_user(p, pfx) and pre['wt'].get(p) != post['wt'].get(p):
            if s.get('from_ref') and pre['trees'].get(pre['head_sha'], {}).get(p) != post['trees'].get(post['head_sha'], {}).get(p):
                continue
            msgs.append(f"work tree user file {p}: {pre['wt'].get(p)} -> {post['wt'].get(p)}")
    # `git status --porcelain` of user paths
    def ustat(o):
        return [e for e in o['status'] if is_user(e[3:], pfx)]
    if ustat(pre) != ustat(post) and not s.get('from_ref'):
        a, b = ustat(pre), ustat(post)
        msgs.append(f"git status of user paths changed: lost {[e for e in a if e not in b]}, new {[e for e in b if e not in a]}")
    # "the current branch (unless --from-ref or --to-branch asks for a switch)"
    allowed = [pre['head'][0:2] if pre['head'][0] == 'branch' else ['detached']]
    if s.get('to_branch'):
        allowed.append(['branch', s['to_branch']])
    if s.get('from_ref'):
        allowed.append(['branch', s['from_ref']])
    got = post['head'][0:2] if post['head'][0] == 'branch' else ['detached']
    if got not in allowed:
        msgs.append(f"current branch changed: {pre['head']} -> {post['head']}")
    # "all other refs are unchanged"
    moving = set()
    for h in (pre['head'], post['head']):
        if h[0] == 'branch':
            moving.add('refs/heads/' + h[1])
    if s.get('to_branch'):
        moving.add('refs/heads/' + s['to_branch'])
    for r in sorted(set(pre['refs']) | set(post['refs'])):
        if r in moving or r == 'refs/stash':
            continue
        if pre['refs'].get(r) != post['refs'].get(r):
            msgs.append(f"ref {r}: {pre['refs'].get(r)} -> {post['refs'].get(r)}")
    # the ref clause in full, for EVERY ref that existed before (the branch named by --to-branch and the current branch
    # included): it is unchanged, or xvc only added commits on top of it — the old tip is an ancestor of the new tip,
    # the files xvc does not own are the same in both tips, and no commit that was reachable stops being reachable
    for m in refmoves:
        if m['new'] is None:
            msgs.append(f"ref {m['ref']} (was {m['old'][:8]}) was deleted")
        else:
            if not m['old_is_ancestor_of_new']:
                msgs.append(f"ref {m['ref']}: {m['old'][:8]} -> {m['new'][:8]}, the old tip is not an ancestor of the new tip (the ref lost the commits it had)")
            if m['foreign_paths_changed']:
                msgs.append(f"ref {m['ref']}: {m['old'][:8]} -> {m['new'][:8]}, files xvc does not own differ between the old and the new tip: {m['foreign_paths_changed'][:8]}")
        if not m['old_reachable']:
            msgs.append(f"commit {m['old'][:8]} (tip of {m['ref']} before the command) is not reachable from any ref any more")
    # the branch xvc left behind when asked to switch must not have moved
    if pre['head'][0] == 'branch' and post['head'] != pre['head']:
        r = 'refs/heads/' + pre['head'][1]
        if pre['refs'].get(r) != post['refs'].get(r) and s.get('from_ref'):
            msgs.append(f"ref {r} (left by --from-ref) moved")
    # "The commits xvc creates contain no user file"; history is only extended
    if not base_reached:
        msgs.append(f"HEAD {post['head_sha']} does not descend from the commit xvc started from")
    for c in chain:
        bad = [p for p in c['changed'] if not is_xvc_path(p, pfx)]
        if bad:
            msgs.append(f"commit {c['sha'][:8]} ({c['subject']!r}) contains user files: {bad}")
    # "read-only commands create no commit"
    pending = [p for p in set(pre['wt']) | set(pre['index']) if is_xvc_path(p, pfx) and pre['wt'].get(p) != pre['index'].get(p)]
    if case['readonly'] and not pending and chain:
        msgs.append(f"read-only command created {len(chain)} commit(s): {[c['subject'] for c in chain]}")
    if case['readonly'] and not pending and not s.get('from_ref') and pre['index'] != post['index']:
        msgs.append('read-only command changed the index')
    # settings: no commit unless auto_commit; nothing staged unless auto_commit/auto_stage
    if mode != 'commit' and chain:
        msgs.append(f"git automation is {mode} but {len(chain)} commit(s) were created")
    if mode == 'off':
        if pre['index'] != post['index']:
            msgs.append('git automation is off but the index changed')
        if pre['refs'] != post['refs'] or pre['head'] != post['head']:
            msgs.append('git automation is off but refs/HEAD changed')
    return msgs


# ------------------------------------------------------------------------------------------------
# the tie: model prediction vs real post-state

def short(r):
    return r[len('refs/heads/'):] if r.startswith('refs/heads/') else 'tags/' + r[len('refs/tags/'):]


def model_request(case, pre, post, chain=None):
    shas = sorted(pre['trees'])
    ids = {s: i for i, s in enumerate(shas)}
    pfx = pfx_of(case)
    L = ['reset', f"root {pfx.rstrip('/') or '-'}"]      # the Xvc root inside the Git work tree (model: isXvcPathAt root)
    for s in shas:
        L.append(f'commit {ids[s]} -')
        for p, b in sorted(pre['trees'][s].items()):
            if not is_target(p, pfx):
                L.append(f'tree {ids[s]} {p} {b}')
    for r, s in sorted(pre['refs'].items()):
        if r != 'refs/stash':
            L.append(f'ref {short(r)} {ids[s]}')
    L.append(f"head branch {pre['head'][1]}" if pre['head'][0] == 'branch' else f"head detached {ids[pre['head_sha']]}")
    for p, b in sorted(pre['index'].items()):
        if not is_target(p, pfx):
            L.append(f'index {p} {b}')
    for p, b in sorted(pre['wt'].items()):
        if not is_target(p, pfx):
            L.append(f'wt {p} {b}')
    for i, s in enumerate(pre['stash']):
        L.append(f'stash u{i}')
    mode = git_mode(case)
    st = case['setting']
    cfgd = {c.split('=')[0]: c.split('=')[1] for c in st.get('cfg', [])}
    use_git = cfgd.get('git.use_git', 'true') == 'true'
    ac = cfgd.get('git.auto_commit', 'true') == 'true'
    ag = cfgd.get('git.auto_stage', 'false') == 'true'
    L.append(f"cfg {int(use_git)} {int(ac)} {int(ag)} {int(bool(st.get('skip_git')))} {st.get('to_branch') or '-'} {st.get('from_ref') or '-'} 0")
    hook = 0 if any(o[0] == 'hook_fail' for o in case['ops']) or case.get('commit_cannot_start') else 1
    if case['cmd'][0] == 'init':
        # `xvc init` calls handle_git_automation three times and writes between the calls; the write sets of the
        # phases are read off the trees of the commits it made (user-side predictions stay the model's own)
        cur = {p: b for p, b in pre['wt'].items() if is_xvc_path(p, pfx)}
        phases = []
        for c in reversed(chain or []):
            ch = {p: c['tree'].get(p) for p in c['changed'] if is_xvc_path(p, pfx) and cur.get(p) != c['tree'].get(p)}
            cur.update(ch)
            phases.append(ch)
        rest = {p: post['wt'].get(p) for p in set(cur) | {q for q in post['wt'] if is_xvc_path(q, pfx)} if cur.get(p) != post['wt'].get(p)}
        phases.append(rest)
        while len(phases) < 3:
            phases.append({})
        for ch in phases:
            L.append(f'phase {hook}')
            for p, b in sorted(ch.items()):
                L.append(f"ch {p} {b or '-'}")
    else:
        L.append(f'phase {hook}')
        for p in sorted(set(pre['wt']) | set(post['wt'])):
            if is_xvc_path(p, pfx) and pre['wt'].get(p) != post['wt'].get(p):
                L.append(f"ch {p} {post['wt'].get(p) or '-'}")
        L.append(f'phase {hook}')
    L.append('run')
    return L, ids


def parse_model(ans):
    d = dict(kv.split('=', 1) for kv in ans.split(';'))
    tree = lambda s: dict(e.split('=', 1) for e in s.split(',') if e)
    new = []
    for c in d['new'].split('|'):
        if c:
            par, t = c.split('[', 1)
            new.append({'parent': par, 'tree': tree(t.rstrip(']'))})
    return {'status': d['status'], 'fragment': d['fragment'], 'head': d['head'], 'refs': tree(d['refs']),
            'stash': [x for x in d['stash'].split(',') if x], 'index': tree(d['index']), 'wt': tree(d['wt']), 'new': new}


def real_canon(pre, post, chain, ids, pfx=''):
    ids = dict(ids)
    n = len(ids)
    for k, c in enumerate(reversed(chain)):
        ids[c['sha']] = n + k
    cid = lambda s: str(ids.get(s, 'unknown:' + str(s)[:8]))
    nt = lambda t: {p: b for p, b in t.items() if not is_target(p, pfx)}
    return {
        'head': f"branch:{post['head'][1]}" if post['head'][0] == 'branch' else f"detached:{cid(post['head_sha'])}",
        'refs': {short(r): cid(s) for r, s in post['refs'].items() if r != 'refs/stash'},
        'stash': [f"u{pre['stash'].index(s)}" if s in pre['stash'] else 'xvc' for s in post['stash']],
        'index': nt(post['index']), 'wt': nt(post['wt']),
        'new': [{'parent': cid(c['parent']) if c['parent'] else '-', 'tree': nt(c['tree'])} for c in reversed(chain)],
    }


def tie_diff(model, real):
    out = []
    for k in ('head', 'refs', 'stash', 'index', 'wt', 'new'):
        if model[k] != real[k]:
            if isinstance(model[k], dict):
                d = {p: (model[k].get(p), real[k].get(p)) for p in set(model[k]) | set(real[k]) if model[k].get(p) != real[k].get(p)}
                out.append(f'{k}: (model, real) differ on {d}')
            else:
                out.append(f'{k}: model {model[k]} real {real[k]}')
    return out


# ------------------------------------------------------------------------------------------------
# running one case

def run_case(chk, tmpl, name, case):
    if isinstance(tmpl, dict):
        tmpl = tmpl[template_kind(case)]
    sb = instantiate(chk, tmpl, name)
    pfx = pfx_of(case)
    # the directory the xvc command is typed in: the Xvc root (flat: the Git root; nested: proj/) or a directory below it
    cwd = os.path.normpath(os.path.join(sb.root, pfx, case.get('cwd', '')))
    try:
        # targets of the command (the commands' own data area) and preparatory xvc commands, before the user's state is made
        for rel, data in case.get('files', []):
            sb.write(rel, data)
        for a in case.get('setup', []):
            sb.x(*a, cwd=cwd)
        for rel, data in case.get('files2', []):
            sb.write(rel, data)
        for op in case['ops']:
            op = tuple(op)
            if op[0] == 'edit' and len(op) > 2 and op[2] is None:
                op = ('edit', op[1], (sb.read(op[1]) or b'').decode() + '# a rule the user added\n*.swp\n')
            apply_op(sb, op)
        st = case['setting']
        env = None
        if st.get('via') == 'env':
            env = {'XVC_' + c.split('=')[0]: c.split('=')[1] for c in st.get('cfg', [])}
        elif st.get('via') == 'local':
            # [git] table of the local (git-ignored) configuration file
            body = '\n[git]\n' + ''.join(f"{c.split('=')[0].split('.')[1]} = {c.split('=')[1]}\n" for c in st.get('cfg', []))
            with open(sb.path(pfx + '.xvc/config.local.toml'), 'a') as f:
                f.write(body)
        pre = observe(sb)
        exe = argv0_link(chk, sb.xvc, case['argv0']) if case.get('argv0') else sb.xvc
        cmdline = ' '.join([exe] + argv_of(case)).encode()       # what xvc puts into its commit message (argv joined by spaces)
        rc, out, err = sb.run([exe] + argv_of(case), env=env, cwd=cwd)
        post = observe(sb, known_trees=pre['trees'])       # whatever the exit status was (0, error, 101 = panic, 124 = timeout)
        s = case['setting']
        base = pre['head_sha']
        if s.get('from_ref') and post['head'] == ['branch', s['from_ref']]:
            base = pre['refs'].get('refs/heads/' + s['from_ref'], base)
        known = set(pre['trees']) | set(pre['refs'].values())
        chain, reached = commit_chain(sb, post['head_sha'], known)
        base_reached = (reached == base) or (post['head_sha'] == base)
        refmoves = ref_moves(sb, pre, post, pfx)
        tbk = to_branch_kind(sb, pre, s['to_branch']) if s.get('to_branch') else None
        msgs = oracle(case, pre, post, chain, base_reached, refmoves)
        return {'case': case, 'pre': pre, 'post': post, 'chain': chain, 'oracle': msgs, 'rc': rc, 'refmoves': refmoves, 'to_branch_kind': tbk,
                'stderr': err[-600:], 'stdout': out[-300:], 'cmdline_bytes': len(cmdline), 'argv0': exe,
                'cmdline_multibyte_bytes': sum(1 for b in cmdline if b >= 0x80),
                # is byte 252 of the message (a place where a 256-byte limit would cut) inside a multi-byte character?
                'msg_byte_252': ('beyond-the-end' if len(cmdline) + MSG_PREFIX <= 252 else
                                 'inside-a-character' if (cmdline[252 - MSG_PREFIX] & 0xC0) == 0x80 else 'character-boundary')}
    finally:
        sb.cleanup()


def argv0_link(chk, xvc, name):
    """a symlink <scratch>/l/<name> -> the xvc binary of this run (same directory for all cases: only the name length varies)"""
    d = os.path.join(chk.scratch, 'l')
    os.makedirs(d, exist_ok=True)
    p = os.path.join(d, name)
    try:
        os.symlink(xvc, p)
    except FileExistsError:
        pass
    return p


def run_cases(chk, tmpl, cases, tag):
    with concurrent.futures.ThreadPoolExecutor(max_workers=WORKERS) as ex:
        futs = [ex.submit(run_case, chk, tmpl, f'{tag}-{i}', c) for i, c in enumerate(cases)]
        return [f.result() for f in futs]


def check_tie(chk, model_bin, results, stream):
    """feed every observed (pre, xvc-side writes, settings) to the model driver and diff its prediction with the real post-state"""
    st = chk.tie['streams'].setdefault(stream, {'cases': 0, 'compared': 0, 'outside_fragment': 0, 'disagreements': 0})
    lines, idx = [], []
    for r in results:
        L, ids = model_request(r['case'], r['pre'], r['post'], r['chain'])
        lines += L
        idx.append((len(lines) - 1, ids))
    rc, answers, err = run_lines(model_bin, [], lines)
    bad = []
    if rc != 0 or len(answers) != len(lines):
        chk.disagreement(stream, results[0]['case'] if results else {}, 'n/a', f'model driver rc={rc} answered {len(answers)}/{len(lines)} lines {err[-300:]}', 'process failure')
        return bad
    for r, (k, ids) in zip(results, idx):
        st['cases'] += 1
        m = parse_model(answers[k])
        if m['fragment'] != 'true' or m['status'] == 'outside':
            st['outside_fragment'] += 1
            r['model'] = m
            continue
        real = real_canon(r['pre'], r['post'], r['chain'], ids, pfx_of(r['case']))
        d = tie_diff(m, real)
        st['compared'] += 1
        r['model'], r['real'] = m, real
        if d:
            st['disagreements'] += 1
            bad.append((r, d))
    return bad


def signature(case, msgs):
    kinds = {o[0] for o in case['ops']}
    if kinds & {'mixed_am', 'mixed_mm', 'mixed_dq'}:
        return {'finding': 'path-with-staged-and-unstaged-changes'}
    sig = {'finding': 'other'}
    if any('stash list changed' in m for m in msgs):
        sig = {'finding': 'user-staged-changes-left-in-stash'}
    elif any('contains user files' in m for m in msgs):
        sig = {'finding': 'user-file-in-xvc-commit'}
    elif any('not an ancestor of the new tip' in m or 'not reachable from any ref' in m or 'was deleted' in m for m in msgs):
        sig = {'finding': 'ref-lost-commits'}
    return sig


KNOWN_REPLAYS = [
    # K-C15-mixed: a path with a staged AND an unstaged change defeats the stash sandwich (git itself stops half-way)
    {'ops': [['mixed_am', 'am.txt']], 'cmd': ['file', 'list'], 'readonly': True, 'setting': {}},
    {'ops': [['mixed_mm', 't.txt']], 'cmd': ['file', 'list'], 'readonly': True, 'setting': {}},
    {'ops': [['mixed_mm', 't.txt']], 'cmd': ['file', 'track', 'data/d1.bin'], 'readonly': False, 'setting': {}},
    {'ops': [['mixed_dq', 'del.txt']], 'cmd': ['pipeline', 'list'], 'readonly': True, 'setting': {}},
]

CORPUS = [
    # F4 (fix: C15-F4.patch): read-only command with staged work
    {'ops': [['stage_new', 'new1.txt', 'n\n'], ['stage_mod', 't.txt', 'changed\n'], ['stage_del', 'del.txt']],
     'cmd': ['file', 'list'], 'readonly': True, 'setting': {}},
    # F4 through the second handle_git_automation call of a state-changing command, with a pre-existing stash entry
    {'ops': [['stash', 0], ['stage_new', 'new1.txt', 'n\n']], 'cmd': ['file', 'track', 'data/d1.bin'], 'readonly': False, 'setting': {}},
    # F4 on the `checkout -b` error path (second call: branch exists)
    {'ops': [['stage_new', 'new1.txt', 'n\n']], 'cmd': ['file', 'track', 'data/d1.bin'], 'readonly': False, 'setting': {'to_branch': 'newb'}},
    # F4 on the `git commit` error path
    {'ops': [['stage_new', 'new1.txt', 'n\n'], ['hook_fail']], 'cmd': ['file', 'track', 'data/d1.bin'], 'readonly': False, 'setting': {}},
    # F4 in git_checkout_ref when the ref does not exist
    {'ops': [['stage_mod', 'm.txt', 'changed\n']], 'cmd': ['file', 'list'], 'readonly': True, 'setting': {'from_ref': 'nosuchref'}},
    # F35 (fixed): --from-ref with a value that names a path restored that path from the index
    {'ops': [['edit', 't.txt', 't.txt\nunstaged edit\n']], 'cmd': ['file', 'list'], 'readonly': True, 'setting': {'from_ref': 't.txt'}},
    {'ops': [['edit', 't.txt', 't.txt\nunstaged edit\n'], ['rm', 'm.txt'], ['stage_new', 'new1.txt', 'n\n']], 'cmd': ['file', 'track', 'data/d1.bin'],
     'readonly': False, 'setting': {'from_ref': '.'}},
    # detached HEAD
    {'ops': [['detach'], ['stage_new', 'new1.txt', 'n\n']], 'cmd': ['pipeline', 'new', '--pipeline-name', 'p1'], 'readonly': False, 'setting': {}},
    # pathspec (fix: C15-pathspec.patch): user files whose names end in .gitignore / .xvcignore
    {'ops': [['untracked', 'notes.gitignore', 'u\n'], ['untracked', 'dir/my.xvcignore', 'u\n']], 'cmd': ['file', 'track', 'data/d1.bin'], 'readonly': False, 'setting': {}},
    {'ops': [['edit', 'keep.gitignore', 'edited by the user\n']], 'cmd': ['file', 'list'], 'readonly': True, 'setting': {}},
    {'ops': [['untracked', 'notes.gitignore', 'u\n']], 'cmd': ['file', 'track', 'data/d1.bin'], 'readonly': False,
     'setting': {'cfg': ['git.auto_commit=false', 'git.auto_stage=true']}},
    # ---- nested layout: Git repository at the top, Xvc root in proj/ (appended: the indices above are referred to elsewhere)
    # seeded C15-1, minimised: ONE staged file, outside the Xvc root; any state-changing command
    {'layout': 'nested', 'cwd': '', 'ops': [['stage_new', 'notes.txt', 'user notes\n']], 'cmd': ['file', 'track', 'data/d1.bin'],
     'readonly': False, 'setting': {}},
    # seeded C15-1 as demonstrated: staged M + A + D all outside proj/, an untracked file
    {'layout': 'nested', 'cwd': '', 'ops': [['stage_mod', 'm.txt', 'more text\n'], ['stage_new', 'notes.txt', 'user notes\n'], ['stage_del', 'del.txt'],
                                          ['untracked', 'scratch.txt', 'unstaged\n']],
     'cmd': ['file', 'track', 'data/d1.bin'], 'readonly': False, 'setting': {}},
    # control: staged files inside AND outside
    {'layout': 'nested', 'cwd': '', 'ops': [['stage_new', 'proj/inside.txt', 'c\n'], ['stage_new', 'outside.txt', 'c\n']],
     'cmd': ['file', 'track', 'data/d1.bin'], 'readonly': False, 'setting': {}},
    # all staged outside, command typed in a directory below the Xvc root; read-only command; detached HEAD; --to-branch
    {'layout': 'nested', 'cwd': 'data', 'ops': [['stage_mod', 't.txt', 'changed\n'], ['stage_del', 'dir/a.txt']], 'cmd': ['file', 'track', 'd1.bin'],
     'readonly': False, 'setting': {}},
    {'layout': 'nested', 'cwd': 'data', 'ops': [['stage_new', 'new1.txt', 'n\n'], ['stage_del', 'del.txt']], 'cmd': ['file', 'list'], 'readonly': True, 'setting': {}},
    {'layout': 'nested', 'cwd': '', 'ops': [['detach'], ['stage_new', 'new1.txt', 'n\n']], 'cmd': ['pipeline', 'new', '--pipeline-name', 'p1'],
     'readonly': False, 'setting': {}},
    {'layout': 'nested', 'cwd': '', 'ops': [['stash', 0], ['stage_new', 'new1.txt', 'n\n']], 'cmd': ['file', 'track', 'data/d1.bin'], 'readonly': False,
     'setting': {'to_branch': 'newb'}},
    # ignore files outside the Xvc root are user files: unstaged edit, untracked .gitignore/.xvcignore, look-alikes on both sides
    {'layout': 'nested', 'cwd': '', 'ops': [['edit', '.gitignore', '# user rules\n*.tmp\n*.bak\n'], ['untracked', 'newdir/.gitignore', '*.cache\n'],
                                          ['untracked', 'dir/.xvcignore', '*.skip\n'], ['untracked', 'proj/notes.gitignore', 'u\n']],
     'cmd': ['file', 'track', 'data/d1.bin'], 'readonly': False, 'setting': {}},
    {'layout': 'nested', 'cwd': '', 'ops': [['edit', '.gitignore', '# user rules\n*.tmp\n*.bak\n'], ['untracked', 'newdir/.gitignore', '*.cache\n']],
     'cmd': ['file', 'track', 'data/d1.bin'], 'readonly': False, 'setting': {'cfg': ['git.auto_commit=false', 'git.auto_stage=true']}},
    # ---- --to-branch naming a branch that EXISTS (git refuses `checkout -b`; every ref must keep its value)
    # seeded C15-3, minimised: `side` is ahead of HEAD by a user commit; no user state needed, any command (also read-only)
    {'ops': [], 'cmd': ['file', 'track', 'data/d1.bin'], 'readonly': False, 'setting': {'to_branch': 'side'}},
    {'ops': [], 'cmd': ['file', 'list'], 'readonly': True, 'setting': {'to_branch': 'side'}},
    # diverged target with staged user work; target behind HEAD (user on side); target = current branch; target at HEAD
    {'ops': [['stage_new', 'new1.txt', 'n\n']], 'cmd': ['pipeline', 'new', '--pipeline-name', 'p1'], 'readonly': False, 'setting': {'to_branch': 'div'}},
    {'ops': [['branch', 'side']], 'cmd': ['file', 'track', 'data/d1.bin'], 'readonly': False, 'setting': {'to_branch': 'main'}},
    {'ops': [['stage_mod', 't.txt', 'changed\n']], 'cmd': ['file', 'track', 'data/d1.bin'], 'readonly': False, 'setting': {'to_branch': 'main'}},
    {'ops': [['detach']], 'cmd': ['file', 'track', 'data/d1.bin'], 'readonly': False, 'setting': {'to_branch': 'behind'}},
    {'layout': 'nested', 'cwd': '', 'ops': [['stage_new', 'notes.txt', 'user notes\n']], 'cmd': ['file', 'track', 'data/d1.bin'], 'readonly': False,
     'setting': {'to_branch': 'div'}},
    {'layout': 'nested', 'cwd': 'data', 'ops': [], 'cmd': ['file', 'track', 'd1.bin'], 'readonly': False, 'setting': {'to_branch': 'side'}},
    # ---- long command lines with multi-byte characters (seeded C15-4: a panic while the commit message is built, i.e. between
    # `stash push --staged` and `stash pop --index`, leaves the user's staged work in the stash). As demonstrated: one user
    # stash entry, a staged modification, a staged new file, an untracked file; `file track` of a name of 80 three-byte
    # characters, in the three alignments
    *[longcmd_case('flat', [['stash', 0], ['stage_mod', 't.txt', 'v2\n'], ['stage_new', 'staged-new.txt', 'new\n'], ['untracked', 'untracked1.txt', 'scratch\n']],
                   'track', pad, 'デ', 'xvc') for pad in (0, 1, 2)],
    # minimised: one staged new file
    *[longcmd_case('flat', [['stage_new', 'staged-new.txt', 'new\n']], 'track', pad, 'デ', 'x') for pad in (0, 1, 2)],
    # 4-byte and 2-byte characters, several targets (> 1024, > 4096 bytes), other commands, nested layout
    longcmd_case('flat', [['stage_new', 'staged-new.txt', 'new\n']], 'track', 1, '😀', 'xv'),
    longcmd_case('flat', [['stage_del', 'del.txt']], 'track', 0, 'é', 'xvc_'),
    longcmd_case('flat', [['stash', 0], ['stage_mod', 'm.txt', 'v2\n']], 'track', 2, '漢', 'xvc', ntargets=5),
    longcmd_case('flat', [['stage_new', 'staged-new.txt', 'new\n']], 'track', 0, 'デ😀é', 'xv', ntargets=20),
    # > 128 KiB: `git commit` cannot be started at all (E2BIG); an Err inside the sandwich, the stash must still be popped
    longcmd_case('flat', [['stash', 0], ['stage_new', 'staged-new.txt', 'new\n'], ['stage_mod', 't.txt', 'v2\n']], 'track-deep', 0, 'デ', 'xvc', ntargets=40),
    longcmd_case('flat', [['stage_new', 'staged-new.txt', 'new\n'], ['detach']], 'copy', 1, 'デ', 'xvc'),
    longcmd_case('flat', [['stage_mod', 't.txt', 'v2\n']], 'carry-in', 2, 'デ', 'x'),
    longcmd_case('flat', [['stage_new', 'staged-new.txt', 'new\n']], 'step-new', 0, '漢', 'xvc'),
    longcmd_case('nested', [['stage_new', 'notes.txt', 'user notes\n'], ['stage_mod', 'proj/in_m.txt', 'v2\n']], 'track', 1, 'デ', 'xv'),
    # `xvc init` in proj/ with staged work outside it (three handle_git_automation calls)
    {'layout': 'nested', 'cwd': '', 'ops': [['stage_new', 'notes.txt', 'user notes\n'], ['stage_mod', 'm.txt', 'more text\n']], 'cmd': ['init'],
     'readonly': False, 'setting': {}},
]


def describe(r):
    c = r['case']
    where = {} if c.get('layout') != 'nested' else {
        'layout': f"git repository at the top, Xvc root in {NESTED}; command typed in {os.path.join(NESTED, c.get('cwd', ''))}; paths of the ops are relative to the git root",
        'staged_changes_relative_to_xvc_root': staged_where(c['ops'])}
    return {**where, 'user_state_ops': r['case']['ops'], 'command': 'xvc ' + ' '.join(argv_of(r['case'])),
            'git_status_before': r['pre']['status'], 'git_status_after': r['post']['status'],
            'stash_before': len(r['pre']['stash']), 'stash_after': len(r['post']['stash']),
            'new_commits': [{'subject': c['subject'], 'changed': c['changed']} for c in r['chain']],
            'refs_before': {k: v[:10] for k, v in r['pre']['refs'].items()}, 'refs_after': {k: v[:10] for k, v in r['post']['refs'].items()},
            'head_before': r['pre']['head'], 'head_after': r['post']['head'],
            'ref_moves': r.get('refmoves'), 'to_branch_target_was': r.get('to_branch_kind'),
            'argv0': r.get('argv0'), 'command_line_bytes': r.get('cmdline_bytes'), 'command_line_bytes_in_multibyte_characters': r.get('cmdline_multibyte_bytes'),
            'byte_252_of_the_commit_message_is': r.get('msg_byte_252'),
            'xvc_rc': r['rc'], 'xvc_stderr': r['stderr'], 'oracle': r['oracle']}


def minimise(chk, tmpl, r, failing):
    """shrink the user-state op list while `failing(result)` holds"""
    case = r['case']
    n = [0]

    def fails(ops):
        n[0] += 1
        c = dict(case, ops=ops)
        return failing(run_case(chk, tmpl, f'shrink-{n[0]}', c))
    ops = case['ops']
    if len(ops) > 1:
        ops = shrink(ops, fails, max_steps=40)
    c = dict(case, ops=ops)
    # several targets on the command line: keep as few as still fail
    if len(c.get('targets', [])) > 1 and c.get('cmd') == c.get('cmd_head', []) + c['targets']:
        def fails_t(ts):
            n[0] += 1
            return failing(run_case(chk, tmpl, f'shrink-{n[0]}', dict(c, targets=ts, cmd=c['cmd_head'] + ts)))
        ts = shrink(c['targets'], fails_t, max_steps=30)
        c = dict(c, targets=ts, cmd=c['cmd_head'] + ts)
    return run_case(chk, tmpl, 'shrunk', c)


def private_copy(chk, xvc):
    """The binary just built, copied into the scratch directory of this run: several checks run at the same time and each
    of them runs `cargo build` in the same tree, which replaces target/debug/xvc (for a moment the file does not exist,
    and after a transient edit of the tree by somebody else it is another program). One run = one binary."""
    try:
        d = os.path.join(chk.scratch, 'bin')
        os.makedirs(d, exist_ok=True)
        dst = os.path.join(d, 'xvc')
        shutil.copy2(xvc, dst)
        return dst
    except OSError:
        return xvc


def run(chk: Check):
    quick = chk.tier == 'quick'
    model = chk.lean('XvcGit', 'XvcGit.Props', exe='gitmodel', extra_modules=['XvcGit.Model', 'XvcGit.Lemmas'])
    xvc = private_copy(chk, chk.build_xvc())
    chk.trusted_base += [
        'git (the real binary, version recorded in evidence) — its behaviour is an ASSUMED model in Lean (stashPushStaged, stashPopIndex, gitAdd, gitCommit, checkoutNewBranch, gitCheckout on the conflict-free fragment), validated differentially on every run',
        'lib/c15.py: state generator, abstraction of a real repository (git ls-files/ls-tree/for-each-ref/stash list + hashing of work-tree files), oracle, diff',
        'lib/xvcbin.py Sandbox (scratch repositories, own HOME, fixed identity)',
    ]
    chk.assumptions += [
        'fragment NoMixed: no path carries a staged and an unstaged change at the same time (outside it git stops half-way; judged by the oracle only, K-C15-mixed)',
        'each pathspec of `git add` matches at least one file (xvc init creates .gitignore and .xvcignore)',
        'ignored files are invisible to the modelled git commands (abstraction: work tree = tracked + untracked-not-ignored files)',
        'the data area `data/` of the scratch repositories (the commands\' own targets) is not user state',
        'a user\'s pending edit of a file NAMED .gitignore/.xvcignore may be swept into an xvc commit (first sentence of the property); such states do not count for "read-only commands create no commit"',
        'nested layout: the Xvc root is a subdirectory of the Git work tree; files outside it named .gitignore/.xvcignore are user files (xvc neither writes nor may stage them); one subdirectory depth (proj/) is executed, the theorems hold for every root path',
    ]
    chk.extra['git_version'] = os.popen('git --version').read().strip()
    tmpl = build_templates(chk, xvc)
    ncases = 260 if quick else 2200
    ninit = 25 if quick else 250
    nnested = 150 if quick else 1300
    nnested_init = 14 if quick else 140
    ntb, ntb_nested = (44, 22) if quick else (400, 200)
    nlong, nlong_nested = (48, 14) if quick else (420, 120)
    chk.extra['rule'] = (f'corpus ({len(CORPUS)} fixed cases: F4 on its four exit paths, detached HEAD, pathspec) + {len(KNOWN_REPLAYS)} known-finding replays (oracle only) + '
                         f'{ncases} generated cases (+ {ninit} `xvc init` cases in a plain git repository, three handle_git_automation calls) = random user state (pre-existing stash entries 0-2, detached HEAD / other branch, staged new/modified/deleted files, unstaged edits and deletions, '
                         'untracked files, user files named *.gitignore/*.xvcignore, user edits of real ignore files, rejecting pre-commit hook) x one of '
                         f'{len(RO_CMDS)} read-only or {len(MUT_CMDS)} state-changing xvc commands x one of {len(SETTINGS)} settings (default, auto_stage, automation off, use_git=false given with -c, through XVC_ environment variables or in .xvc/config.local.toml, --skip-git, '
                         '--to-branch new/existing, --from-ref same-tree/other-tree/missing). Every case: real repository, oracle on before/after observations, model prediction diffed with the real post-state. '
                         'Non-trivial = the user state has at least one staged or unstaged change or stash entry; distinct by (ops, command, setting). '
                         f'NESTED LAYOUT (git repository at the top, `xvc init` in the subdirectory {NESTED}, user files inside and outside it, the user\'s own .gitignore/.xvcignore files outside it are user files): '
                         f'{sum(1 for c in CORPUS if c.get("layout") == "nested")} of the corpus cases (seeded C15-1 minimised and as demonstrated first) + {nnested} generated cases (commands typed in {NESTED} or {NESTED}data/; '
                         'staged changes all outside / all inside / on both sides of the Xvc root / none, see generator_distribution nested:staged=*) '
                         f'+ {nnested_init} `xvc init` cases run in {NESTED} of a plain git repository; same oracle evaluated at the top of the git work tree, model run with `root proj`. '
                         f'--TO-BRANCH STREAM: every template carries branches other (at main\'s tip), behind (ancestor), side (ahead by a user commit), div (diverged, own commit touching user files); '
                         f'{ntb} flat + {ntb_nested} nested generated cases with --to-branch drawn from {{new name, other, behind, side, div, the current branch}}, the user on main/other/side/detached '
                         '(relation of the target to HEAD counted from the observation: to_branch_targets); oracle ref clause: every pre-existing ref is unchanged or fast-forwarded by commits that touch only xvc paths, no old tip becomes unreachable. '
                         f'LONG-COMMAND-LINE STREAM: {sum(1 for c in CORPUS if c.get("stream") == "long-cmdline")} corpus cases (seeded C15-4 as demonstrated and minimised, three alignments) + {nlong} flat + {nlong_nested} nested generated cases: '
                         'a user state that HAS staged changes (half of them with stash entries of the user\'s own) x a state-changing command (file track of 1/2/5/20 targets, copy, move, carry-in, pipeline step new, pipeline new, storage new) whose arguments are '
                         '0-2 ASCII bytes + ~240 bytes of 2-, 3-, 4-byte or mixed UTF-8 characters (command lines > 256, > 1024, > 4096 bytes), xvc called through a symlink named x / xv / xvc / xvc_ (argv[0] is part of the commit message, '
                         'its length shifts every character); the oracle is evaluated whatever the exit status of xvc is (xvc_exit_status:* incl. 101 = panic); see long_command_lines.')
    # the flat streams first (unchanged for a given seed), then the nested ones
    cases = list(CORPUS) + [gen_case(chk.rng, chk) for _ in range(ncases)] + [gen_init_case(chk.rng, chk) for _ in range(ninit)]
    cases += [gen_case_nested(chk.rng, chk) for _ in range(nnested)] + [gen_init_case_nested(chk.rng, chk) for _ in range(nnested_init)]
    # then the --to-branch stream
    cases += [gen_case_tobranch(chk.rng, chk, False) for _ in range(ntb)] + [gen_case_tobranch(chk.rng, chk, True) for _ in range(ntb_nested)]
    # then the long-command-line stream
    cases += [gen_case_longcmd(chk.rng, chk, False) for _ in range(nlong)] + [gen_case_longcmd(chk.rng, chk, True) for _ in range(nlong_nested)]
    for c in CORPUS:
        if c.get('layout') == 'nested':
            chk.count('layout:nested')
            chk.count('nested:staged=' + staged_where(c['ops']))
    results = run_cases(chk, tmpl, cases, 'case')
    have_model = os.path.exists(model)
    if not have_model:
        chk.notes.append('model driver did not build; only the implementation-side oracle ran')
    first_oracle = {}
    for r in results:
        chk.evaluations += 1
        c = r['case']
        if any(o[0] in ('stage_new', 'stage_mod', 'stage_del', 'edit', 'rm', 'stash') for o in c['ops']):
            chk.nontrivial.add(hashlib.sha1(json.dumps(c, sort_keys=True).encode()).hexdigest())
        chk.count('commits_created:' + str(len(r['chain'])))
        chk.count('git_mode:' + git_mode(c))
        chk.count('xvc_exit_status:' + str(r['rc']) + (' (panic)' if r['rc'] == 101 else ''))
        if c.get('stream') == 'long-cmdline':
            n = r['cmdline_bytes']
            chk.count('longcmd:command_line_bytes' + ('>131072' if n > 131072 else '>4096' if n > 4096 else '>1024' if n > 1024 else '>256' if n > 256 else '<=256'))
            chk.count('longcmd:byte_252_of_message=' + r['msg_byte_252'])
            chk.count('longcmd:commits_created:' + str(len(r['chain'])))
            chk.count('longcmd:xvc_exit_status:' + str(r['rc']))
            if r['pre']['stash']:
                chk.count('longcmd:user_has_own_stash_entries')
        if r.get('to_branch_kind'):
            chk.count('to_branch_target:' + r['to_branch_kind'] + (':git-automation-' + git_mode(c) if git_mode(c) != 'commit' else ''))
        if r.get('refmoves'):
            chk.count('refs_moved_per_command:' + str(len(r['refmoves'])))
        if c.get('layout') == 'nested':
            chk.count('nested:commits_created:' + str(len(r['chain'])))
            if staged_where(c['ops']) == 'all-outside' and r['chain'] and git_mode(c) == 'commit':
                chk.count('nested:all-staged-outside-and-xvc-committed')       # the situation of seeded C15-1
        if r['oracle']:
            first_oracle.setdefault(signature(c, r['oracle'])['finding'], r)
        if len(chk.samples) < 6 and r['chain'] and r['pre']['cached'] and chk.evaluations % 5 == 0:
            chk.samples.append(describe(r))
    chk.tie['streams']['oracle'] = {'cases': len(results), 'failing': sum(1 for r in results if r['oracle']),
                                    'nested_cases': sum(1 for r in results if r['case'].get('layout') == 'nested'),
                                    'nested_failing': sum(1 for r in results if r['case'].get('layout') == 'nested' and r['oracle'])}
    chk.extra['long_command_lines'] = {k[len('longcmd:'):]: v for k, v in sorted(chk.distribution.items()) if k.startswith('longcmd:')}
    chk.extra['to_branch_targets'] = {k[len('to_branch_target:'):]: v for k, v in sorted(chk.distribution.items()) if k.startswith('to_branch_target:')}
    chk.extra['nested_layout'] = {k[len('nested:'):]: v for k, v in sorted(chk.distribution.items())
                                  if k.startswith('nested:staged=') or k.startswith('nested:cwd=') or k.startswith('nested:commits_created')
                                  or k == 'nested:all-staged-outside-and-xvc-committed'}
    for kind, r in first_oracle.items():
        small = minimise(chk, tmpl, r, lambda x, k=kind: bool(x['oracle']) and signature(x['case'], x['oracle'])['finding'] == k)
        if not small['oracle']:
            small = r
        chk.oracle_failure(small['oracle'][0], small['case'], describe(small), signature=signature(small['case'], small['oracle']))
    # tie
    if have_model:
        bad = check_tie(chk, model, [r for r in results if not r['oracle'] and r['case'].get('layout') != 'nested'], 'generated')
        bad += check_tie(chk, model, [r for r in results if not r['oracle'] and r['case'].get('layout') == 'nested'], 'nested')
        seen = set()
        for r, d in bad:
            key = (r['case'].get('layout', 'flat'), d[0].split(':')[0])
            if key in seen:
                continue
            seen.add(key)

            def differs(x):
                if x['oracle']:
                    return False
                b = check_tie(chk, model, [x], 'shrink')
                return bool(b)
            small = minimise(chk, tmpl, r, differs)
            b = check_tie(chk, model, [small], 'shrink')
            if not b:
                small, dd = r, d
            else:
                dd = b[0][1]
            chk.disagreement('nested' if small['case'].get('layout') == 'nested' else 'generated', small['case'], small.get('real'), small.get('model'), '; '.join(dd)[:1500])
        chk.tie['streams'].pop('shrink', None)
    # known-finding replays: judged by the oracle alone
    kres = run_cases(chk, tmpl, KNOWN_REPLAYS, 'known')
    for r in kres:
        chk.evaluations += 1
        chk.count('known_replay:' + r['case']['ops'][0][0])
        if r['oracle']:
            chk.oracle_failure(r['oracle'][0], r['case'], describe(r), signature=signature(r['case'], r['oracle']))
    chk.tie['streams']['known_replays'] = {'cases': len(kres), 'failing': sum(1 for r in kres if r['oracle'])}
    for t in tmpl.values():
        t.cleanup()
    return chk.finish()


def replay(chk: Check, data):
    xvc = private_copy(chk, chk.build_xvc())
    tmpl = build_templates(chk, xvc, {template_kind(f['case']) for f in data.get('failures', [])})
    for i, f in enumerate(data.get('failures', [])):
        r = run_case(chk, tmpl, f'replay-{i}', f['case'])
        chk.evaluations += 1
        print(json.dumps(describe(r), indent=1))
        print('oracle:', r['oracle'] or 'property holds on this input')
        if r['oracle']:
            chk.oracle_failure(r['oracle'][0], r['case'], describe(r), signature=signature(r['case'], r['oracle']))
    for t in tmpl.values():
        t.cleanup()
    return chk.finish()
