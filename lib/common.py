"""Shared machinery of the xvc verification checks (python3 stdlib only).

Stages of one check (DESIGN.md 2.4):
  S0 translator (if the property has generated model parts)
  S1 lake build of the property's Lean package + audit (sorry/axioms/#print axioms)
  S2 cargo build of the harness / xvc binary from /repo's working tree
  S3 correspondence: implementation || model on generated cases, diff
  S4 property oracle on the implementation's own observations
  S5 verdict + evidence/<id>.json (+ replays/<id>-*.json on violation)
"""
import json, os, random, re, shutil, subprocess, sys, tempfile, time, hashlib

VERIF = os.path.dirname(os.path.dirname(os.path.abspath(__file__)))
REPO = os.environ.get('VERIF_REPO', '/repo')   # checks always use /repo; VERIF_REPO lets a developer point them at a scratch worktree
LEAN_DIR = os.path.join(VERIF, 'lean')
ALLOWED_AXIOMS = {'propext', 'Classical.choice', 'Quot.sound'}
FORBIDDEN = re.compile(r'\b(sorry|admit|native_decide|bv_decide|implemented_by|unsafe)\b|^\s*axiom\s|maxHeartbeats\s+0')

ENV = dict(os.environ)
ENV.update({'RUSTUP_TOOLCHAIN': '1.96.0', 'CARGO_NET_OFFLINE': 'true', 'RUST_BACKTRACE': '0',
            'GOPROXY': 'off', 'PIP_NO_INDEX': '1'})


def sh(cmd, cwd=None, env=None, timeout=None, input=None):
    e = dict(ENV)
    if env:
        e.update(env)
    p = subprocess.run(cmd, cwd=cwd, env=e, timeout=timeout, input=input,
                       stdout=subprocess.PIPE, stderr=subprocess.STDOUT, text=True)
    return p.returncode, p.stdout


def strip_lean_comments(src):
    """remove /- ... -/ (nested) and -- comments, and string literals are left alone (none contain keywords)"""
    out = []
    i, depth, n = 0, 0, len(src)
    while i < n:
        if src.startswith('/-', i):
            depth += 1; i += 2; continue
        if depth and src.startswith('-/', i):
            depth -= 1; i += 2; continue
        if depth:
            if src[i] == '\n':
                out.append('\n')
            i += 1; continue
        if src.startswith('--', i):
            while i < n and src[i] != '\n':
                i += 1
            continue
        out.append(src[i]); i += 1
    return ''.join(out)


class Check:
    def __init__(self, pid, tier, seed, design_ref=''):
        self.pid, self.tier, self.seed = pid, tier, seed
        self.t0 = time.time()
        self.rng = random.Random(seed * 1000003 + int(pid[1:]))
        self.scratch = tempfile.mkdtemp(prefix=f'xvcv.{pid}.')
        self.proof = {'obligations': 0, 'discharged': 0, 'theorems': [], 'axioms': {}, 'broken': [],
                      'checker_cmd': '', 'packages': []}
        self.tie = {'streams': {}, 'disagreements': []}
        self.oracle_failures = []      # implementation vs property (each: dict with 'what','case','finding'?)
        self.known_hits = []
        self.samples = []
        self.distribution = {}
        self.assumptions = []
        self.trusted_base = [
            'Lean 4.33.0 kernel (lake build; leanchecker re-check in the thorough tier)',
            'axioms allowed in property theorems: propext, Classical.choice, Quot.sound (checked from #print axioms on every run)',
            'no sorry/admit/native_decide/bv_decide/implemented_by/unsafe/own axioms (grep audit of the Lean sources on every run)',
        ]
        self.extra = {}
        self.notes = []
        self.evaluations = 0
        self.nontrivial = set()
        self.known_findings = [f for f in json.load(open(os.path.join(VERIF, 'known_findings.json')))['findings']
                               if f['property'] == pid]

    # ---------------------------------------------------------------- S1
    def lean(self, pkg, props_module, exe=None, extra_modules=(), build_targets=None):
        """Build package `pkg`, re-elaborate the property file to collect `#print axioms`, audit sources.
        build_targets: lake targets to build instead of the whole package (e.g. the property module of THIS check, when
        several checks share one package and another one's modules are being worked on)."""
        pdir = os.path.join(LEAN_DIR, pkg)
        targets = (list(build_targets) if build_targets else [pkg]) + ([exe] if exe else [])
        t = time.time()
        rc, out = sh(['lake', 'build'] + targets, cwd=pdir, timeout=3000)
        self.proof['packages'].append(pkg)
        self.proof['checker_cmd'] = (self.proof['checker_cmd'] + ' ; ' if self.proof['checker_cmd'] else '') + \
            f'(cd lean/{pkg} && lake build {" ".join(targets)} && lake env lean {props_module.replace(".", "/")}.lean)'
        broken = []
        if rc != 0:
            errs = re.findall(r'error: (\S+\.lean):(\d+):\d+: (.*)', out)
            broken.append({'stage': 'lake build', 'errors': [f'{f}:{l}: {m}' for f, l, m in errs][:20],
                           'log_tail': out[-3000:]})
        # property file: statements, axioms
        pfile = os.path.join(pdir, props_module.replace('.', '/') + '.lean')
        src = open(pfile).read()
        code = strip_lean_comments(src)
        thms = re.findall(r'^\s*(?:theorem|lemma)\s+([A-Za-z0-9_\.\']+)', code, re.M)
        examples = len(re.findall(r'^\s*example\b', code, re.M))
        rc2, out2 = sh(['lake', 'env', 'lean', pfile], cwd=pdir, timeout=3000)
        axioms = {}
        for m in re.finditer(r"'([^']+)' depends on axioms: \[([^\]]*)\]", out2.replace('\n ', ' ')):
            axioms[m.group(1).split('.')[-1] if False else m.group(1)] = [a.strip() for a in m.group(2).split(',') if a.strip()]
        for m in re.finditer(r"'([^']+)' does not depend on any axioms", out2):
            axioms[m.group(1)] = []
        if rc2 != 0 and rc == 0:
            errs = re.findall(r'(\S+\.lean):(\d+):\d+: error: (.*)', out2)
            broken.append({'stage': 'lean Props', 'errors': [f'{f}:{l}: {m}' for f, l, m in errs][:20], 'log_tail': out2[-3000:]})
        # which theorems failed: map error lines to the theorem whose statement precedes them
        failed_thms = set()
        if broken:
            for b in broken:
                for e in b['errors']:
                    mm = re.match(r'(\S+\.lean):(\d+):', e)
                    if mm:
                        failed_thms.add(self._thm_at(os.path.join(pdir, mm.group(1)) if not mm.group(1).startswith('/') else mm.group(1), int(mm.group(2))))
        bad_axioms = {t: [a for a in ax if a not in ALLOWED_AXIOMS] for t, ax in axioms.items()}
        bad_axioms = {t: a for t, a in bad_axioms.items() if a}
        if bad_axioms:
            broken.append({'stage': 'axiom audit', 'errors': [f'{t}: {a}' for t, a in bad_axioms.items()]})
        # every property theorem must have been printed
        short = {k.split('.')[-1] for k in axioms} | set(axioms)
        main_thms = [t for t in thms if re.match(r'C\d\d', t.split('.')[-1])]
        missing = [t for t in main_thms if t not in short and t.split('.')[-1] not in short]
        if missing and not broken:
            broken.append({'stage': 'axiom audit', 'errors': [f'no #print axioms output for {t}' for t in missing]})
        # source audit
        hits = []
        for root, _, files in os.walk(pdir):
            if '.lake' in root:
                continue
            for f in files:
                if f.endswith('.lean'):
                    c = strip_lean_comments(open(os.path.join(root, f)).read())
                    for ln, line in enumerate(c.split('\n'), 1):
                        if FORBIDDEN.search(line):
                            hits.append(f'{os.path.relpath(os.path.join(root, f), VERIF)}:{ln}: {line.strip()[:120]}')
        if hits:
            broken.append({'stage': 'source audit', 'errors': hits[:20]})
        if self.tier == 'thorough' and not broken:
            mods = [props_module] + list(extra_modules)
            rc3, out3 = sh(['lake', 'env', 'leanchecker'] + mods, cwd=pdir, timeout=3000)
            self.proof['checker_cmd'] += f' ; (cd lean/{pkg} && lake env leanchecker {" ".join(mods)})'
            if rc3 != 0:
                broken.append({'stage': 'leanchecker', 'errors': [out3[-1500:]]})
        n = len(thms) + examples
        self.proof['obligations'] += n
        nfailed = len([t for t in failed_thms if t]) if broken else 0
        self.proof['discharged'] += (n - max(nfailed, 1)) if broken else n
        self.proof['theorems'] += thms
        self.proof['axioms'].update(axioms)
        for b in broken:
            b['package'] = pkg
            b['theorems'] = sorted(t for t in failed_thms if t)
        self.proof['broken'] += broken
        self.proof.setdefault('build_s', 0)
        self.proof['build_s'] += round(time.time() - t, 1)
        if exe:
            return os.path.join(pdir, '.lake', 'build', 'bin', exe)

    def _thm_at(self, path, line):
        try:
            lines = open(path).read().split('\n')
        except OSError:
            return None
        for i in range(min(line, len(lines)) - 1, -1, -1):
            m = re.match(r'\s*(?:theorem|lemma|example|def|instance)\s*([A-Za-z0-9_\.\']*)', lines[i])
            if m:
                return (m.group(1) or f'example@{i+1}') + f' ({os.path.basename(path)})'
        return None

    # ---------------------------------------------------------------- S2
    def build_harness(self, bins=None, fatal=True):
        """fatal=False: a failing build is recorded as a broken tie (proof['broken']) and None is returned, so that the caller
        can go on with the streams that do not need the in-process harness (the verdict logic of finish() is unchanged)"""
        hdir = os.path.join(VERIF, 'harness')
        tdir = os.path.join(VERIF, 'target', 'harness')
        if REPO != '/repo':
            # developer mode: a copy of the harness crate whose path dependencies point at the scratch worktree
            tag = hashlib.sha1(REPO.encode()).hexdigest()[:10]
            alt = os.path.join(VERIF, 'target', 'harness-alt', tag)
            os.makedirs(alt, exist_ok=True)
            shutil.copytree(os.path.join(hdir, 'src'), os.path.join(alt, 'src'), dirs_exist_ok=True)
            open(os.path.join(alt, 'Cargo.toml'), 'w').write(open(os.path.join(hdir, 'Cargo.toml')).read().replace('"/repo/', f'"{REPO}/'))
            shutil.copy(os.path.join(REPO, 'Cargo.lock'), os.path.join(alt, 'Cargo.lock'))
            os.makedirs(os.path.join(alt, '.cargo'), exist_ok=True)
            tdir = os.path.join(alt, 'target')
            open(os.path.join(alt, '.cargo', 'config.toml'), 'w').write(f'[net]\noffline = true\n[build]\ntarget-dir = "{tdir}"\n')
            hdir = alt
        rc, out = sh(['cargo', 'build', '--offline'] + (sum([['--bin', b] for b in bins], []) if bins else []),
                     cwd=hdir, timeout=3000)
        if rc != 0:
            if not fatal:
                self.proof['broken'].append({'stage': 'build', 'errors': ['harness build failed (the in-process tie cannot be checked)'],
                                             'log_tail': out[-4000:]})
                return None
            self.fatal('harness build failed (the tie cannot be checked)', out[-4000:])
        return os.path.join(tdir, 'debug')

    def build_xvc(self, features=None):
        """Build the xvc binary from /repo's working tree. Hook builds go to /verif/target/hooks."""
        cmd = ['cargo', 'build', '--offline', '-p', 'xvc', '--bin', 'xvc']
        env = {}
        tdir = os.path.join(REPO, 'target')
        if features:
            cmd += ['--features', features]
            tdir = os.path.join(VERIF, 'target', 'hooks')
            env['CARGO_TARGET_DIR'] = tdir
        rc, out = sh(cmd, cwd=REPO, env=env, timeout=6000)
        if rc != 0:
            self.fatal('xvc build failed', out[-4000:])
        return os.path.join(tdir, 'debug', 'xvc')

    def fatal(self, what, log):
        """Infrastructure failure: the property is no longer shown to hold."""
        self.proof['broken'].append({'stage': 'build', 'errors': [what], 'log_tail': log})
        code = self.finish()
        sys.exit(code)

    # ---------------------------------------------------------------- S3/S4 bookkeeping
    def count(self, key, n=1):
        self.distribution[key] = self.distribution.get(key, 0) + n

    def disagreement(self, stream, case, impl, model, note=''):
        self.tie['disagreements'].append({'stream': stream, 'case': case, 'implementation': impl, 'model': model, 'note': note})

    def oracle_failure(self, what, case, detail=None, signature=None):
        """signature: a dict of decidable facts about the minimised failing input, matched against known findings."""
        sig = signature or {}
        for f in self.known_findings:
            if f.get('status') == 'open' and f.get('match') and all(sig.get(k) == v for k, v in f['match'].items()):
                if f['id'] not in [k['id'] for k in self.known_hits]:
                    self.known_hits.append({'id': f['id'], 'what': f['what'], 'case': case, 'detail': detail})
                return
        self.oracle_failures.append({'what': what, 'case': case, 'detail': detail, 'signature': sig})

    # ---------------------------------------------------------------- S5
    def finish(self):
        wall = round(time.time() - self.t0, 2)
        violations = []
        os.makedirs(os.path.join(VERIF, 'replays'), exist_ok=True)
        os.makedirs(os.path.join(VERIF, 'evidence'), exist_ok=True)

        import glob
        replaying = getattr(self, 'replay_mode', False)       # `./check Cnn --replay F`: F stays, evidence is not rewritten
        if not replaying:
            for old in glob.glob(os.path.join(VERIF, 'replays', f'{self.pid}-{self.tier}-seed{self.seed}-*.json')):
                os.unlink(old)

        def write_replay(kind, body):
            path = os.path.join('replays', f"{self.pid}-{'replayed' if replaying else self.tier}-seed{self.seed}-{kind}.json")
            json.dump(dict(property=self.pid, seed=self.seed, tier=self.tier, kind=kind, **body),
                      open(os.path.join(VERIF, path), 'w'), indent=1, default=str)
            return path

        if self.oracle_failures:
            path = write_replay('failing-input', {'failures': self.oracle_failures[:80],
                                                  'how_to_replay': f'./check {self.pid} --replay <this file>'})
            violations.append(f'VIOLATION property={self.pid} replay={path}')
        elif self.proof['broken'] or self.tie['disagreements']:
            body = {}
            if self.proof['broken']:
                body['proof_obligations_that_no_longer_check'] = self.proof['broken']
            if self.tie['disagreements']:
                body['correspondence_that_no_longer_checks'] = self.tie['disagreements'][:10]
            body['search'] = 'the implementation-side oracle was run on corpus + generated cases and found no input on which the property fails'
            path = write_replay('unproved', body)
            violations.append(f'VIOLATION property={self.pid} replay={path} no-failing-input-found')
        for k in self.known_hits:
            print(f"KNOWN-FINDING: property={self.pid} {k['id']}: {k['what']}")
        cov = {
            'obligations': self.proof['obligations'],
            'discharged': self.proof['discharged'],
            'checker_cmd': self.proof['checker_cmd'] or 'n/a',
            'trusted_base': self.trusted_base,
            'theorems': self.proof['theorems'],
            'axioms_per_theorem': self.proof['axioms'],
            'proof_broken': self.proof['broken'],
            'evaluations': self.evaluations,
            'distinct_nontrivial': len(self.nontrivial),
            'rule': self.extra.pop('rule', ''),
            'programs': self.extra.pop('programs', self.evaluations),
            'disagreements_checked': self.evaluations,
            'model_disagreements': len(self.tie['disagreements']),
            'oracle_failures': len(self.oracle_failures),
            'known_findings_reproduced': [k['id'] for k in self.known_hits],
            'correspondence_streams': self.tie['streams'],
            'generator_distribution': self.distribution,
            'samples': self.samples[:8] or ['(none)'],
            'notes': self.notes,
        }
        cov.update(self.extra)
        ev = {'property_id': self.pid, 'tier': self.tier, 'seed': self.seed, 'level': 'proof', 'coverage': cov,
              'assumptions': self.assumptions, 'wall_s': wall, 'violations': len(violations)}
        if not replaying:
            json.dump(ev, open(os.path.join(VERIF, 'evidence', f'{self.pid}.json'), 'w'), indent=1, default=str)
        shutil.rmtree(self.scratch, ignore_errors=True)
        for v in violations:
            print(v)
        print(f'[{self.pid} {self.tier}] theorems={len(self.proof["theorems"])} obligations={cov["obligations"]} '
              f'discharged={cov["discharged"]} cases={self.evaluations} nontrivial={len(self.nontrivial)} '
              f'disagreements={len(self.tie["disagreements"])} oracle_failures={len(self.oracle_failures)} '
              f'known={len(self.known_hits)} wall={wall}s')
        return 1 if violations else 0


def run_lines(binary, args, lines, timeout=3000, cwd=None, env=None):
    """Feed lines to a line-protocol process, return the answer lines."""
    e = dict(ENV)
    if env:
        e.update(env)
    p = subprocess.run([binary] + args, input='\n'.join(lines) + '\n', stdout=subprocess.PIPE,
                       stderr=subprocess.PIPE, text=True, timeout=timeout, cwd=cwd, env=e)
    return p.returncode, p.stdout.split('\n')[:-1], p.stderr


def shrink(case, fails, max_steps=400):
    """Greedy delta-debugging over a list: remove elements while `fails(case)` stays true."""
    steps = 0
    changed = True
    while changed and steps < max_steps:
        changed = False
        i = 0
        while i < len(case) and steps < max_steps:
            cand = case[:i] + case[i + 1:]
            steps += 1
            if cand and fails(cand):
                case = cand
                changed = True
            else:
                i += 1
    return case
