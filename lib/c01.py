"""C01 — see DESIGN.md section 4 ("the repository model") and lean/XvcRepo/XvcRepo/Props/C01.lean.
Proof: Lean theorems about the executable repository model.  Tie: the model driver is compared with the rebuilt xvc
binary after every command of generated histories.  Oracle: model-independent, lib/repo_check.py."""
import random
import repo_check as rc
from repo_check import W, T, CI, RC

ORACLES = [rc.o1r_recheck_restores]
RESTORE = dict(every_step=False)


def sibling_histories(seed, n):
    """Files of ONE directory whose names differ only in the extension (sample.img / sample.lbl / sample), or are prefixes
    of each other, committed and restored together by one command, serially and in parallel, again and again: whatever
    xvc derives from a file name (temporary names, cache file names `0.<ext>`, ignore lines) must not collide."""
    rng = random.Random(f'c01-siblings-{seed}')
    out = []
    for i in range(n):
        d = rng.choice(['', 'd/', 'ünï/'])
        stem = rng.choice(['sample', 's', 'data.v1', 'x y'])
        names = rng.sample([f'{d}{stem}.img', f'{d}{stem}.lbl', f'{d}{stem}', f'{d}{stem}.img.bak', f'{d}.{stem}'], rng.randint(2, 4))
        cfg = {'algo': rng.choice([0, 0, 1, 2, 3]), 'method': rng.choice(['copy', 'copy', 'reflink', 'hardlink', 'symlink']), 'tob': rng.choice(['auto', 'binary'])}
        same = rng.random() < 0.3
        body = lambda k: bytes(f'{stem}-{i}-{0 if same else k}-', 'utf8') + bytes(rng.getrandbits(8) for _ in range(rng.choice([8, 2000, 60000])))
        blobs = {p: body(k) for k, p in enumerate(names)}
        h = [W(p, b) for p, b in blobs.items()]
        h.append(T(names, no_parallel=rng.random() < 0.4))
        for _ in range(rng.randint(2, 4)):
            victims = rng.sample(names, rng.randint(2, len(names)))
            h += [{'op': 'delete', 'path': p} for p in victims]
            h.append(RC(names if rng.random() < 0.5 else victims, no_parallel=rng.random() < 0.5, method=rng.choice([None, None, 'copy'])))
        if rng.random() < 0.5:
            p = rng.choice(names)
            h += [W(p, blobs[p] + b'+edit'), CI(names, no_parallel=rng.random() < 0.5), {'op': 'delete', 'path': p}, RC(names, no_parallel=rng.random() < 0.5)]
        out.append((f'siblings-{i}', cfg, h))
    return out


def run(chk):
    n = 30 if chk.tier == 'quick' else 300
    return rc.run_property(chk, 'C01', ORACLES, restore=RESTORE, nq=250, extra_corpus=sibling_histories(chk.seed, n), extra_props=['XvcRepo.Props.C01Cmd'])


def replay(chk, data):
    return rc.replay_property(chk, data, ORACLES, restore=RESTORE)
