"""C01 — see DESIGN.md section 4 ("the repository model") and lean/XvcRepo/XvcRepo/Props/C01.lean.
Proof: Lean theorems about the executable repository model.  Tie: the model driver is compared with the rebuilt xvc
binary after every command of generated histories.  Oracle: model-independent, lib/repo_check.py."""
import random
import repo_check as rc
from repo_check import W, T, CI, RC

ORACLES = [rc.o1r_recheck_restores]
RESTORE = dict(every_step=False)


def sibling_histories(seed, n):
    """Files of ONE directory whose names differ only in the extension (sample.img / sample.lbl / sample), or are prefixes
    of each other, committed and restored together by one command, serially and in parallel, again and again: whatever
    xvc derives from a file name (temporary names, cache file names `0.<ext>`, ignore lines) must not collide."""
    rng = random.Random(f'c01-siblings-{seed}')
    out = []
    for i in range(n):
        d = rng.choice(['', 'd/', 'ünï/'])
        stem = rng.choice(['sample', 's', 'data.v1', 'x y'])
        names = rng.sample([f'{d}{stem}.img', f'{d}{stem}.lbl', f'{d}{stem}', f'{d}{stem}.img.bak', f'{d}.{stem}'], rng.randint(2, 4))
        cfg = {'algo': rng.choice([0, 0, 1, 2, 3]), 'method': rng.choice(['copy', 'copy', 'reflink', 'hardlink', 'symlink']), 'tob': rng.choice(['auto', 'binary'])}
        same = rng.random() < 0.3
        body = lambda k: bytes(f'{stem}-{i}-{0 if same else k}-', 'utf8') + bytes(rng.getrandbits(8) for _ in range(rng.choice([8, 2000, 60000])))
        blobs = {p: body(k) for k, p in enumerate(names)}
        h = [W(p, b) for p, b in blobs.items()]
        h.append(T(names, no_parallel=rng.random() < 0.4))
        for _ in range(rng.randint(2, 4)):
            victims = rng.sample(names, rng.randint(2, len(names)))
            h += [{'op': 'delete', 'path': p} for p in victims]
            h.append(RC(names if rng.random() < 0.5 else victims, no_parallel=rng.random() < 0.5, method=rng.choice([None, None, 'copy'])))
        if rng.random() < 0.5:
            p = rng.choice(names)
            h += [W(p, blobs[p] + b'+edit'), CI(names, no_parallel=rng.random() < 0.5), {'op': 'delete', 'path': p}, RC(names, no_parallel=rng.random() < 0.5)]
        out.append((f'siblings-{i}', cfg, h))
    return out


def cross_extension_histories(seed, n):
    """The same bytes committed under different EXTENSIONS (model.bin and its backup model.bak, data.csv / data.txt / data):
    the objects share the digest directory `.xvc/<algo>/<3>/<3>/<58>/` and differ in the file name `0.<ext>`.  Tracked in one
    command and in two, with every recheck method, serially and in parallel, as first and as later versions; and the state a
    command that failed or was killed between mkdir and rename leaves behind: the digest directory exists and is EMPTY (an
    empty directory is not an object).  Every committed path is then deleted and rechecked, one by one and together: each one
    yields the committed bytes (the restore probe does the same in a copy after the last command)."""
    rng = random.Random(f'c01-cross-extension-{seed}')
    out = []
    methods = ['copy', 'symlink', 'hardlink', 'reflink']
    for i in range(n):
        m = methods[i % 4]
        serial = (i // 4) % 2 == 0
        shape = ['one-command', 'two-commands', 'carry-in', 'empty-dir', 'three-extensions', 'empty-dir-carry-in'][(i // 8 + i) % 6]
        cfg = {'algo': (i + seed) % 4, 'method': rng.choice(['copy', m]), 'tob': rng.choice(['auto', 'auto', 'binary', 'text'])}
        d = rng.choice(['', 'd/', 'ünï/'])
        stem = rng.choice(['model', 'data', 'x y'])
        e1, e2, e3 = rng.sample(['bin', 'bak', 'csv', 'txt', 'dat', 'OLD'], 3)
        p1, p2, p3 = f'{d}{stem}.{e1}', f'{d}{stem}.{e2}', rng.choice([f'{d}{stem}', f'{d}{stem}.{e3}', f'other/{stem}.{e3}'])
        X = bytes(f'{stem}-{i}-{seed}\n', 'utf8') + bytes(rng.choice(b'abcdefgh\n') for _ in range(rng.choice([0, 40, 9000]))) + rng.choice([b'', b'\x00\x01\x02'])
        np_ = lambda: serial
        opt = lambda: {'method': m} if cfg['method'] != m or rng.random() < 0.5 else {}
        if shape == 'one-command':
            h, ps = [W(p1, X), W(p2, X), T([p1, p2], no_parallel=np_(), **opt())], [p1, p2]
        elif shape == 'two-commands':
            h, ps = [W(p1, X), T([p1], no_parallel=np_(), **opt()), W(p2, X), T([p2], no_parallel=np_(), **opt())], [p1, p2]
        elif shape == 'three-extensions':
            h, ps = [W(p1, X), W(p2, X), W(p3, X), T([p1], no_parallel=np_(), **opt()), T([p3, p2], no_parallel=np_(), **opt())], [p1, p2, p3]
        elif shape == 'carry-in':
            # the shared content arrives as a LATER version of the second path
            h = [W(p1, X), W(p2, X + b'first version\n'), T([p1, p2], no_parallel=np_(), **opt()), W(p2, X), CI([p2], no_parallel=np_())]
            ps = [p1, p2]
        elif shape == 'empty-dir':
            h, ps = [W(p1, X), {'op': 'emptydir', 'path': p1}, T([p1], no_parallel=np_(), **opt())], [p1]
        else:
            h = [W(p1, X + b'v1\n'), T([p1], no_parallel=np_(), **opt()), W(p1, X), {'op': 'emptydir', 'path': p1}, CI([p1], no_parallel=np_())]
            ps = [p1]
        for p in ps:
            h += [{'op': 'delete', 'path': p}, RC([p], no_parallel=np_())]
        h += [{'op': 'delete', 'path': p} for p in ps] + [RC(ps, no_parallel=np_(), method=rng.choice([None, None] + methods))]
        out.append((f'cross-extension-{shape}-{m}-{"serial" if serial else "parallel"}-{i}', cfg, h))
    return out


def near_duplicate_histories(seed, n):
    """Files hashed as TEXT (no NUL among the first 8000 bytes; by `auto`, by option or by configuration) that are near-duplicates:
    same length, same line structure, different only in bytes a text-normalising reader could fold together
    (repo_harness.near_duplicate_pair: bytes that are not valid UTF-8 such as Latin-1 letters, control bytes, blanks, VT/FF/NEL,
    ...).  On two paths of one extension committed by one command, by two, or as two successive versions of ONE path; every
    algorithm; then both deleted and rechecked, and the old version restored from its Git commit by the restore probe.  The text
    digest drops CR and LF and nothing else (Props/C02Text.lean), so these are two objects and each path gets its own bytes back."""
    import repo_harness as rh
    rng = random.Random(f'c01-near-duplicates-{seed}')
    out = []
    for i in range(n):
        algo = (i + seed) % 4
        how = ['auto', 'auto', 'option-text', 'config-text'][(i // 4) % 4]
        cfg = {'algo': algo, 'method': rng.choice(['copy', 'copy', 'symlink', 'hardlink', 'reflink']), 'tob': 'text' if how == 'config-text' else 'auto'}
        tob = 'text' if how == 'option-text' else None
        A, B = rh.near_duplicate_pair(rng, tag=bytes(f'{i}/{seed} ', 'ascii') + (bytes(rng.choice(b'abcdefgh ') for _ in range(9000)) if rng.random() < 0.2 else b''))
        e = rng.choice(['txt', 'csv', 'tex', ''])
        nm = lambda x: x + ('.' + e if e else '')
        p, q = nm('notes-a'), nm(rng.choice(['notes-b', 'd/notes-a']))
        np_ = lambda: rng.random() < 0.5
        shape = ['together', 'one-by-one', 'edit', 'edit-force'][i % 4]
        if shape == 'together':
            h, ps = [W(p, A), W(q, B), T([p, q], tob=tob, no_parallel=np_())], [p, q]
        elif shape == 'one-by-one':
            h, ps = [W(p, A), T([p], tob=tob, no_parallel=np_()), W(q, B), T([q], tob=tob, no_parallel=np_())], [p, q]
        else:
            h = [W(p, A), T([p], tob=tob, no_parallel=np_()), W(p, B), CI([p], tob=tob, force=shape == 'edit-force', no_parallel=np_())]
            ps = [p]
        h += [{'op': 'delete', 'path': x} for x in ps] + [RC(list(reversed(ps)), no_parallel=np_())]
        out.append((f'near-duplicate-{shape}-{how}-algo{algo}-{i}', cfg, h))
    return out


def extra_corpus(chk):
    quick = chk.tier == 'quick'
    return sibling_histories(chk.seed, 30 if quick else 300) + cross_extension_histories(chk.seed, 24 if quick else 240) + \
        near_duplicate_histories(chk.seed, 24 if quick else 240)


def run(chk):
    return rc.run_property(chk, 'C01', ORACLES, restore=RESTORE, nq=250, extra_corpus=extra_corpus(chk), extra_props=['XvcRepo.Props.C01Cmd', 'XvcRepo.Props.C02Text'])


def replay(chk, data):
    return rc.replay_property(chk, data, ORACLES, restore=RESTORE)
