"""C05 — see DESIGN.md section 4 ("the repository model") and lean/XvcRepo/XvcRepo/Props/C05.lean.
Proof: Lean theorems about the executable repository model.  Tie: the model driver is compared with the rebuilt xvc
binary after every command of generated histories.  Oracle: model-independent, lib/repo_check.py O5.
Besides the general history stream this check generates *sharing* histories on purpose: contents shared between paths
in current AND in earlier recorded versions, then remove / untrack of one of the sharers with every option set."""
import random
import repo_check as rc
from repo_check import W, T, CI, RC

ORACLES = [rc.o5_removal]
RESTORE = None


def sharing_histories(seed, n):
    rng = random.Random(seed * 31337 + 5)
    out = []
    exts = ['txt', 'bin', '']
    for i in range(n):
        e = rng.choice(exts)
        nm = lambda s: s + ('.' + e if e else '')
        a, b, c = nm('a'), nm('d/b'), nm('c')
        X, Y, Z = [bytes(f'{t}-{i}-{rng.randint(0, 999)}\n', 'ascii') + (b'\x00' if rng.random() < 0.3 else b'') for t in 'XYZ']
        cfg = {'algo': rng.choice([0, 0, 1, 2, 3]), 'method': rng.choice(['copy', 'copy', 'hardlink', 'symlink']), 'tob': 'auto'}
        par = lambda: {'no_parallel': rng.random() < 0.5}
        h = [W(a, X), W(b, X), T([a, b], **par())]
        kind = rng.choice(['earlier-version-of-non-target', 'target-history', 'copy-share', 'three-way', 'mixed'])
        if kind in ('earlier-version-of-non-target', 'mixed'):
            h += [W(b, Y), CI([b], **par())]                                  # b: versions [X, Y]; a: [X]
        if kind in ('target-history', 'mixed'):
            h += [W(a, Z), CI([a], **par())]                                  # a: versions [X, Z]
        if kind == 'copy-share':
            h += [{'op': 'copy', 'src': a, 'dst': c}, W(a, Z), T([a], **par())]   # c shares a's FIRST version
        if kind == 'three-way':
            h += [W(c, X), T([c], **par()), W(c, Y), CI([c], **par()), W(b, Y), CI([b], **par())]
        victim = rng.choice([a, b]) if kind != 'copy-share' else rng.choice([a, c])
        op = rng.choice(['remove', 'remove-all', 'untrack', 'remove-force', 'remove-only', 'remove-only'])
        if op == 'untrack':
            h.append({'op': 'untrack', 'targets': [victim]})
        elif op == 'remove-only':
            # --only-version: one recorded version of one of the targets (shared or not with paths outside the targets;
            # with two targets that both hold the version the designation is "not unique" and nothing may happen)
            tg = rng.choice([[victim], [victim], [a, b]])
            h.append({'op': 'remove', 'targets': tg, 'only_version': [rng.choice(tg), rng.choice([0, 0, 1])], 'force': rng.random() < 0.15})
        else:
            h.append({'op': 'remove', 'targets': [victim], 'all_versions': op == 'remove-all', 'force': op == 'remove-force'})
        # what is left must still be restorable / removable
        other = [p for p in (a, b, c) if p != victim]
        h.append(RC(other[:2], force=True, **par()))
        if rng.random() < 0.5:
            h.append({'op': 'remove', 'targets': other[:1], 'all_versions': True})
        out.append((f'sharing-{kind}-{op}-{i}', cfg, h))
    return out


def run(chk):
    n = 60 if chk.tier == 'quick' else 600
    return rc.run_property(chk, 'C05', ORACLES, restore=RESTORE, nq=220, extra_corpus=sharing_histories(chk.seed, n))


def replay(chk, data):
    return rc.replay_property(chk, data, ORACLES, restore=RESTORE)
