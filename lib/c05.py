"""C05 — see DESIGN.md section 4 ("the repository model") and lean/XvcRepo/XvcRepo/Props/C05.lean.
Proof: Lean theorems about the executable repository model.  Tie: the model driver is compared with the rebuilt xvc
binary after every command of generated histories.  Oracle: model-independent, lib/repo_check.py O5.
Besides the general history stream this check generates *sharing* histories on purpose: contents shared between paths
in current AND in earlier recorded versions, then remove / untrack of one of the sharers with every option set."""
import random
import repo_check as rc
from repo_check import W, T, CI, RC

import onlyver

RESTORE = None


def sharing_histories(seed, n):
    rng = random.Random(seed * 31337 + 5)
    out = []
    exts = ['txt', 'bin', '']
    for i in range(n):
        e = rng.choice(exts)
        nm = lambda s: s + ('.' + e if e else '')
        a, b, c = nm('a'), nm('d/b'), nm('c')
        X, Y, Z = [bytes(f'{t}-{i}-{rng.randint(0, 999)}\n', 'ascii') + (b'\x00' if rng.random() < 0.3 else b'') for t in 'XYZ']
        cfg = {'algo': rng.choice([0, 0, 1, 2, 3]), 'method': rng.choice(['copy', 'copy', 'hardlink', 'symlink']), 'tob': 'auto'}
        par = lambda: {'no_parallel': rng.random() < 0.5}
        h = [W(a, X), W(b, X), T([a, b], **par())]
        kind = rng.choice(['earlier-version-of-non-target', 'target-history', 'copy-share', 'three-way', 'mixed'])
        if kind in ('earlier-version-of-non-target', 'mixed'):
            h += [W(b, Y), CI([b], **par())]                                  # b: versions [X, Y]; a: [X]
        if kind in ('target-history', 'mixed'):
            h += [W(a, Z), CI([a], **par())]                                  # a: versions [X, Z]
        if kind == 'copy-share':
            h += [{'op': 'copy', 'src': a, 'dst': c}, W(a, Z), T([a], **par())]   # c shares a's FIRST version
        if kind == 'three-way':
            h += [W(c, X), T([c], **par()), W(c, Y), CI([c], **par()), W(b, Y), CI([b], **par())]
        victim = rng.choice([a, b]) if kind != 'copy-share' else rng.choice([a, c])
        op = rng.choice(['remove', 'remove-all', 'untrack', 'remove-force', 'remove-only', 'remove-only'])
        if op == 'untrack':
            h.append({'op': 'untrack', 'targets': [victim]})
        elif op == 'remove-only':
            # --only-version: one recorded version of one of the targets (shared or not with paths outside the targets;
            # with two targets that both hold the version the designation is "not unique" and nothing may happen)
            tg = rng.choice([[victim], [victim], [a, b]])
            h.append({'op': 'remove', 'targets': tg, 'only_version': [rng.choice(tg), rng.choice([0, 0, 1])], 'force': rng.random() < 0.15,
                      'only_form': onlyver.random_form(random.Random(f'c05-form-{seed}-{i}'))})
        else:
            h.append({'op': 'remove', 'targets': [victim], 'all_versions': op == 'remove-all', 'force': op == 'remove-force'})
        # what is left must still be restorable / removable
        other = [p for p in (a, b, c) if p != victim]
        h.append(RC(other[:2], force=True, **par()))
        if rng.random() < 0.5:
            h.append({'op': 'remove', 'targets': other[:1], 'all_versions': True})
        out.append((f'sharing-{kind}-{op}-{i}', cfg, h))
    return out


# ------------------------------------------------------------------------------------------------
# hard links the commands did not make: several workspace names of one inode

def exec_link(sb, c):
    """the USER replaces the entry at `path` by a hard link (`rm path; ln <to> path`): to a file inside the workspace
    (`to`) or to a file of their own outside the repository (`outside`: name, `bytes`, `readonly`)"""
    import os
    p = sb.path(c['path'])
    if c.get('outside') is not None:
        src = os.path.join(sb.base, 'outside', c['outside'])
        if not os.path.exists(src):
            os.makedirs(os.path.dirname(src), exist_ok=True)
            with open(src, 'wb') as f:
                f.write(c['bytes'])
            os.chmod(src, 0o444 if c.get('readonly') else 0o644)
    else:
        src = sb.path(c['to'])
    if not os.path.isfile(src) or os.path.islink(src):
        return 1, '', 'link source is not a regular file'
    os.makedirs(os.path.dirname(p), exist_ok=True)
    if os.path.lexists(p):
        os.unlink(p)
    os.link(src, p)
    return 0, '', ''


def link_model_line(c):
    if c.get('outside') is not None:
        return '\t'.join(['linkout', c['path'], c['bytes'].hex(), '0' if c.get('readonly') else '1'])
    return '\t'.join(['link', c['path'], c['to']])


def parse_link_line(t):
    if t[0] == 'linkout':
        return {'op': 'link', 'path': t[1], 'outside': 'replayed.bin', 'bytes': bytes.fromhex(t[2]), 'readonly': t[3] == '0'}
    return {'op': 'link', 'path': t[1], 'to': t[2]}


def show_link(c):
    if c.get('outside') is not None:
        return f"rm -f {c['path']}; ln ../outside/{c['outside']} {c['path']}   [the user's own {'read-only ' if c.get('readonly') else ''}file outside the repository, {len(c['bytes'])} bytes]"
    return f"rm -f {c['path']}; ln {c['to']} {c['path']}"


def link_histories(seed, n):
    """Workspace files with SEVERAL NAMES that are not (or no longer) links of their cache object.
    Family `detached`: 2-3 paths with identical content tracked as hard links (object and paths are one inode); the object
    is removed from the cache (`remove --from-cache` of all the duplicates, of one with --force, with --all-versions; or
    not at all: refused without --force) - the paths still share their inode; then `untrack` of one / another / all.
    Family `userlink`: the user replaces a tracked path (hard link, copy or symlink method; object in the cache or
    removed before) by a hard link to a file of their own outside the repository (writable or read-only), to an
    untracked file inside it, or to another tracked file; then `untrack`.
    `expect_ok` marks the `untrack` commands that nothing entitles to fail."""
    rng = random.Random(f'c05-links-{seed}')
    out = []
    for i in range(n):
        e = rng.choice(['bin', 'bin', 'txt', ''])
        nm = lambda s: s + ('.' + e if e else '')
        X, Y, NEW = [bytes(f'{t}-links-{i}-{rng.randint(0, 999)}\n', 'ascii') + (b'\x00' if rng.random() < 0.3 else b'') for t in ('X', 'Y', 'NEW')]
        par = lambda: {'no_parallel': rng.random() < 0.5}
        method = rng.choice(['hardlink'] * 7 + ['copy', 'symlink', 'reflink'])
        cfg = {'algo': rng.choice([0, 0, 1, 2, 3]), 'method': rng.choice([method, 'copy']), 'tob': 'auto'}
        tm = {} if cfg['method'] == method else {'method': method}
        u = nm('notes/u')
        h = [W(u, NEW)]                                                    # an untracked bystander
        if i % 2 == 0:
            dups = [nm('a'), nm('d/b'), nm('c')][:rng.choice([2, 2, 3])]
            z = nm('z')
            h += [W(p, X) for p in dups] + [W(z, Y), T(dups + [z], **tm, **par())]
            if rng.random() < 0.3:
                h += [W(z, X), CI([z], **par())]                            # a non-duplicate that later has the same version
            rm = rng.choice(['all', 'all', 'all', 'one-force', 'one-force', 'all-versions', 'one', 'none'])
            gone = rm in ('all', 'one-force', 'all-versions')
            if rm in ('all', 'all-versions'):
                h.append({'op': 'remove', 'targets': list(dups), 'all_versions': rm == 'all-versions'})
            elif rm != 'none':
                h.append({'op': 'remove', 'targets': [rng.choice(dups)], 'force': rm == 'one-force'})
            # a symbolic link whose object is gone dangles: it has no bytes, untrack may fail on it
            ok = not (gone and method == 'symlink')
            first = rng.choice([[dups[0]], [dups[-1]], list(dups), [dups[1], dups[0]]])
            h.append({'op': 'untrack', 'targets': first, 'expect_ok': ok})
            rest = [p for p in dups if p not in first]
            if rest and rng.random() < 0.6:
                h.append({'op': 'untrack', 'targets': rest, 'expect_ok': ok})
            if rng.random() < 0.4:
                h.append(RC([z], force=True, **par()))
            out.append((f'links-detached-{method}-{len(dups)}dup-rm-{rm}-untrack{len(first)}-{i}', cfg, h))
        else:
            c, t = nm('c'), nm('d/t')
            tmeth = rng.choice(['copy', 'hardlink', 'hardlink'])
            h += [W(c, X), W(t, Y), T([c], **tm, **par()), T([t], method=tmeth, **par())]
            if rng.random() < 0.3:
                h += [W(c, bytes(f'X2-links-{i}\n', 'ascii')), CI([c], **par())]
            removed = rng.random() < 0.3
            if removed:
                h.append({'op': 'remove', 'targets': [c], 'all_versions': rng.random() < 0.5})
            to = rng.choice(['outside', 'outside', 'outside-readonly', 'untracked', 'untracked', 'tracked', 'tracked'])
            if to.startswith('outside'):
                h.append({'op': 'link', 'path': c, 'outside': f'new-{i}.bin', 'bytes': NEW + b'(outside)', 'readonly': to.endswith('readonly')})
            else:
                h.append({'op': 'link', 'path': c, 'to': u if to == 'untracked' else t})
            tg = rng.choice([[c], [c], [c], [c, t], [t, c]])
            h.append({'op': 'untrack', 'targets': tg, 'expect_ok': True})
            if t not in tg and rng.random() < 0.5:
                h.append(RC([t], force=rng.random() < 0.5, **par()))
            out.append((f"links-userlink-{method}-to-{to}{'-' + tmeth if to == 'tracked' else ''}{'-object-removed' if removed else ''}-untrack{len(tg)}-{i}", cfg, h))
    return out


def o5_untrack_links(steps, cfg, history, assume_ok=False):
    """C05, second sentence, for the `untrack` commands that nothing entitles to fail (`expect_ok`): exit status 0; every
    target that was present is a regular, user-writable file of its own with unchanged bytes and is no longer recorded;
    every other workspace path keeps its kind and bytes.  Judged whatever the exit status."""
    from repo_check import read_through, entry_kind
    from repo_harness import show_cmd
    out = []
    for st in steps:
        c, pre, post = st['cmd'], st['pre'], st['post']
        if c['op'] != 'untrack' or not (c.get('expect_ok') or assume_ok) or pre is None or post is None:
            continue
        head = f"step {st['i']} {show_cmd(c)}"
        bad = []
        for t in c['targets']:
            if t not in pre.recs: continue
            b = read_through(pre, t)
            if t in post.recs:
                bad.append(f'{t} is still recorded as tracked')
            if b is None: continue
            nb = read_through(post, t)
            kind, _ = entry_kind(post, t)
            if nb is None:
                bad.append(f'{t} is gone from the workspace')
            elif nb != b:
                bad.append(f'{t} has other bytes than before')
            elif kind != 'copy':
                bad.append(f"{t} is '{kind}', not a regular writable file of its own")
        if st['rc'] != 0:
            out.append((f"{head}: exit status {st['rc']} ({(st.get('err') or '').strip()[-160:]}); " + ('; '.join(bad) or 'targets as required'),
                        {'kind': 'untrack-failed', 'rc': 'panic' if st['rc'] not in (0, 1) else 'error'}))
        elif bad:
            out.append((f"{head}: " + '; '.join(bad), {'kind': 'untrack-target-not-regular-writable-unchanged'}))
        for q in pre.ws:
            if q in c['targets']: continue
            if read_through(pre, q) != read_through(post, q) or pre.ws[q]['kind'] != post.ws.get(q, {}).get('kind'):
                out.append((f"{head}: {q}, which is not a target, changed", {'kind': 'untrack-changed-non-target'}))
    return out


# ------------------------------------------------------------------------------------------------
# `xvc file remove --from-storage` (local storage): sharing scenarios against the storage

def storage_removal_scenario(chk, xvc, name, rng):
    """returns (model lines, real observations per line or None, oracle failures)"""
    import os, shutil
    import repo_harness as rh
    import c06
    from xvcbin import Sandbox
    base = os.path.join(chk.scratch, 'c05st', name)
    os.makedirs(base, exist_ok=True)
    lines, obs, fails = [], [], []
    table = rh.Table()
    cfg = {'algo': rng.choice([0, 0, 1, 2, 3]), 'method': rng.choice(['copy', 'hardlink', 'symlink']), 'tob': 'auto'}
    cargs = rh.Runner.cfg_args(None, cfg)
    A = Sandbox(base, 'A', xvc); A.init()
    e = rng.choice(['txt', 'bin', ''])
    # identical content under DIFFERENT extensions shares the digest directory but not the object (`<digest>/0.<ext>`):
    # a third of the scenarios give every path its own extension
    exts = [e, e, e] if rng.random() < 0.65 else rng.sample(['txt', 'bin', 'dat', ''], 3)
    nm = lambda s, k: s + ('.' + exts[k] if exts[k] else '')
    a, b, c = nm('a', 0), nm('d/b', 1), nm('c', 2)
    X, Y, Z = [bytes(f'{t}-{name}-{rng.randint(0, 999)}\n', 'ascii') + (b'\x00' if rng.random() < 0.3 else b'') for t in 'XYZ']
    lines.append('\t'.join(['cfg', str(cfg['algo']), cfg['method'], cfg['tob']])); obs.append(None)
    stamps = {'k': 0, 'mine': set()}

    def write(p, by):
        A.write(p, by); table.add(by); lines.append('\t'.join(['write', p, by.hex()])); obs.append(None)

    def xvc_cmd(args, model_line, compare='repo'):
        r, out, err = A.x(*(cargs + args))
        rh.Runner.restamp(A, stamps)
        lines.append(model_line)
        obs.append(('repo', r, rh.abstraction(rh.Obs(A), table)) if compare == 'repo' else None)
        return r, out, err

    sdir = os.path.join(base, 'storage')

    def send(paths):
        A.x(*(cargs + ['file', 'send', '--to', 'st'] + paths))
        lines.append('\t'.join(['send', '1'] + [f'{p}=ok' for p in paths])); obs.append(None)

    write(a, X); write(b, X if rng.random() < 0.6 else Y)
    xvc_cmd(['file', 'track', '--no-parallel', a, b], '\t'.join(['track', '-', '-', '0', '0', a, b]))
    A.x('storage', 'new', 'local', '--name', 'st', '--path', sdir)
    gA = c06.guid_of(A)
    send([a, b])
    kind = rng.choice(['plain', 'target-history', 'non-target-earlier-version', 'three', 'unsent-version'])
    if kind in ('target-history', 'three', 'unsent-version'):
        write(a, Z); xvc_cmd(['file', 'carry-in', '--no-parallel', a], '\t'.join(['carryin', '-', '0', a]))
        if kind != 'unsent-version': send([a])
    if kind in ('non-target-earlier-version', 'three'):
        write(b, Y); xvc_cmd(['file', 'carry-in', '--no-parallel', b], '\t'.join(['carryin', '-', '0', b])); send([b])
    if kind == 'three':
        write(c, X); xvc_cmd(['file', 'track', '--no-parallel', c], '\t'.join(['track', '-', '-', '0', '0', c])); send([c])
    pre = rh.Obs(A)
    tree0 = c06.storage_tree(sdir)
    targets = rng.choice([[a], [a], [b], [a, b]])
    force = rng.random() < 0.2
    selk = rng.choice(['cur', 'cur', 'all', 'all', 'only'])
    args = ['file', 'remove', '--from-storage', 'st']
    also_cache = rng.random() < 0.25
    if also_cache: args.append('--from-cache')
    sel = '0'
    if selk == 'all': args.append('--all-versions'); sel = '1'
    if selk == 'only':
        bp, bk = rng.choice(targets), rng.choice([0, 0, 1])
        hist = pre.recs.get(bp, {}).get('hist', [])
        form = {'len': rng.choice([8, 10, 12, 12, 16, 27]), 'dash': rng.choice(['none', 'all', 'first']), 'upper': False}
        hexp = onlyver.spell(''.join(f'{x:02x}' for x in hist[bk]['digest']), form) if bk < len(hist) else 'ffffffffffff'
        args += ['--only-version', hexp]; sel = f'only:{bp}:{bk}'
    if force: args.append('--force')
    # order of the cache path strings of all recorded versions (the model does not know the hex strings)
    items = sorted(rh.restore_items(pre), key=lambda it: it[3])
    hint = [str(x) for it in items for x in (it[0], it[1])]
    r, out, err = A.x(*(cargs + args + targets))
    post = rh.Obs(A)
    tree1 = c06.storage_tree(sdir)
    if also_cache:
        lines.append('\t'.join(['remove', sel, '1' if force else '0'] + targets)); obs.append(('repo', 0 if r in (0, 1) else r, rh.abstraction(post, table)))
    lines.append('\t'.join(['sremove', '1', sel, '1' if force else '0', str(len(items))] + hint + targets))
    sabs = []
    for rel, by in tree1.items():
        g, _, crel = rel.partition('/')
        pfx, hexd, ext = rh.addr_parts(crel)
        sabs.append(f"{'1' if g == gA else '?' + g}:{table.digest_token(rh.PREFIX_IDX.get(pfx, 9), hexd)}:{ext}={rh.fp(by)}")
    obs.append(('storage', r, 'st={' + ';'.join(sorted(sabs)) + '}'))
    chk.count(f'storage-remove:{kind}:{selk}{":force" if force else ""}{":+cache" if also_cache else ""}:rc={r}:deleted={len(tree0) - len(tree1)}')
    # ---- oracle (model independent): what disappeared from the storage
    needed, of_targets = {}, set()
    for q, rr in pre.recs.items():
        for d in rr['hist']:
            if q in targets:
                of_targets.add(rc.rec_addr(rr, q, d))
            else:
                needed.setdefault(rc.rec_addr(rr, q, d), q)
    for rel in tree0:
        if rel in tree1: continue
        g, _, crel = rel.partition('/')
        if g != gA:
            fails.append((f"remove --from-storage deleted {rel}, which is not under the repository's guid", {'kind': 'storage-deleted-foreign-guid'}))
        if crel not in of_targets:
            fails.append((f"`xvc {' '.join(args + targets)}` deleted storage object {crel}, which is no recorded version of a target", {'kind': 'storage-deleted-non-target-version'}))
        if not force and crel in needed:
            fails.append((f"`xvc {' '.join(args + targets)}` deleted storage object {crel}, still referred to by tracked path {needed[crel]} (not a target)",
                          {'kind': 'storage-deleted-referenced-object'}))
    for rel, by in tree1.items():
        if tree0.get(rel) != by:
            fails.append((f'remove --from-storage changed or created storage entry {rel}', {'kind': 'storage-entry-changed'}))
    if not also_cache and sorted(post.cache) != sorted(pre.cache):
        fails.append(('remove --from-storage (without --from-cache) changed the cache', {'kind': 'from-storage-touched-cache'}))
    A.cleanup(); shutil.rmtree(base, ignore_errors=True)
    return {'lines': lines, 'obs': obs, 'fails': fails, 'readable': f"{kind}: xvc {' '.join(args + targets)}"}


def storage_removal(chk, n):
    import os, subprocess, hashlib, json
    from concurrent.futures import ThreadPoolExecutor
    import repo_harness as rh
    xvc = chk.build_xvc()
    import common
    model = os.path.join(common.LEAN_DIR, 'XvcRepo', '.lake', 'build', 'bin', 'repomodel')
    rngs = [random.Random(f'c05-storage-{chk.seed}-{i}') for i in range(n)]

    def one(i):
        try:
            return storage_removal_scenario(chk, xvc, f's{i}', rngs[i])
        except Exception:
            import traceback
            return {'lines': [], 'obs': [], 'fails': [('harness error: ' + traceback.format_exc()[-700:], {'kind': 'harness-error'})], 'readable': 'harness error'}
    with ThreadPoolExecutor(max_workers=8) as ex:
        done = list(ex.map(one, range(n)))
    st = chk.tie['streams'].setdefault('remove-from-storage', {'scenarios': 0, 'compared_lines': 0, 'disagreements': 0})
    for s in done:
        chk.evaluations += 1
        st['scenarios'] += 1
        chk.nontrivial.add(hashlib.sha1('\n'.join(s['lines']).encode()).hexdigest())
        if os.path.exists(model) and s['lines']:
            p = subprocess.run([model], input='\n'.join(s['lines']) + '\n', stdout=subprocess.PIPE, text=True, timeout=600)
            out = p.stdout.split('\n')
            for line, real, mo in zip(s['lines'], s['obs'], out):
                if real is None: continue
                st['compared_lines'] += 1
                kind, r, ab = real
                if kind == 'storage':
                    # the model line is `rc=<..> st={..}`; exit class: error (1) <-> refused
                    want = mo.split(' ', 1)[1] if ' ' in mo else mo
                    d = None if want == ab else f'storage: implementation {ab} model {want}'
                    mrc = mo.split(' ')[0]
                    if d is None and (r == 0) != (mrc == 'rc=ok'):
                        d = f'exit class: implementation rc={r} model {mrc}'
                else:
                    d = rh.compare_step({'abs': ab, 'rc': r}, mo)
                if d:
                    st['disagreements'] += 1
                    chk.disagreement('remove-from-storage', {'scenario': s['readable'], 'lines': [l[:200] for l in s['lines']]}, str(real)[:1500], mo[:1500], f'at `{line[:120]}`: {d[:600]}')
                    break
        seen = set()
        for msg, sig in s['fails']:
            k = json.dumps(sig, sort_keys=True)
            if k in seen: continue
            seen.add(k)
            chk.oracle_failure(msg, {'scenario': s['readable'], 'model_lines': [l[:300] for l in s['lines']]}, None, signature=sig)


RULE_EXTRA = (' + C05 streams: {ns} sharing histories (`remove --only-version` typed in every documented form: 0..12, 27, 28, 64 digits, dashes at the documented positions / '
              'first only / none, lower and upper case; model side: the selection is made on the STRING, driver command `removepfx`, XvcRepo/OnlyVersion.lean); 6 fixed + {nt} generated histories '
              'over lib/digest_prefix_table.json (contents whose digest begins with the identifier of a hash algorithm - b3, b2, a0 - or another pair of digits, plus contents '
              'whose digest begins with the characters that follow; every table entry recomputed with lib/hashref.py); {nl} histories with workspace files that have SEVERAL NAMES '
              'without being links of their cache object (hard-linked duplicates whose object was removed by `remove --from-cache` of all / of one with --force / --all-versions, '
              'then untrack of one / all; a tracked path replaced by the user with a hard link to a file outside the repository - writable or read-only -, to an untracked file '
              'inside it, to another tracked file; then untrack).  The model has no inode aliasing between workspace names (DESIGN 9.5): these histories are compared with the '
              'model as far as the abstraction goes (kind, bytes, write bit, link of WHICH object; user links are the model actions `link`/`linkout`, XvcRepo/UserLink.lean), the '
              'aliasing itself - exit status 0, targets regular + writable + unchanged + unlisted, every other name unchanged - is judged by the oracle `o5_untrack_links` alone; '
              'string-level tie: every `remove --only-version` command that ran is sent to the driver as `onlyver <identifier> <string> <digests>` and the selection compared with what the binary deleted')


def run(chk):
    import functools
    n = 60 if chk.tier == 'quick' else 600
    nt, nl = (16, 48) if chk.tier == 'quick' else (160, 480)
    col = onlyver.Collector()
    oracles = [rc.o5_removal, functools.partial(onlyver.oracle, collect=col), o5_untrack_links]

    def before_finish():
        storage_removal(chk, 36 if chk.tier == 'quick' else 360)
        col.tie(chk, chk.repo_ctx['model'])
        chk.extra['rule'] = chk.extra.get('rule', '') + RULE_EXTRA.format(ns=n, nt=nt, nl=nl)
    return rc.run_property(chk, 'C05', oracles, restore=RESTORE, nq=220,
                           extra_corpus=sharing_histories(chk.seed, n) + onlyver.table_histories(chk.seed, nt, tag='c05') + link_histories(chk.seed, nl),
                           before_finish=before_finish, fault_stream=18 if chk.tier == 'quick' else 200,
                           extra_props=['XvcRepo.Props.C05Link', 'XvcRepo.Props.C04Only'])


def replay(chk, data):
    import functools
    # histories are stored as model lines, which do not carry the generator's `expect_ok` mark: when the recorded failure
    # is one of the link stream's, every `untrack` of the replayed history is one that nothing entitles to fail
    mine = any((f.get('signature') or {}).get('kind', '').startswith('untrack-') for f in data.get('failures', []))
    return rc.replay_property(chk, data, [rc.o5_removal, onlyver.oracle, functools.partial(o5_untrack_links, assume_ok=mine)], restore=RESTORE)
