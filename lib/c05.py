"""C05 — see DESIGN.md section 4 ("the repository model") and lean/XvcRepo/XvcRepo/Props/C05.lean.
Proof: Lean theorems about the executable repository model.  Tie: the model driver is compared with the rebuilt xvc
binary after every command of generated histories.  Oracle: model-independent, lib/repo_check.py O5.
Besides the general history stream this check generates *sharing* histories on purpose: contents shared between paths
in current AND in earlier recorded versions, then remove / untrack of one of the sharers with every option set."""
import random
import repo_check as rc
from repo_check import W, T, CI, RC

ORACLES = [rc.o5_removal]
RESTORE = None


def sharing_histories(seed, n):
    rng = random.Random(seed * 31337 + 5)
    out = []
    exts = ['txt', 'bin', '']
    for i in range(n):
        e = rng.choice(exts)
        nm = lambda s: s + ('.' + e if e else '')
        a, b, c = nm('a'), nm('d/b'), nm('c')
        X, Y, Z = [bytes(f'{t}-{i}-{rng.randint(0, 999)}\n', 'ascii') + (b'\x00' if rng.random() < 0.3 else b'') for t in 'XYZ']
        cfg = {'algo': rng.choice([0, 0, 1, 2, 3]), 'method': rng.choice(['copy', 'copy', 'hardlink', 'symlink']), 'tob': 'auto'}
        par = lambda: {'no_parallel': rng.random() < 0.5}
        h = [W(a, X), W(b, X), T([a, b], **par())]
        kind = rng.choice(['earlier-version-of-non-target', 'target-history', 'copy-share', 'three-way', 'mixed'])
        if kind in ('earlier-version-of-non-target', 'mixed'):
            h += [W(b, Y), CI([b], **par())]                                  # b: versions [X, Y]; a: [X]
        if kind in ('target-history', 'mixed'):
            h += [W(a, Z), CI([a], **par())]                                  # a: versions [X, Z]
        if kind == 'copy-share':
            h += [{'op': 'copy', 'src': a, 'dst': c}, W(a, Z), T([a], **par())]   # c shares a's FIRST version
        if kind == 'three-way':
            h += [W(c, X), T([c], **par()), W(c, Y), CI([c], **par()), W(b, Y), CI([b], **par())]
        victim = rng.choice([a, b]) if kind != 'copy-share' else rng.choice([a, c])
        op = rng.choice(['remove', 'remove-all', 'untrack', 'remove-force', 'remove-only', 'remove-only'])
        if op == 'untrack':
            h.append({'op': 'untrack', 'targets': [victim]})
        elif op == 'remove-only':
            # --only-version: one recorded version of one of the targets (shared or not with paths outside the targets;
            # with two targets that both hold the version the designation is "not unique" and nothing may happen)
            tg = rng.choice([[victim], [victim], [a, b]])
            h.append({'op': 'remove', 'targets': tg, 'only_version': [rng.choice(tg), rng.choice([0, 0, 1])], 'force': rng.random() < 0.15})
        else:
            h.append({'op': 'remove', 'targets': [victim], 'all_versions': op == 'remove-all', 'force': op == 'remove-force'})
        # what is left must still be restorable / removable
        other = [p for p in (a, b, c) if p != victim]
        h.append(RC(other[:2], force=True, **par()))
        if rng.random() < 0.5:
            h.append({'op': 'remove', 'targets': other[:1], 'all_versions': True})
        out.append((f'sharing-{kind}-{op}-{i}', cfg, h))
    return out


# ------------------------------------------------------------------------------------------------
# `xvc file remove --from-storage` (local storage): sharing scenarios against the storage

def storage_removal_scenario(chk, xvc, name, rng):
    """returns (model lines, real observations per line or None, oracle failures)"""
    import os, shutil
    import repo_harness as rh
    import c06
    from xvcbin import Sandbox
    base = os.path.join(chk.scratch, 'c05st', name)
    os.makedirs(base, exist_ok=True)
    lines, obs, fails = [], [], []
    table = rh.Table()
    cfg = {'algo': rng.choice([0, 0, 1, 2, 3]), 'method': rng.choice(['copy', 'hardlink', 'symlink']), 'tob': 'auto'}
    cargs = rh.Runner.cfg_args(None, cfg)
    A = Sandbox(base, 'A', xvc); A.init()
    e = rng.choice(['txt', 'bin', ''])
    # identical content under DIFFERENT extensions shares the digest directory but not the object (`<digest>/0.<ext>`):
    # a third of the scenarios give every path its own extension
    exts = [e, e, e] if rng.random() < 0.65 else rng.sample(['txt', 'bin', 'dat', ''], 3)
    nm = lambda s, k: s + ('.' + exts[k] if exts[k] else '')
    a, b, c = nm('a', 0), nm('d/b', 1), nm('c', 2)
    X, Y, Z = [bytes(f'{t}-{name}-{rng.randint(0, 999)}\n', 'ascii') + (b'\x00' if rng.random() < 0.3 else b'') for t in 'XYZ']
    lines.append('\t'.join(['cfg', str(cfg['algo']), cfg['method'], cfg['tob']])); obs.append(None)
    stamps = {'k': 0, 'mine': set()}

    def write(p, by):
        A.write(p, by); table.add(by); lines.append('\t'.join(['write', p, by.hex()])); obs.append(None)

    def xvc_cmd(args, model_line, compare='repo'):
        r, out, err = A.x(*(cargs + args))
        rh.Runner.restamp(A, stamps)
        lines.append(model_line)
        obs.append(('repo', r, rh.abstraction(rh.Obs(A), table)) if compare == 'repo' else None)
        return r, out, err

    sdir = os.path.join(base, 'storage')

    def send(paths):
        A.x(*(cargs + ['file', 'send', '--to', 'st'] + paths))
        lines.append('\t'.join(['send', '1'] + [f'{p}=ok' for p in paths])); obs.append(None)

    write(a, X); write(b, X if rng.random() < 0.6 else Y)
    xvc_cmd(['file', 'track', '--no-parallel', a, b], '\t'.join(['track', '-', '-', '0', '0', a, b]))
    A.x('storage', 'new', 'local', '--name', 'st', '--path', sdir)
    gA = c06.guid_of(A)
    send([a, b])
    kind = rng.choice(['plain', 'target-history', 'non-target-earlier-version', 'three', 'unsent-version'])
    if kind in ('target-history', 'three', 'unsent-version'):
        write(a, Z); xvc_cmd(['file', 'carry-in', '--no-parallel', a], '\t'.join(['carryin', '-', '0', a]))
        if kind != 'unsent-version': send([a])
    if kind in ('non-target-earlier-version', 'three'):
        write(b, Y); xvc_cmd(['file', 'carry-in', '--no-parallel', b], '\t'.join(['carryin', '-', '0', b])); send([b])
    if kind == 'three':
        write(c, X); xvc_cmd(['file', 'track', '--no-parallel', c], '\t'.join(['track', '-', '-', '0', '0', c])); send([c])
    pre = rh.Obs(A)
    tree0 = c06.storage_tree(sdir)
    targets = rng.choice([[a], [a], [b], [a, b]])
    force = rng.random() < 0.2
    selk = rng.choice(['cur', 'cur', 'all', 'all', 'only'])
    args = ['file', 'remove', '--from-storage', 'st']
    also_cache = rng.random() < 0.25
    if also_cache: args.append('--from-cache')
    sel = '0'
    if selk == 'all': args.append('--all-versions'); sel = '1'
    if selk == 'only':
        bp, bk = rng.choice(targets), rng.choice([0, 0, 1])
        hist = pre.recs.get(bp, {}).get('hist', [])
        hexp = ''.join(f'{x:02x}' for x in hist[bk]['digest'])[:12] if bk < len(hist) else 'ffffffffffff'
        args += ['--only-version', hexp]; sel = f'only:{bp}:{bk}'
    if force: args.append('--force')
    # order of the cache path strings of all recorded versions (the model does not know the hex strings)
    items = sorted(rh.restore_items(pre), key=lambda it: it[3])
    hint = [str(x) for it in items for x in (it[0], it[1])]
    r, out, err = A.x(*(cargs + args + targets))
    post = rh.Obs(A)
    tree1 = c06.storage_tree(sdir)
    if also_cache:
        lines.append('\t'.join(['remove', sel, '1' if force else '0'] + targets)); obs.append(('repo', 0 if r in (0, 1) else r, rh.abstraction(post, table)))
    lines.append('\t'.join(['sremove', '1', sel, '1' if force else '0', str(len(items))] + hint + targets))
    sabs = []
    for rel, by in tree1.items():
        g, _, crel = rel.partition('/')
        pfx, hexd, ext = rh.addr_parts(crel)
        sabs.append(f"{'1' if g == gA else '?' + g}:{table.digest_token(rh.PREFIX_IDX.get(pfx, 9), hexd)}:{ext}={rh.fp(by)}")
    obs.append(('storage', r, 'st={' + ';'.join(sorted(sabs)) + '}'))
    chk.count(f'storage-remove:{kind}:{selk}{":force" if force else ""}{":+cache" if also_cache else ""}:rc={r}:deleted={len(tree0) - len(tree1)}')
    # ---- oracle (model independent): what disappeared from the storage
    needed, of_targets = {}, set()
    for q, rr in pre.recs.items():
        for d in rr['hist']:
            if q in targets:
                of_targets.add(rc.rec_addr(rr, q, d))
            else:
                needed.setdefault(rc.rec_addr(rr, q, d), q)
    for rel in tree0:
        if rel in tree1: continue
        g, _, crel = rel.partition('/')
        if g != gA:
            fails.append((f"remove --from-storage deleted {rel}, which is not under the repository's guid", {'kind': 'storage-deleted-foreign-guid'}))
        if crel not in of_targets:
            fails.append((f"`xvc {' '.join(args + targets)}` deleted storage object {crel}, which is no recorded version of a target", {'kind': 'storage-deleted-non-target-version'}))
        if not force and crel in needed:
            fails.append((f"`xvc {' '.join(args + targets)}` deleted storage object {crel}, still referred to by tracked path {needed[crel]} (not a target)",
                          {'kind': 'storage-deleted-referenced-object'}))
    for rel, by in tree1.items():
        if tree0.get(rel) != by:
            fails.append((f'remove --from-storage changed or created storage entry {rel}', {'kind': 'storage-entry-changed'}))
    if not also_cache and sorted(post.cache) != sorted(pre.cache):
        fails.append(('remove --from-storage (without --from-cache) changed the cache', {'kind': 'from-storage-touched-cache'}))
    A.cleanup(); shutil.rmtree(base, ignore_errors=True)
    return {'lines': lines, 'obs': obs, 'fails': fails, 'readable': f"{kind}: xvc {' '.join(args + targets)}"}


def storage_removal(chk, n):
    import os, subprocess, hashlib, json
    from concurrent.futures import ThreadPoolExecutor
    import repo_harness as rh
    xvc = chk.build_xvc()
    import common
    model = os.path.join(common.LEAN_DIR, 'XvcRepo', '.lake', 'build', 'bin', 'repomodel')
    rngs = [random.Random(f'c05-storage-{chk.seed}-{i}') for i in range(n)]

    def one(i):
        try:
            return storage_removal_scenario(chk, xvc, f's{i}', rngs[i])
        except Exception:
            import traceback
            return {'lines': [], 'obs': [], 'fails': [('harness error: ' + traceback.format_exc()[-700:], {'kind': 'harness-error'})], 'readable': 'harness error'}
    with ThreadPoolExecutor(max_workers=8) as ex:
        done = list(ex.map(one, range(n)))
    st = chk.tie['streams'].setdefault('remove-from-storage', {'scenarios': 0, 'compared_lines': 0, 'disagreements': 0})
    for s in done:
        chk.evaluations += 1
        st['scenarios'] += 1
        chk.nontrivial.add(hashlib.sha1('\n'.join(s['lines']).encode()).hexdigest())
        if os.path.exists(model) and s['lines']:
            p = subprocess.run([model], input='\n'.join(s['lines']) + '\n', stdout=subprocess.PIPE, text=True, timeout=600)
            out = p.stdout.split('\n')
            for line, real, mo in zip(s['lines'], s['obs'], out):
                if real is None: continue
                st['compared_lines'] += 1
                kind, r, ab = real
                if kind == 'storage':
                    # the model line is `rc=<..> st={..}`; exit class: error (1) <-> refused
                    want = mo.split(' ', 1)[1] if ' ' in mo else mo
                    d = None if want == ab else f'storage: implementation {ab} model {want}'
                    mrc = mo.split(' ')[0]
                    if d is None and (r == 0) != (mrc == 'rc=ok'):
                        d = f'exit class: implementation rc={r} model {mrc}'
                else:
                    d = rh.compare_step({'abs': ab, 'rc': r}, mo)
                if d:
                    st['disagreements'] += 1
                    chk.disagreement('remove-from-storage', {'scenario': s['readable'], 'lines': [l[:200] for l in s['lines']]}, str(real)[:1500], mo[:1500], f'at `{line[:120]}`: {d[:600]}')
                    break
        seen = set()
        for msg, sig in s['fails']:
            k = json.dumps(sig, sort_keys=True)
            if k in seen: continue
            seen.add(k)
            chk.oracle_failure(msg, {'scenario': s['readable'], 'model_lines': [l[:300] for l in s['lines']]}, None, signature=sig)


def run(chk):
    n = 60 if chk.tier == 'quick' else 600
    return rc.run_property(chk, 'C05', ORACLES, restore=RESTORE, nq=220, extra_corpus=sharing_histories(chk.seed, n),
                           before_finish=lambda: storage_removal(chk, 36 if chk.tier == 'quick' else 360),
                           fault_stream=18 if chk.tier == 'quick' else 200)


def replay(chk, data):
    return rc.replay_property(chk, data, ORACLES, restore=RESTORE)
