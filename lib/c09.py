"""C09 — Ignore rules pick the same files on every run and act only below their directory.

Proof: lean/XvcIgnore (Props/C09.lean).  Tie: translator (lib/ignore_extract.py -> Gen/Consts.lean) +
correspondence of the executable model (lean_exe `ignoremodel`) with the real xvc-walker code
(harness bin `walker_harness`, in-process) and with the rebuilt `xvc` binary on scratch repositories.
Oracle (independent of the model): set equality across repetitions / walkers / enumeration orders,
the scoping metamorphic test, the parent-chain test, and `.xvc`/`.git` never emitted.

The Lean model mirrors the code WITH the F8 repair (patches/C09-F8.patch).
"""
import fnmatch, hashlib, os, shutil, time
from common import Check, run_lines, VERIF, REPO, sh
import ignore_extract
from xvcbin import Sandbox

hx = lambda s: s.encode().hex()
unhx = lambda h: bytes.fromhex(h).decode('utf-8', 'replace')

FILE_NAMES = ['x.bak', 'y.bak', 'a.txt', 'b.txt', 'n.log', 'data.bin', 'keep.txt', 'f', 'g', 'tmp', 'out', 'x', 'ab.txt', '.hidden']
DIR_NAMES = ['a', 'b', 'c', 'd', 'sub', 'build', 'tmp', 'data', 'x']
EXTS = ['bak', 'txt', 'log', 'bin']
IGN = '.xvcignore'

# ---------------------------------------------------------------------------------------------
# generators

def gen_body(rng, names, dnames, chk=None):
    """one pattern body (no leading `!`) from the gitignore grammar; returns (class, text)"""
    n = lambda: rng.choice(names) if names and rng.random() < 0.75 else rng.choice(FILE_NAMES)
    d = lambda: rng.choice(dnames) if dnames and rng.random() < 0.75 else rng.choice(DIR_NAMES)
    r = rng.random()
    if r < 0.20: return 'name', n()
    if r < 0.34: return 'star-ext', '*.' + rng.choice(EXTS)
    if r < 0.44: return 'dir-slash', d() + '/'
    if r < 0.52: return 'anchored', '/' + rng.choice([n(), d(), d() + '/', '*.' + rng.choice(EXTS)])
    if r < 0.64: return 'a/b', d() + '/' + rng.choice([n(), '*.' + rng.choice(EXTS), '*', d() + '/'])
    if r < 0.76: return 'globstar', rng.choice(['**/' + n(), '**/' + d() + '/', d() + '/**', d() + '/**/' + n(), '**/' + d() + '/' + n()])
    if r < 0.83: return 'question', rng.choice([n()[:-1] + '?', '?' + n()[1:], '?.' + rng.choice(EXTS)])
    if r < 0.90: return 'class', rng.choice(['[ab].txt', '[a-c]', '[xy].bak', 'x.[a-c]ak', '[a-cx]', 'x.b[!x]k', '[!a].txt'])
    if r < 0.94: return 'name-prefix', n()[:1] + '*'
    return 'dir-name', d()


def unsafe_white(body):
    """could this whitelist body re-include an entry called .xvc/.git?  (known-finding region, kept out of the generated stream)"""
    last = [s for s in body.strip().split('/') if s and s != '**']
    last = last[-1] if last else '*'
    return fnmatch.fnmatchcase('.xvc', last) or fnmatch.fnmatchcase('.git', last)


def gen_line(rng, names, dnames, chk=None):
    r = rng.random()
    if r < 0.05: line, cls = rng.choice(['# comment', '#x.bak', '', '   ', '\t']), 'comment-or-blank'
    else:
        cls, body = gen_body(rng, names, dnames)
        if rng.random() < 0.22 and not unsafe_white(body):
            body, cls = '!' + body, 'neg-' + cls
        r2 = rng.random()
        if r2 < 0.06: body, cls = body + rng.choice([' ', '  ', '\t']), cls + '+trailing-ws'
        elif r2 < 0.08: body, cls = body + '\\ ', cls + '+escaped-space'
        elif r2 < 0.10: body, cls = '\\' + rng.choice(['!', '#']) + body, cls + '+escaped-first'
        line = body
    if chk: chk.count('line:' + cls)
    return line


def gen_content(rng, names, dnames, chk=None):
    lines = [gen_line(rng, names, dnames, chk) for _ in range(rng.randint(1, 4))]
    r = rng.random()
    if r < 0.08: return '\r\n'.join(lines) + '\r\n'
    if r < 0.18: return '\n'.join(lines)            # no final newline
    return '\n'.join(lines) + '\n'


def gen_tree(rng, chk=None, special=True):
    """entries: ('D', path) ('F', path) ('L', path) ('I', dir, content); <= 4 levels, <= 20 entries (+ ignore files)"""
    ents, budget = [], [rng.randint(4, 20)]
    alln, alld = [], []

    def fill(d, depth):
        here = (d + '/') if d else ''
        for n in rng.sample(FILE_NAMES, rng.randint(0, 4)):
            if budget[0] <= 0: break
            budget[0] -= 1
            kind = 'L' if rng.random() < 0.06 else 'F'
            ents.append((kind, here + n)); alln.append(n)
        if special and rng.random() < (0.30 if depth == 0 else 0.08):
            s = rng.choice(['.xvc', '.git'])
            ents.append(('D', here + s)); ents.append(('F', here + s + '/' + rng.choice(['config', 'HEAD', 'x.bak'])))
        if depth < 3:
            for n in rng.sample(DIR_NAMES, rng.randint(0, 3 if depth < 2 else 1)):
                if budget[0] <= 0 or any(e[1] == here + n for e in ents): continue
                budget[0] -= 1
                ents.append(('D', here + n)); alld.append(n)
                fill(here + n, depth + 1)
    fill('', 0)
    dirs = [''] + [e[1] for e in ents if e[0] == 'D' and e[1].split('/')[-1] not in ('.xvc', '.git')]
    for d in dirs:
        if rng.random() < (0.6 if d == '' else 0.45):
            ents.append(('F', (d + '/' if d else '') + IGN))
            ents.append(('I', d, gen_content(rng, alln, alld, chk)))
    return ents


TWIN_RELATIONS = ['sibling', 'cousin', 'parent-child']
TWIN_DIRS = ['a', 'b', 'c', 'd', 'p', 'q', 'r']       # disjoint from the entry names the twin lines are about
TWIN_CLASSES = ['name', 'star-ext', 'dir-slash', 'negation', 'inner-slash', 'anchored']


def twin_line(rng, cls):
    """(line, entries below a directory that the line is about, extra root line)"""
    if cls == 'name':
        n = rng.choice(['tmp', 'x.bak', 'g', 'out'])
        return n, [('F', n), ('F', 'kept')], None
    if cls == 'star-ext':
        e = rng.choice(EXTS)
        return '*.' + e, [('F', 's.' + e), ('F', 'kept')], None
    if cls == 'dir-slash':
        d = rng.choice(['build', 'tmp', 'data'])
        return d + '/', [('D', d), ('F', d + '/o'), ('F', 'kept')], None
    if cls == 'negation':
        return '!keep.txt', [('F', 'keep.txt'), ('F', 'a.txt')], '*.txt'
    if cls == 'inner-slash':
        return 'sub/x.bak', [('D', 'sub'), ('F', 'sub/x.bak'), ('F', 'sub/y'), ('F', 'x.bak')], None
    return '/f', [('F', 'f'), ('D', 'sub'), ('F', 'sub/f')], None


def gen_twin_tree(rng, rel, cls, chk=None):
    """the SAME line in the ignore files of two related directories (siblings, cousins, parent and child), each
    directory holding entries the line is about; a third directory with another rule; the same entries once more at
    the root, where no rule applies (except the optional root line the negation class needs)"""
    a, b, c, d = rng.sample(TWIN_DIRS, 4)
    if rel == 'sibling': d1, d2, parents = a, b, []
    elif rel == 'cousin': d1, d2, parents = a + '/' + c, b + '/' + d, [a, b]
    else: d1, d2, parents = a, a + '/' + c, []
    line, below, root_line = twin_line(rng, cls)
    ents = [('D', x) for x in parents] + [('D', d1), ('D', d2)]
    for dd in (d1, d2):
        ents += [(k, dd + '/' + q) for k, q in below]
        other = gen_line(rng, [], []) if rng.random() < 0.4 else None
        lines = [line] + ([other] if other and not other.startswith('!') else [])
        if rng.random() < 0.3: lines.reverse()
        ents += [('F', dd + '/' + IGN), ('I', dd, '\n'.join(lines) + '\n')]
    ents += [(k, q) for k, q in below]                          # the same entries at the root
    third = next(x for x in TWIN_DIRS if x not in (a, b, c, d))
    ents += [('D', third), ('F', third + '/data.csv'), ('F', third + '/data.bak'), ('F', third + '/' + IGN), ('I', third, '*.bak\n')]
    if root_line:
        ents += [('F', IGN), ('I', '', root_line + '\n')]
    seen, out = set(), []
    for e in ents:                                              # parent-child shares entries: keep the first of each path
        key = (e[0] == 'I', e[1])
        if key in seen: continue
        seen.add(key); out.append(e)
    if chk: chk.count(f'twin:{rel}:{cls}')
    return out


def gen_merged_checks(rng, n, chk=None):
    """(path, [(source, line)…]) for `checkm`: identical lines coming from the ignore files of different directories"""
    out = []
    dirs = ['a', 'b', 'a/c', 'b/d', 'sub', 'data/x']
    for i in range(n):
        cls = TWIN_CLASSES[(i - i // 4 - 1) % len(TWIN_CLASSES)] if i % 4 else None
        if cls:
            line, below, root_line = twin_line(rng, cls)
            rel = next(q for k, q in below if k == 'F')
        else:
            line, root_line = gen_line(rng, [], []), None
            rel = rng.choice(FILE_NAMES)
        d1, d2 = rng.sample(dirs, 2)
        if rng.random() < 0.25: d2 = d1 + '/c'
        rules = [('F' + hx(d1), line), ('F' + hx(d2), line)]
        if rng.random() < 0.4: rules.insert(rng.randrange(3), ('F' + hx(rng.choice(dirs)), gen_line(rng, [], [])))
        if root_line: rules.insert(0, ('F', root_line))
        for base in (d1, d2, ''):
            out.append((('/' + base if base else '') + '/' + rel, rules))
        if chk: chk.count('checkm:' + (cls or 'random'))
    return out


SIZE_POINTS = [8, 16, 31, 32, 33, 64, 128]


def size_bucket(n):
    for lo, hi in ((0, 7), (8, 15), (16, 30), (31, 31), (32, 32), (33, 33), (34, 63), (64, 127), (128, 10 ** 6)):
        if lo <= n <= hi: return f'{lo}-{hi}' if lo != hi else str(lo)


def filler_line(rng, k):
    """a line of some grammar class that matches none of the entries of a large tree"""
    return rng.choice([f'*.scratch{k}', f'fill{k}', f'fdir{k}/', f'/anch{k}', f'fa{k}/b', f'**/g{k}', f'z{k}?', f'[qw]{k}.zz',
                       f'!nokeep{k}.zz', f'!nodir{k}/', f'fa{k}/*.q', f'\\#h{k}'])


def gen_large(rng, size, chk=None, where=None):
    """A LARGE rule set (about `size` patterns accumulated over the ignore files of data/, optionally the root and data/sub/):
    filler lines of every class + overlapping ignore/whitelist groups (`*.ext` + several `!keep-N.ext`, negations before and
    after the ignore line they counter, `odir/` + `!odir/keep`, the same again in the child directory).
    Returns (files {dir: [lines]}, entries, paths {path: 'both'|'ignore'|'white'|'none'})."""
    ext = rng.choice(['dat', 'bin', 'csv'])
    k = rng.choice([1, 2, 3, 5, 8, 12, 16])
    where = where or rng.choice(['one-file', 'one-file', 'root+data', 'data+child', 'root+data+child'])
    placement = rng.choice(['ignore-first', 'ignore-first', 'ignore-last', 'ignore-middle'])
    whites = [f'!keep-{i}.{ext}' for i in range(1, k + 1)]
    grp = {'ignore-first': [f'*.{ext}'] + whites, 'ignore-last': whites + [f'*.{ext}'],
           'ignore-middle': whites[:k // 2] + [f'*.{ext}'] + whites[k // 2:]}[placement]
    core = list(grp) + ['odir/', '!odir/keep', '!solo.txt']
    files = {'data': []}
    ents = [('D', 'data'), ('D', 'data/odir'), ('F', 'data/odir/keep'), ('F', 'data/odir/o'), ('F', 'data/solo.txt'), ('F', 'data/plain.md')]
    paths = {'/data/odir/keep': 'both', '/data/odir/o': 'ignore', '/data/solo.txt': 'white', '/data/plain.md': 'none', '/data/odir': 'none'}
    for i in range(1, k + 1):
        ents.append(('F', f'data/keep-{i}.{ext}')); paths[f'/data/keep-{i}.{ext}'] = 'both'
    for i in range(1, rng.choice([2, 4, 16]) + 1):
        ents.append(('F', f'data/drop-{i}.{ext}')); paths[f'/data/drop-{i}.{ext}'] = 'ignore'
    child = []
    if 'child' in where:
        files['data/sub'] = child
        ents += [('D', 'data/sub'), ('F', f'data/sub/keep-1.{ext}'), ('F', f'data/sub/drop-1.{ext}'), ('F', f'data/sub/keep-{k + 1}.{ext}'), ('F', 'data/sub/plain.md')]
        paths.update({f'/data/sub/keep-1.{ext}': 'both', f'/data/sub/drop-1.{ext}': 'ignore', f'/data/sub/keep-{k + 1}.{ext}': 'both', '/data/sub/plain.md': 'none'})
        child += [f'!keep-{k + 1}.{ext}', f'*.{ext}'] if rng.random() < 0.5 else [f'!keep-{k + 1}.{ext}']
    if 'root' in where:
        files[''] = []
    npat = len(core) + len(child) + (2 if where != 'rules-only' else 0)       # + the two built-in patterns
    fill = [filler_line(rng, j) for j in range(max(0, size - npat))]
    # distribute the filler: before / between / after the core lines of data/, the rest to the other files
    targets = list(files)
    parts = {d: [] for d in targets}
    for f in fill:
        parts[rng.choice(targets) if rng.random() < 0.5 else 'data'].append(f)
    body = list(core)
    for f in parts['data']:
        pos = rng.choice([0, 0, len(body), len(body), rng.randrange(len(body) + 1)])
        if placement == 'ignore-first' and rng.random() < 0.7: pos = max(pos, 1)     # keep `*.ext` in front most of the time (widest window)
        body.insert(pos, f)
    files['data'] = body
    if 'data/sub' in files: files['data/sub'] = parts['data/sub'] + child
    if '' in files: files[''] = parts['']
    if rng.random() < 0.3: files['data'].insert(rng.randrange(len(files['data'])), '# a comment')
    total = sum(1 for ls in files.values() for l in ls if l.strip() and not l.startswith('#')) + 2
    for d2, ls in files.items():
        ents += [('F', (d2 + '/' if d2 else '') + IGN), ('I', d2, '\n'.join(ls) + '\n')]
    if chk:
        chk.count('large:rule-set-size:' + size_bucket(total)); chk.count('large:where:' + where); chk.count('large:placement:' + placement)
        chk.count('large:paths-matched-by-both', sum(1 for v in paths.values() if v == 'both'))
        chk.count('large:paths-matched-by-ignore-only', sum(1 for v in paths.values() if v == 'ignore'))
    return files, ents, paths, total


def draw_size(rng, i=None):
    b = SIZE_POINTS[i % len(SIZE_POINTS)] if i is not None else rng.choice(SIZE_POINTS)
    return max(6, min(130, b + rng.choice([-2, -1, 0, 0, 0, 1, 2, rng.randint(-5, 5)])))


def seed2_scenario(filler=40, keep=16):
    """the minimised seeded scenario C09-2: data/.xvcignore = `*.dat`, 40 unrelated lines, `!keep-1.dat`..`!keep-16.dat`"""
    lines = ['*.dat'] + [f'*.scratch{i}' for i in range(1, filler + 1)] + [f'!keep-{i}.dat' for i in range(1, keep + 1)]
    ents = [('D', 'data')] + [('F', f'data/keep-{i}.dat') for i in range(1, keep + 1)] + [('F', f'data/drop-{i}.dat') for i in range(1, keep + 1)]
    ents += [('F', 'data/' + IGN), ('I', 'data', '\n'.join(lines) + '\n')]
    return ents


def large_rule_checks(chk, pr, n, reps):
    """rule-set level: `check` (one IgnoreRules::from_patterns) and `checkm` (merged file by file) on large rule sets, every
    question asked `reps` times; oracle: all answers to one question are equal; tie: equal to the model's answer"""
    rng = chk.rng
    st = chk.tie['streams'].setdefault('check-large', {'cases': 0, 'questions': 0, 'disagreements': 0, 'oracle_failures': 0})
    qs = []
    for i in range(n):
        files, _, paths, total = gen_large(rng, draw_size(rng, i), chk)
        order = sorted(files, key=lambda d2: (d2.count('/') if d2 else -1))
        rules = [('F' + hx(d2), l) for d2 in order for l in files[d2] if l.strip() and not l.startswith('#')]
        op = 'checkm' if i % 2 else 'check'
        ps = sorted(paths)
        rng.shuffle(ps)
        for pth in ps[:10]:
            qs.append((op, pth, rules, paths[pth], total))
    lines = []
    for op, pth, rules, _, _ in qs:
        l = op + '\t' + hx(pth) + ''.join(f'\t{s2}\t{hx(x)}' for s2, x in rules)
        lines += [l] * reps
    ai, _ = pr.impl_only(lines)
    _, am, _ = pr.both([lines[j * reps] for j in range(len(qs))]) if pr.model else (None, [None] * len(qs), None)
    first_o = first_t = None
    for j, (op, pth, rules, kind, total) in enumerate(qs):
        got = ai[j * reps:(j + 1) * reps]
        st['questions'] += 1; chk.evaluations += 1
        chk.count(f'large:check:{kind}:{got[0]}')
        if kind == 'both': chk.nontrivial.add(hashlib.sha1(('L' + op + pth + repr(rules)).encode()).hexdigest())
        if len(set(got)) > 1:
            st['oracle_failures'] += 1
            if first_o is None: first_o = (op, pth, rules, got, total)
        if am[j] is not None and got[0] != am[j]:
            st['disagreements'] += 1
            if first_t is None: first_t = (op, pth, rules, got[0], am[j])
    st['cases'] = n
    if first_o:
        op, pth, rules, got, total = first_o
        chk.oracle_failure(f'IgnoreRules::check gave {sorted(set(got))} for the same path {pth} and the same {total - 2} rules in {reps} repetitions',
                           {'level': 'check-large', 'op': op, 'path': pth, 'rules': [(unhx(s2[1:]), x) for s2, x in rules], 'repetitions': reps},
                           {'answers': got}, signature={'stream': 'check-large'})
    if first_t:
        op, pth, rules, x, y = first_t
        chk.disagreement('check-large', {'op': op, 'path': pth, 'rules': [(unhx(s2[1:]), l) for s2, l in rules]}, x, y, 'large rule set')


LOADING_SHAPES = ['rel-inside', 'abs-inside', 'rel-outside', 'abs-outside', 'chain', 'hard']
NONLOADING_SHAPES = ['dangling', 'todir']


def with_shape(ents, d, kind, k=1):
    """the ignore file of directory `d` (which has an `I` entry) realised in another file-system shape: a symbolic link to a
    rule file inside the tree (relative / absolute), outside the tree (relative / absolute), a chain of two links, a hard link.
    The helper entries (shared rule file, second link) are ordinary entries of the tree."""
    ents = list(ents)
    here = d + '/' if d else ''
    add = lambda e: ents.append(e) if e not in ents else None
    if kind in ('rel-inside', 'abs-inside', 'hard'):
        add(('D', 'shared')); add(('F', f'shared/r{k}.rules'))
        ents.append(('S', d, f'{kind}|shared/r{k}.rules'))
    elif kind in ('rel-outside', 'abs-outside'):
        ents.append(('S', d, f'{kind}|r{k}.rules'))
    elif kind == 'chain':
        add(('D', 'shared')); add(('F', f'shared/r{k}.rules')); add(('F', here + 'second' + IGN))
        ents.append(('S', d, f'chain|{here}second{IGN}|shared/r{k}.rules'))
    return ents


def with_dead_ignore(ents, d, kind):
    """an entry called like the ignore file that resolves to no file: a dangling symbolic link, or a link to a directory.
    Every walker must treat the directory as having no ignore file."""
    here = d + '/' if d else ''
    ents = [e for e in ents if not (e[0] in 'IS' and e[1] == d) and e[1] != here + IGN]
    if kind == 'dangling':
        return ents + [('L', here + IGN)]
    tgt = next(e[1] for e in ents if e[0] == 'D' and e[1] != d)
    return ents + [('F', here + IGN), ('S', d, 'todir|' + tgt)]


def regular_twin(ents):
    """the same rules as regular files; dead ignore entries removed (returns (twin, paths that exist only in the original))"""
    only, out = [], []
    for e in ents:
        if e[0] == 'S' and e[2].startswith('todir|'):
            only.append('/' + (e[1] + '/' if e[1] else '') + IGN); continue
        if e[0] == 'S': continue
        if e[0] == 'L' and (e[1] == IGN or e[1].endswith('/' + IGN)):
            only.append('/' + e[1]); continue
        out.append(e)
    out = [e for e in out if not (e[0] == 'F' and '/' + e[1] in only)]
    return out, only


def has_shapes(ents):
    return any(e[0] == 'S' or (e[0] == 'L' and (e[1] == IGN or e[1].endswith('/' + IGN))) for e in ents)


def seed3_scenario(kind='rel-inside', d='data'):
    """the minimal case of seeded change C09-3: data/.xvcignore -> ../shared/r1.rules holding `*.tmp`"""
    ents = [('D', 'data'), ('D', 'data/sub'), ('D', 'other'), ('F', 'data/a.tmp'), ('F', 'data/b.dat'), ('F', 'data/sub/c.tmp'),
            ('F', 'data/sub/d.dat'), ('F', 'other/o.tmp'), ('F', 'a.tmp'), ('F', (d + '/' if d else '') + IGN), ('I', d, '*.tmp\n')]
    if kind in LOADING_SHAPES: return with_shape(ents, d, kind)
    if kind in NONLOADING_SHAPES: return with_dead_ignore(ents, d, kind)
    return ents


def gen_shape_trees(rng, n_extra, chk=None):
    """every shape once on the seeded scenario (data/ and the root alternating), then shapes on random trees"""
    out = []
    for i, kind in enumerate(LOADING_SHAPES + NONLOADING_SHAPES):
        out.append(seed3_scenario(kind, 'data' if i % 3 else ''))
        if chk: chk.count('shape:' + kind)
    tries = 0
    while len(out) < len(LOADING_SHAPES + NONLOADING_SHAPES) + n_extra and tries < 20 * n_extra + 20:
        tries += 1
        t = gen_tree(rng, None, special=False)
        idirs = [e[1] for e in t if e[0] == 'I']
        if not idirs: continue
        for k, d in enumerate(idirs):
            if rng.random() < 0.6:
                kind = rng.choice(LOADING_SHAPES + NONLOADING_SHAPES)
                if kind in LOADING_SHAPES: t = with_shape(t, d, kind, k + 1)
                elif any(e[0] == 'D' and e[1] != d for e in t): t = with_dead_ignore(t, d, kind)
                else: continue
                if chk: chk.count('shape:' + kind)
        if has_shapes(t): out.append(t)
    return out


EXT_CLASSES = ['star-ext', 'name', 'dir-slash', 'inner-slash', 'anchored', 'negation']
META_PAIRS = [('d[1]', 'd1'), ('{a}', 'a'), ('q?', 'q1'), ('st*r', 'star'), ('b\\c', 'bc'), ('d[1]{a}', 'd1a'), ('!x]', 'x')]


def ext_line(cls):
    """(line of the ignore file, entries below a directory that the line is about, root line)"""
    return {'star-ext': ('*.tmp', [('F', 'x.tmp'), ('D', 'sub'), ('F', 'sub/y.tmp'), ('F', 'keep.bin')], None),
            'name': ('x.tmp', [('F', 'x.tmp'), ('D', 'sub'), ('F', 'sub/x.tmp'), ('F', 'keep.bin')], None),
            'dir-slash': ('deep/', [('D', 'deep'), ('F', 'deep/z.tmp'), ('F', 'keep.bin')], None),
            'inner-slash': ('sub/y.tmp', [('D', 'sub'), ('F', 'sub/y.tmp'), ('F', 'keep.bin')], None),
            'anchored': ('/x.tmp', [('F', 'x.tmp'), ('D', 'sub'), ('F', 'sub/x.tmp')], None),
            'negation': ('!x.tmp', [('F', 'x.tmp'), ('F', 'o.tmp'), ('D', 'sub'), ('F', 'sub/x.tmp')], '*.tmp')}[cls]


def populate(ents, d, below):
    for k, q in below:
        e = (k, d + '/' + q)
        if e not in ents: ents.append(e)


def gen_ext_tree(rng, cls, nested, chk=None):
    """siblings whose NAME EXTENDS the name of a directory that has an ignore file: data/ + data2/, data-old/, data.tmp, datax.tmp
    (nested: a/b/ + a/b2/, a/bc.tmp …), every sibling holding the entries the line of data/'s ignore file is about"""
    base, par = ('b', 'a') if nested else ('data', '')
    here = par + '/' if par else ''
    D = here + base
    line, below, root_line = ext_line(cls)
    ents = ([('D', par)] if par else []) + [('D', D)]
    populate(ents, D, below)
    for sib in (base + '2', base + '-old', base + 'c'):
        ents.append(('D', here + sib)); populate(ents, here + sib, below)
    ents += [('F', here + base + '.tmp'), ('F', here + base + 'x.tmp'), ('F', here + base + 'c.tmp'), ('D', here + 'other'), ('D', here + 'other/' + base)]
    populate(ents, here + 'other/' + base, below)
    extra = gen_line(rng, [], []) if rng.random() < 0.3 else None
    lines = [line] + ([extra] if extra and not extra.startswith('!') else [])
    ents += [('F', D + '/' + IGN), ('I', D, '\n'.join(lines) + '\n')]
    if root_line: ents += [('F', IGN), ('I', '', root_line + '\n')]
    if chk: chk.count(f'ext:{"nested" if nested else "flat"}:{cls}')
    return ents


def seed4_scenario():
    """the demo tree of seeded change C09-4"""
    return [('D', 'data'), ('D', 'data/sub'), ('D', 'data2'), ('D', 'data2/deep'), ('D', 'data2/deep/er'), ('D', 'other'), ('D', 'other/data'),
            ('F', 'data/x.tmp'), ('F', 'data/sub/y.tmp'), ('F', 'data/keep.bin'), ('F', 'data2/x.tmp'), ('F', 'data2/deep/er/z.tmp'),
            ('F', 'data2/keep.bin'), ('F', 'data.tmp'), ('F', 'datax.tmp'), ('F', 'other/data/w.tmp'), ('F', 'data/' + IGN), ('I', 'data', '*.tmp\n')]


def gen_meta_tree(rng, pair, cls, nested, chk=None):
    """a directory whose NAME contains glob metacharacters has an ignore file; next to it the directory the un-escaped name
    would match as a glob (d[1] + d1, {a} + a, q? + q1, st*r + star …); both hold the entries the line is about"""
    meta, plain = pair
    here = 'p/' if nested else ''
    line, below, root_line = ext_line(cls)
    ents = ([('D', 'p')] if nested else []) + [('D', here + meta), ('D', here + plain)]
    populate(ents, here + meta, below); populate(ents, here + plain, below)
    if rng.random() < 0.5:                                   # a second level with a metacharacter name and its own rule
        m2, p2 = rng.choice(META_PAIRS)
        for top in (here + meta, here + plain):
            for n2 in (m2, p2):
                ents.append(('D', top + '/' + n2)); populate(ents, top + '/' + n2, below)
        ents += [('F', here + meta + '/' + m2 + '/' + IGN), ('I', here + meta + '/' + m2, 'keep.bin\n')]
    ents += [('F', here + meta + '/' + IGN), ('I', here + meta, line + '\n')]
    if root_line: ents += [('F', IGN), ('I', '', root_line + '\n')]
    seen, out = set(), []
    for e in ents:
        if (e[0] == 'I', e[1]) in seen: continue
        seen.add((e[0] == 'I', e[1])); out.append(e)
    if chk: chk.count(f'meta:{meta}:{cls}' + (':nested' if nested else ''))
    return out


def f32_scenario():
    """repair F32: `d[1]/.xvcignore` must act below d[1]/ (not below the sibling d1/), `{a}/.xvcignore` below {a}/ (not a/)"""
    return [('D', 'd[1]'), ('D', 'd1'), ('D', '{a}'), ('D', 'a'), ('F', 'd[1]/x.tmp'), ('F', 'd[1]/keep.bin'), ('F', 'd1/x.tmp'), ('F', 'd1/keep.bin'),
            ('F', '{a}/y.tmp'), ('F', 'a/y.tmp'), ('F', 'd[1]/' + IGN), ('I', 'd[1]', '*.tmp\n'), ('F', '{a}/' + IGN), ('I', '{a}', 'y.tmp\n')]


def has_meta(path):
    return any(ch in path for ch in '[]{}*?!\\')


def enc_tree(ents):
    out = []
    for e in ents:
        if e[0] in 'IS': out.append(e[0] + hx(e[1]) + ':' + hx(e[2]))
        else: out.append(e[0] + hx(e[1]))
    return ';'.join(out)


def normalise(ents):
    """drop entries whose parent directory entry is missing (keeps model and disk consistent while shrinking)"""
    dirs = {''} | {e[1] for e in ents if e[0] == 'D'}
    ok = True
    while ok:
        ok = False
        for d in sorted(dirs):
            if d and os.path.dirname(d) not in dirs:
                dirs.discard(d); ok = True
    out = []
    for e in ents:
        if e[0] == 'I':
            if e[1] in dirs and ('F', (e[1] + '/' if e[1] else '') + IGN) in ents: out.append(e)
        elif e[0] == 'D':
            if e[1] in dirs: out.append(e)
        elif e[0] == 'S':
            # a shape needs its directory, the entry of the ignore file, its rules (unless it loads nothing) and its helper entries
            f = e[2].split('|')
            need = [('F', (e[1] + '/' if e[1] else '') + IGN)] + [('F', a) for a in f[1:] if f[0] in ('rel-inside', 'abs-inside', 'chain', 'hard')] + \
                   ([('D', f[1])] if f[0] == 'todir' else [])
            if e[1] in dirs and all(n in ents for n in need) and (f[0] == 'todir' or any(i[0] == 'I' and i[1] == e[1] for i in ents)):
                out.append(e)
        elif os.path.dirname(e[1]) in dirs:
            d0 = os.path.dirname(e[1])
            if e[1].endswith('/' + IGN) or e[1] == IGN:
                if e[0] != 'L' and not any(i[0] in 'IS' and i[1] == d0 for i in ents): continue
            out.append(e)
    return out if len(out) == len(ents) else normalise(out)       # to the fixpoint: dropped entries may be needed by others


def show_tree(ents):
    return [(e[0] + ' ' + e[1] + (' = ' + repr(e[2]) if e[0] in 'IS' else '')) for e in ents]


def without_ignore(ents, d):
    f = (d + '/' if d else '') + IGN
    return [e for e in ents if not (e[0] in 'IS' and e[1] == d) and not (e[0] == 'F' and e[1] == f)]


def under(d, p):
    return p.startswith('/' + d + '/') if d else True


# glob shapes --------------------------------------------------------------------------------

def gen_glob_case(rng, chk):
    """a glob of one of the four shapes of transform_pattern_for_glob and a path; returns (glob, path)"""
    D = rng.choice(['', '', '/a', '/a/b', '/sub', '/data/x'])
    cls, body = gen_body(rng, [], [])
    if rng.random() < 0.1:
        body = rng.choice(['a\\*b', 'x\\?', '\\[ab]', 'f\\ ', 'a\\\\b', '[a\\]]', '[]a]', '[a-]', '[ab', 'x\\', 'a**', 'a*b*c', '*a*', '?*?', '*.*'])
        cls = 'special'
    dir_only = body.endswith('/')
    p = body.rstrip('/') if dir_only else body
    p = p[1:] if p.startswith('/') else p
    rel = '/' in body.rstrip('/')[:-1] if body.rstrip('/') else False
    if rel or D:
        g = D + '/**/' + p
    else:
        g = '**/' + p
    if dir_only:
        g += '/**'
    shape = ('rel' if (rel or D) else 'any') + ('-dir' if dir_only else '')
    chk.count('glob-shape:' + shape)
    chk.count('glob-body:' + cls)
    # a path: instantiate the body, then perturb
    def inst(s):
        out, i = [], 0
        while i < len(s):
            c = s[i]
            if s.startswith('**/', i): out.append(''.join(rng.choice(['', 'q/', 'a/b/', 'sub/']))); i += 3; continue
            if s.startswith('**', i): out.append(rng.choice(['', 'z', 'z/w'])); i += 2; continue
            if c == '*': out.append(rng.choice(['', 'x', 'ab', 'data', 'x.y'])); i += 1; continue
            if c == '?': out.append(rng.choice('axy.')); i += 1; continue
            if c == '[':
                j = s.find(']', i + 2)
                if j < 0: out.append(c); i += 1; continue
                inner = s[i + 1:j]
                out.append(rng.choice([ch for ch in inner if ch not in '!^-\\'] or ['a'])); i = j + 1; continue
            if c == '\\' and i + 1 < len(s): out.append(s[i + 1]); i += 2; continue
            out.append(c); i += 1
        return ''.join(out)
    path = (D if rng.random() < 0.8 else rng.choice(['', '/a', '/ab', '/b', '/a/b/c'])) + '/' + rng.choice(['', '', 'q/', 'c/d/']) + inst(p)
    if dir_only or rng.random() < 0.15:
        path += rng.choice(['/', '/f', '/f/g', ''])
    r = rng.random()
    if r < 0.15 and len(path) > 2:
        k = rng.randrange(1, len(path)); path = path[:k] + path[k + 1:]
    elif r < 0.25:
        path += rng.choice(['x', '.bak', '/'])
    elif r < 0.30:
        path = '/' + rng.choice(FILE_NAMES + DIR_NAMES)
    path = path.replace('//', '/')
    # `.`/`..` components are not file names (and Path::strip_prefix in IgnoreRules::check would normalise them away)
    path = '/'.join('d' if c in ('.', '..') else c for c in path.split('/'))
    if path in ('', '/'): path = '/a'
    return g, path


# ---------------------------------------------------------------------------------------------
# running both sides

class Procs:
    def __init__(self, chk, impl, model):
        self.chk, self.impl, self.model = chk, impl, model
        self.sdir = os.path.join(chk.scratch, 'wh')
        os.makedirs(self.sdir, exist_ok=True)

    def both(self, lines, want_model=True):
        if self.impl is None:                   # no in-process harness: model answers only
            ans_m = [None] * len(lines)
            if want_model and self.model:
                rc2, ans_m, err_m = run_lines(self.model, [], lines, timeout=3000)
                if rc2 != 0:
                    raise RuntimeError(f'ignoremodel rc={rc2}: {err_m[-800:]}')
            return [None] * len(lines), ans_m, [[] for _ in lines]
        rc1, out_i, err_i = run_lines(self.impl, [self.sdir], lines, timeout=3000)
        if rc1 != 0:
            raise RuntimeError(f'walker_harness rc={rc1}: {err_i[-800:]}')
        ans_i, oracle, cur = [], [], []
        for l in out_i:
            if l.startswith('#oracle '): cur.append(l[8:])
            else: ans_i.append(l); oracle.append(cur); cur = []
        ans_m = [None] * len(lines)
        if want_model and self.model:
            rc2, ans_m, err_m = run_lines(self.model, [], lines, timeout=3000)
            if rc2 != 0:
                raise RuntimeError(f'ignoremodel rc={rc2}: {err_m[-800:]}')
        return ans_i, ans_m, oracle

    def impl_only(self, lines):
        a, _, o = self.both(lines, want_model=False)
        return a, o


def paths_of(ans):
    return sorted(unhx(h) for h in ans.split(' ') if h)


def stream_simple(chk, pr, name, cases, mk_line, nontrivial):
    """cases -> one line each; diff the answers"""
    st = chk.tie['streams'].setdefault(name, {'cases': 0, 'disagreements': 0})
    lines = [mk_line(c) for c in cases]
    ai, am, _ = pr.both(lines)
    first = None
    for c, x, y in zip(cases, ai, am):
        st['cases'] += 1; chk.evaluations += 1
        if nontrivial(c, x): chk.nontrivial.add(hashlib.sha1((name + repr(c)).encode()).hexdigest())
        if x != y:
            st['disagreements'] += 1
            if first is None: first = (c, x, y)
        if len(chk.samples) < 8 and st['cases'] % 97 == 5:
            chk.samples.append({'stream': name, 'case': c, 'implementation': x if len(x) < 200 else x[:200], 'model': y if y is None or len(y) < 200 else y[:200]})
    if first:
        chk.disagreement(name, first[0], first[1], first[2], 'first disagreement of the stream (answers hex-encoded where strings)')
    return st


# ---------------------------------------------------------------------------------------------
# tree-level judgement: model tie + independent oracle

def judge_tree(chk, pr, ents, reps, seed, max_us, full=True):
    """returns (list of oracle messages, list of tie messages, observations)"""
    enc = enc_tree(ents)
    lines = ['walk\t' + enc, f'pwalk\t{reps}\t{seed}\t{max_us}\t' + enc]
    ai, am, orc = pr.both(lines)
    msgs, tie = [], []
    for o in orc: msgs += o
    serial = paths_of(ai[0])
    if ai[0] == 'panic' or ai[1] == 'panic':
        return ['walker panicked'], tie, {'serial': ai[0], 'parallel': ai[1]}
    kind, _, rest = ai[1].partition(' ')
    if kind == 'differ':
        alts = [paths_of(x) for x in rest.split(' | ')]
        d = sorted(set(alts[0]) ^ set(alts[1]))
        msgs.append(f'walk_parallel emitted different path sets in {reps} repetitions of one tree; paths in one run only: {d}')
        par = alts[0]
    else:
        par = paths_of(rest)
    if kind != 'differ' and par != serial:
        msgs.append(f'walk_serial and walk_parallel disagree on: {sorted(set(par) ^ set(serial))}')
    # parent chain: an emitted path has an emitted parent (an ignored directory hides everything beneath it)
    for out, who in ((serial, 'walk_serial'), (par, 'walk_parallel')):
        s = set(out)
        for p in out:
            par_dir = p.rsplit('/', 1)[0]
            if par_dir and par_dir not in s:
                msgs.append(f'{who} emitted {p} although its directory {par_dir} was not emitted'); break
        if len(out) != len(s):
            msgs.append(f'{who} emitted a path twice')
    if am[0] is not None:
        model = sorted(unhx(h) for h in am[0].split(' ') if h)
        if model != serial: tie.append(('walk-serial', ai[0], ' '.join(hx(p) for p in model)))
        if kind != 'differ' and model != par: tie.append(('walk-parallel', rest, ' '.join(hx(p) for p in model)))
    obs = {'serial': serial, 'parallel': par}
    if not full:
        return msgs, tie, obs
    # enumeration order: the same tree created in another order
    sh_ents = list(ents); chk.rng.shuffle(sh_ents)
    a2, _ = pr.impl_only(['walk\t' + enc_tree(sh_ents)])
    if paths_of(a2[0]) != serial:
        msgs.append(f'walk_serial depends on the directory enumeration order: {sorted(set(paths_of(a2[0])) ^ set(serial))} differ after creating the same entries in another order')
    # scoping: removing the ignore file of D may only change paths under D
    idirs = [e[1] for e in ents if e[0] == 'I' and e[1]]
    for d in idirs[:3]:
        e2 = without_ignore(ents, d)
        a3, _ = pr.impl_only(['walk\t' + enc_tree(e2), f'pwalk\t{min(reps, 5)}\t{seed}\t{max_us}\t' + enc_tree(e2)])
        for got, base, who in ((paths_of(a3[0]), serial, 'walk_serial'), (paths_of(a3[1].partition(' ')[2].split(' | ')[0]), par, 'walk_parallel')):
            changed = [p for p in sorted(set(got) ^ set(base)) if not under(d, p)]
            if changed:
                msgs.append(f'scoping: removing {d}/{IGN} changed the status of {changed}, which are not under {d}/ ({who})')
    # file-system shape of the ignore files: the same rules as regular files select the same paths in every walker
    shaped = has_shapes(ents)
    if shaped:
        twin, only = regular_twin(ents)
        a4, _ = pr.impl_only(['walk\t' + enc_tree(twin), f'pwalk\t3\t{seed}\t{max_us}\t' + enc_tree(twin)])
        for got, base, who in ((serial, paths_of(a4[0]), 'walk_serial'), (par, paths_of(a4[1].partition(' ')[2].split(' | ')[0]), 'walk_parallel')):
            diff = sorted((set(got) ^ set(base)) - set(only))
            if diff:
                msgs.append(f'ignore-file shape: {who} selects different paths when the same rules are regular files instead of '
                            f'{sorted(e[2].split("|")[0] for e in ents if e[0] == "S") or ["a dangling link"]}: {diff}')
    # check-ignore level: model tie + scoping
    cand = sorted({('/' + e[1]) for e in ents if e[0] in 'FDL'})[:12]
    if cand:
        li = [f'checkignore\t{enc}\t{hx(p)}' for p in cand]
        ci, cm, _ = pr.both(li)
        for p, x, y in zip(cand, ci, cm):
            chk.count('checkignore:' + x)
            if y is not None and x != y: tie.append(('checkignore ' + p, x, y))
        if shaped:
            c4, _ = pr.impl_only([f'checkignore\t{enc_tree(twin)}\t{hx(p)}' for p in cand])
            ch = [p for p, x, y in zip(cand, ci, c4) if x != y and p not in only]
            if ch:
                msgs.append(f'ignore-file shape: check-ignore answers differently for {ch} when the same rules are regular files')
        for d in idirs[:2]:
            e2 = enc_tree(without_ignore(ents, d))
            c2, _ = pr.impl_only([f'checkignore\t{e2}\t{hx(p)}' for p in cand])
            ch = [p for p, x, y in zip(cand, ci, c2) if x != y and not under(d, p)]
            if ch:
                msgs.append(f'scoping: removing {d}/{IGN} changed the check-ignore verdict of {ch}, which are not under {d}/')
    return msgs, tie, obs


def special_hits(pr, trees):
    """for each tree: the .xvc/.git directory entries that some whitelist line of an ignore file above them matches
    according to the implementation's own Pattern::new + check (one harness batch for all trees)"""
    lines, owner = [], []
    for i, ents in enumerate(trees):
        specials = [e[1] for e in ents if e[0] == 'D' and e[1].split('/')[-1] in ('.xvc', '.git')]
        for q in specials:
            for e in ents:
                if e[0] != 'I' or not under(e[1], '/' + q): continue
                for l in e[2].replace('\r', '').split('\n'):
                    if l.startswith('!'):
                        lines.append(f'check\t{hx("/" + q)}\tF{hx(e[1])}\t{hx(l)}'); owner.append((i, q))
    hits = [set() for _ in trees]
    if lines:
        ans, _ = pr.impl_only(lines)
        for (i, q), a in zip(owner, ans):
            if a == 'whitelist': hits[i].add(q)
    return hits


def signature(pr, ents, msgs):
    """decidable facts about the minimised failing tree"""
    sig = {'stream': 'tree'}
    if any('.xvc' in m or '.git' in m for m in msgs) and special_hits(pr, [ents])[0]:
        sig = {'kind': 'whitelist-line-matches-.xvc-or-.git'}
    return sig


def shrink_tree(ents, fails, max_steps=150):
    steps, changed = 0, True
    ents = list(ents)
    while changed and steps < max_steps:
        changed = False
        i = 0
        while i < len(ents) and steps < max_steps:
            cand = normalise(ents[:i] + ents[i + 1:])
            steps += 1
            if cand and len(cand) < len(ents) and fails(cand):
                ents, changed = cand, True
            else:
                e = ents[i]
                if e[0] == 'I' and e[2].count('\n') > 1 and steps < max_steps:      # drop single lines
                    ls = e[2].split('\n')
                    done = False
                    for k in range(len(ls)):
                        c2 = '\n'.join(ls[:k] + ls[k + 1:])
                        cand = ents[:i] + [('I', e[1], c2)] + ents[i + 1:]
                        steps += 1
                        if fails(cand):
                            ents, changed, done = cand, True, True; break
                    if done: continue
                i += 1
    return ents


CORPUS = [
    f32_scenario(),        # repair F32: directory names with glob metacharacters are literals; runs first
    seed4_scenario(),      # C09-4: siblings whose name extends the name of the directory with the ignore file
    seed3_scenario(),      # C09-3: data/.xvcignore is a symbolic link to ../shared/r1.rules; runs first
    seed2_scenario(),      # C09-2: 59 patterns, paths matched by `*.dat` and by a `!keep-N.dat`; runs first, 25+ parallel walks / 24 listings
    # F8: a name-only line in a nested ignore file must not act outside its directory (symmetric: whichever of a/ b/ is visited first)
    [('D', 'a'), ('D', 'b'), ('F', 'a/' + IGN), ('I', 'a', 'g\n'), ('F', 'a/f'), ('F', 'a/g'),
     ('F', 'b/' + IGN), ('I', 'b', 'f\n'), ('F', 'b/f'), ('F', 'b/g')],
    [('D', 'a'), ('D', 'b'), ('D', 'b/c'), ('F', 'a/' + IGN), ('I', 'a', '*.bak\n!keep.txt\nbuild/\n'), ('F', 'a/x.bak'), ('F', 'b/x.bak'),
     ('F', 'b/c/x.bak'), ('F', 'b/keep.txt'), ('D', 'b/build'), ('F', 'b/build/o'), ('F', IGN), ('I', '', 'keep.txt\n')],
    # whitelist after ignore / built-ins
    [('F', IGN), ('I', '', '*.txt\n!keep.txt\n'), ('F', 'keep.txt'), ('F', 'a.txt'), ('D', '.xvc'), ('F', '.xvc/config'), ('D', 'sub'),
     ('D', 'sub/.git'), ('F', 'sub/.git/HEAD'), ('F', 'sub/keep.txt'), ('F', 'sub/b.txt')],
    # an ignored directory with a whitelisted child
    [('F', IGN), ('I', '', 'build\n!keep.txt\n'), ('D', 'build'), ('F', 'build/keep.txt'), ('D', 'build/sub'), ('F', 'build/sub/keep.txt'), ('F', 'keep.txt')],
    # the walker must load a directory's ignore file before checking its children
    [('D', 'd'), ('F', 'd/' + IGN), ('I', 'd', 'x\n/y\nsub/z\n'), ('F', 'd/x'), ('F', 'd/y'), ('D', 'd/sub'), ('F', 'd/sub/z'), ('F', 'd/sub/x'), ('F', 'x')],
]
KNOWN_REPLAYS = [
    # K-C09-whitelist: a whitelist line that matches .git/.xvc beats the built-in ignore patterns
    [('F', IGN), ('I', '', '!.git\n'), ('D', '.git'), ('F', '.git/config'), ('F', 'f')],
    [('F', IGN), ('I', '', '*\n!.*\n'), ('D', '.xvc'), ('F', '.xvc/config.toml'), ('F', 'f')],
]


# ---------------------------------------------------------------------------------------------
# builds

def hook_available():
    try:
        return 'verif' in open(os.path.join(REPO, 'walker', 'Cargo.toml')).read().split('[features]')[1].split('[')[0]
    except (OSError, IndexError):
        return False


def build_harness(chk):
    """the shared build, then (when xvc-walker has the `verif` feature) a second build with the schedule hook"""
    bindir = None if os.environ.get('VERIF_C09_NO_HARNESS') else chk.build_harness(['walker_harness'], fatal=False)
    if bindir is None:
        if os.environ.get('VERIF_C09_NO_HARNESS'):      # test switch: behave as if the in-process harness did not compile
            chk.proof['broken'].append({'stage': 'build', 'errors': ['harness build failed (simulated by VERIF_C09_NO_HARNESS)'], 'log_tail': ''})
        chk.notes.append('the in-process harness could not be built: the in-process tie is recorded as broken, the search for a failing input '
                         'goes on with the streams that only need the xvc binary')
        return None, hook_available()
    if not hook_available():
        return os.path.join(bindir, 'walker_harness'), False
    hdir = os.path.dirname(os.path.dirname(bindir)) if REPO != '/repo' else os.path.join(VERIF, 'harness')
    tdir = bindir[:-len('/debug')] + '-walker-hook'
    rc, out = sh(['cargo', 'build', '--offline', '--bin', 'walker_harness', '--features', 'xvc-walker/verif'],
                 cwd=hdir, env={'CARGO_TARGET_DIR': tdir}, timeout=3000)
    if rc != 0:
        chk.notes.append('hook build of walker_harness failed, falling back to plain repetitions: ' + out[-300:])
        return os.path.join(bindir, 'walker_harness'), False
    return os.path.join(tdir, 'debug', 'walker_harness'), True


def build_xvc(chk, hooked):
    if not hooked:
        return chk.build_xvc()
    tag = '' if REPO == '/repo' else '-' + hashlib.sha1(REPO.encode()).hexdigest()[:10]
    tdir = os.path.join(VERIF, 'target', 'hooks-walker' + tag)
    rc, out = sh(['cargo', 'build', '--offline', '-p', 'xvc', '--bin', 'xvc', '--features', 'xvc-walker/verif'],
                 cwd=REPO, env={'CARGO_TARGET_DIR': tdir}, timeout=6000)
    if rc != 0:
        chk.notes.append('hook build of xvc failed, using the plain binary: ' + out[-300:])
        return chk.build_xvc()
    return os.path.join(tdir, 'debug', 'xvc')


# ---------------------------------------------------------------------------------------------
# binary level

def materialise_repo(sb, ents):
    """entries -> files of a scratch repository, ignore files in their file-system shape; returns the root content `xvc init` wrote"""
    is_ign = lambda q: q == IGN or q.endswith('/' + IGN)
    for e in ents:
        if e[0] == 'D': os.makedirs(sb.path(e[1]), exist_ok=True)
    for e in ents:
        if e[0] == 'F' and not is_ign(e[1]): sb.write(e[1], 'data of ' + e[1])
    root_ign = sb.read(IGN).decode()
    shapes = {e[1]: e[2].split('|') for e in ents if e[0] == 'S'}
    ext = os.path.join(sb.base, 'ext')

    def link(rel, target):
        q = sb.path(rel)
        os.makedirs(os.path.dirname(q), exist_ok=True)
        if os.path.lexists(q): os.unlink(q)
        os.symlink(target, q)
    up = lambda d: '../' * len([c for c in d.split('/') if c])
    for e in ents:
        if e[0] == 'L' and is_ign(e[1]): link(e[1], 'no-such-target')
        if e[0] != 'I': continue
        d = e[1]
        at = (d + '/' if d else '') + IGN
        # the root file keeps the content `xvc init` wrote (generated XVCIGNORE_INITIAL_CONTENT) in front
        content = (root_ign if d == '' else '') + e[2]
        f = shapes.get(d, ['regular'])
        if f[0] in ('rel-inside', 'abs-inside', 'hard', 'chain'):
            rule = f[-1]
            sb.write(rule, content)
            if f[0] == 'rel-inside': link(at, up(d) + rule)
            elif f[0] == 'abs-inside': link(at, sb.path(rule))
            elif f[0] == 'hard':
                if os.path.lexists(sb.path(at)): os.unlink(sb.path(at))
                os.link(sb.path(rule), sb.path(at))
            else:
                link(f[1], up(os.path.dirname(f[1])) + rule); link(at, up(d) + f[1])
        elif f[0] in ('rel-outside', 'abs-outside'):
            os.makedirs(ext, exist_ok=True)
            open(os.path.join(ext, f[1]), 'w').write(content)
            link(at, up(d) + '../ext/' + f[1] if f[0] == 'rel-outside' else os.path.join(ext, f[1]))
        else:
            sb.write(at, content)
    for d, f in shapes.items():
        if f[0] == 'todir': link((d + '/' if d else '') + IGN, up(d) + f[1])
    sb.git('add', '--', '*' + IGN); sb.git('commit', '-q', '-m', 'ignore files')
    return root_ign


def plain_listing(chk, xvc, ents, name):
    """`xvc file list` + `xvc check-ignore` of a second scratch repository (the regular-file twin of a shaped tree)"""
    sb = Sandbox(chk.scratch, name, xvc)
    try:
        if sb.init()[0] != 0: return None, None
        materialise_repo(sb, ents)
        rc, out, err = sb.x('file', 'list', '--show-dot-files', '--format', '{{name}}')
        names = sorted(l for l in out.split('\n') if l and not l.startswith('Total #')) if rc == 0 else None
        cand = sorted(e[1] for e in ents if e[0] == 'F' and not e[1].endswith(IGN))[:10]
        rc, out, err = sb.x('check-ignore', *cand) if cand else (0, '', '')
        ci = sorted(l.replace(sb.root, '') for l in out.split('\n') if l.startswith('['))
        return names, ci
    finally:
        sb.cleanup()


def binary_case(chk, pr, xvc, ents, idx, reps, hooked, confine=False):
    """`xvc file list`, `xvc file track dir/`, `xvc check-ignore` on a scratch repository; returns (oracle msgs, tie msgs)"""
    is_ign = lambda q: q == IGN or q.endswith('/' + IGN)
    ents = [e for e in ents if (e[0] != 'L' or is_ign(e[1])) and not any(s in ('.xvc', '.git') for s in e[1].split('/'))]
    ents = normalise(ents)
    sb = Sandbox(chk.scratch, f'bin{idx}', xvc)
    msgs, tie = [], []
    try:
        rc, out, err = sb.init()
        if rc != 0:
            return [f'xvc init failed rc={rc}: {err[-200:]}'], tie
        root_ign = materialise_repo(sb, ents)
        rc, gl, _ = sb.git('ls-files')
        git_tracked = set(gl.split('\n'))
        # the model's view of this repository
        ments = [(('F', e[1]) if e[0] == 'L' else e) for e in ents if e[0] not in 'IS' and not (e[0] == 'F' and e[1] == IGN)] + [('F', IGN), ('F', '.gitignore')]
        ments += [('I', e[1], (root_ign if e[1] == '' else '') + e[2]) for e in ents if e[0] == 'I']
        if not any(e[0] == 'I' and e[1] == '' for e in ments): ments.append(('I', '', root_ign))
        enc = enc_tree(ments)
        _, am, _ = pr.both(['walk\t' + enc])
        model_all = sorted(unhx(h) for h in am[0].split(' ') if h) if am[0] is not None else None
        files = {e[1] for e in ments if e[0] == 'F'}
        expect = None if model_all is None else sorted(p[1:] for p in model_all if p[1:] in files and p[1:] not in git_tracked)
        outs = []
        for i in range(reps):
            env = {'XVC_VERIF_SCHED': f'{chk.seed * 7919 + idx * 131 + i}:{300 if i % 2 else 60}'} if hooked else None
            rc, out, err = sb.x('file', 'list', '--show-dot-files', '--format', '{{name}}', env=env)
            if rc != 0:
                msgs.append(f'xvc file list rc={rc}: {err[-200:]}'); break
            names = sorted(l for l in out.split('\n') if l and not l.startswith('Total #'))
            outs.append(names)
        if outs and any(o != outs[0] for o in outs):
            other = next(o for o in outs if o != outs[0])
            msgs.append(f'`xvc file list` printed different path sets in {reps} runs on an unchanged workspace: {sorted(set(other) ^ set(outs[0]))}')
        if outs:
            if any(p.split('/')[0] in ('.xvc', '.git') or '/.git/' in p or '/.xvc/' in p for p in outs[0]):
                msgs.append('`xvc file list` shows paths inside .xvc/.git')
            if expect is not None and outs[0] != expect:
                tie.append(('file-list', outs[0], expect))
        # confinement (second repository without the ignore file of D): only paths below D may be listed / judged differently
        if outs and confine:
            cand0 = sorted(e[1] for e in ents if e[0] == 'F' and not e[1].endswith(IGN))[:10]
            mine = None
            for d in [e[1] for e in ents if e[0] == 'I' and e[1]][:2]:
                tl, tci = plain_listing(chk, xvc, without_ignore(ents, d), f'bin{idx}conf')
                chk.count('binary:confinement-twin')
                if tl is None: continue
                changed = sorted(f for f in set(tl) ^ set(outs[0]) if not under(d, '/' + f))
                if changed:
                    msgs.append(f'confinement: removing {d}/{IGN} changes whether `xvc file list` considers {changed}, which are not below {d}/')
                if mine is None and cand0:
                    rc, out, err = sb.x('check-ignore', *cand0)
                    mine = sorted(l.replace(sb.root, '') for l in out.split('\n') if l.startswith('['))
                if mine is not None and tci is not None:
                    ch = sorted(l for l in set(mine) ^ set(tci) if not under(d, l.split('] ', 1)[-1]))
                    if ch:
                        msgs.append(f'confinement: removing {d}/{IGN} changes the `xvc check-ignore` answer for paths that are not below {d}/: {ch}')
        # the same rules as regular files (second repository): same listing, same check-ignore answers
        if outs and has_shapes(ents):
            twin, only = regular_twin(ents)
            tl, tci = plain_listing(chk, xvc, twin, f'bin{idx}twin')
            chk.count('binary:shape-twin')
            if tl is not None and set(tl) - {o[1:] for o in only} != set(outs[0]) - {o[1:] for o in only}:
                msgs.append(f'ignore-file shape: `xvc file list` selects different paths when the same rules are regular files instead of '
                            f'{sorted(e[2].split("|")[0] for e in ents if e[0] == "S") or ["a dangling link"]}: {sorted(set(tl) ^ set(outs[0]))}')
            cand0 = sorted(e[1] for e in twin if e[0] == 'F' and not e[1].endswith(IGN))[:10]
            if tci is not None and cand0:
                rc, out, err = sb.x('check-ignore', *cand0)
                mine = sorted(l.replace(sb.root, '') for l in out.split('\n') if l.startswith('['))
                if mine != tci:
                    msgs.append(f'ignore-file shape: `xvc check-ignore` answers differently when the same rules are regular files: {sorted(set(mine) ^ set(tci))}')
        # glob targets select among the considered paths only: nothing the whole listing hides may come back through a glob
        if outs:
            whole = set(outs[0])
            globs = sorted({os.path.dirname(f).split('/')[0][:-1] + '?/*' for f in files if '/' in f and len(f.split('/')[0]) > 1} |
                           {'*/' + os.path.basename(f) for f in files if f.count('/') == 1} | {'*/*/*'})[:5]
            for g in globs:
                rc, out, err = sb.x('file', 'list', '--show-dot-files', '--format', '{{name}}', g)
                if rc != 0: continue
                sel = sorted(l for l in out.split('\n') if l and not l.startswith('Total #'))
                chk.count('binary:glob-target')
                extra = [f for f in sel if f in files and f not in whole and f not in git_tracked]
                if extra:
                    msgs.append(f"`xvc file list '{g}'` selects {extra}, which `xvc file list` (no target) does not consider")
                if expect is not None:
                    back = [f for f in sel if f in files and f not in expect and f not in git_tracked]
                    if back and not extra: tie.append((f"file-list '{g}'", sel, expect))
        # check-ignore
        cand = sorted(e[1] for e in ents if e[0] in 'FD')[:10]
        if cand:
            rc, out, err = sb.x('check-ignore', *cand)
            got = {}
            for l in out.split('\n'):
                if l.startswith('['):
                    v, _, p = l.partition('] ')
                    got[os.path.relpath(p, sb.root)] = {'[IGNORE': 'ignore', '[NO MATCH': 'nomatch', '[WHITELIST': 'whitelist'}.get(v, v)
            _, cm, _ = pr.both([f'checkignore\t{enc}\t{hx("/" + p)}' for p in cand])
            for p, y in zip(cand, cm):
                if y is not None and got.get(p) != y: tie.append(('xvc check-ignore ' + p, got.get(p), y))
        # track one directory: recorded paths = the walk below it
        dirs = sorted(e[1] for e in ents if e[0] == 'D' and '/' not in e[1] and not has_meta(e[1]))     # `track <dir>/` takes a glob: plain names only
        if dirs:
            d = dirs[idx % len(dirs)]
            env = {'XVC_VERIF_SCHED': f'{chk.seed + idx}:200'} if hooked else None
            rc, out, err = sb.x('file', 'track', d + '/', env=env)
            if rc != 0:
                msgs.append(f'xvc file track {d}/ rc={rc}: {err[-200:]}')
            else:
                rec = sorted(set(sb.store_map('xvc-path').values()))
                if model_all is not None:
                    exp = sorted(p[1:] for p in model_all if p.startswith('/' + d + '/') and p[1:] not in git_tracked)
                    if rec != exp: tie.append((f'file-track {d}/', rec, exp))
                if outs and not set(x for x in rec if x in files) <= set(outs[0]) | git_tracked:
                    msgs.append(f'`xvc file track {d}/` recorded {sorted(set(x for x in rec if x in files) - set(outs[0]))}, which `xvc file list` did not show')
        chk.count('binary:repositories')
    finally:
        sb.cleanup()
    return msgs, tie


# ---------------------------------------------------------------------------------------------

def run(chk: Check):
    quick = chk.tier == 'quick'
    ignore_extract.run(chk)
    model = chk.lean('XvcIgnore', 'XvcIgnore.Props.C09', exe='ignoremodel',
                     extra_modules=['XvcIgnore.Glob', 'XvcIgnore.Pattern', 'XvcIgnore.Walk', 'XvcIgnore.Lemmas', 'XvcIgnore.WalkLemmas', 'XvcIgnore.PStep'],
                     build_targets=['XvcIgnore.Props.C09'])     # the package is shared with C16: build this check's modules only
    impl, hooked = build_harness(chk)
    xvc = build_xvc(chk, hooked)
    if not os.path.exists(model):
        chk.notes.append('model driver did not build; only the implementation-side oracle can run')
        model = None
    pr = Procs(chk, impl, model)
    chk.trusted_base += [
        'translator lib/ignore_extract.py (anchored regex extraction of COMMON_IGNORE_PATTERNS, XVCIGNORE/GITIGNORE_INITIAL_CONTENT, MAX_THREADS_PARALLEL_WALK); the string constants are additionally compared with the values compiled into the code (stream `const`)',
        'correspondence harness harness/src/bin/walker_harness.rs (calls Pattern::new, content_to_patterns, IgnoreRules::check, walk_serial, walk_parallel, build_ignore_patterns in-process on real scratch trees) and lib/c09.py (generators, diff, oracle)',
        'modelled, not verified: fast_glob::glob_match outside the generated shapes (a leading ! of a whole glob, ** glued to other characters, non-ASCII bytes), rayon par_iter().find_any, RwLock atomicity of update_ignore_rules/check, crossbeam SegQueue, std::fs::read_dir, Path::parent/strip_prefix on clean relative paths',
        'schedule hook (cargo feature `verif` of xvc-walker, patches/hook-walker.patch): seeded sleeps only' if hooked else
        'schedule perturbation: none available (xvc-walker has no `verif` feature in this tree); parallel walks are only repeated',
    ]
    chk.assumptions += [
        'the threads of walk_parallel / the loop of walk_serial are modelled by the transition system PStep (PStep.lean) at the granularity of the code\'s RwLock: update_ignore_rules(dir) is one atomic append that precedes the checks of dir\'s children (program order in walk_parallel_inner / walk_serial), each check is atomic, a directory is queued only after its own check; any pending directory and any unchecked child may be taken next (C09_every_schedule). `walkWith extra` (C09_parallel_deterministic) is the same statement with the interference as an explicit parameter',
        'TreeOk: entry names are non-empty and contain no / (true of every file system); names may contain glob metacharacters — the directory part of a glob is escaped (repair F32, C09_escape_literal) — and such names are generated',
        'C09_never_enters_xvc_git assumes no whitelist line matches an entry called .xvc/.git (SafeWhite); the excluded region is the proved C09_whitelist_escape_counterexample and is replayed on the implementation',
        'ignore files and names are ASCII in the correspondence streams',
    ]
    chk.extra['schedule_hook'] = hooked
    chk.extra['model_mirrors'] = 'the code with the F8 repair (patches/C09-F8.patch) and the F32 repair (patches/F32-ignore-directory-literal.patch): globs of non-root ignore files are <escaped dir>/**/<line>'

    rng = chk.rng
    globs = pats = contents = checks = merged = trees = twins = larges = shapes = []
    reps, max_us = (25 if quick else 100), ((300 if quick else 120) if hooked else 0)
    if impl is None:
        chk.count('in-process streams skipped (harness not built)')
    else:
        # ---- S3a constants
        consts = ['common', 'xvcignore', 'gitignore']
        stream_simple(chk, pr, 'const', consts, lambda c: 'const\t' + c, lambda c, x: True)

        # ---- S3b glob / pattern / content / check streams
        n_glob = 3000 if quick else 60000
        n_pat = 2000 if quick else 40000
        n_content = 400 if quick else 6000
        n_check = 1500 if quick else 30000
        rng = chk.rng
        globs = [gen_glob_case(rng, chk) for _ in range(n_glob)]
        # fixed shape table from DESIGN.md section 7 and the repository's own unit tests
        globs += [('**/x', '/x'), ('**/x', '/b/x'), ('/a/**/x', '/ab/x'), ('/a/**/x', '/a/x'), ('**/d/**', '/d/f'), ('**/d/**', '/d/'), ('**/d/**', '/d'),
                  ('/**/dir-0001/*', '/dir-0001/file-0001.bin'), ('/**/dir-00**/*/*.bin', '/dir-0001/file-0002.bin'), ('**/dir-00**/**', '/dir-0001/file-0002.bin'),
                  ('/dir-0002/**/**', '/dir-0001/file-0001.bin'), ('/dir-0001/**/**/*.bin', '/dir-0001/file-0001.bin'), ('**/.xvc', '/a/.xvc'), ('**/.git', '/.git')]
        st = stream_simple(chk, pr, 'glob', globs, lambda c: f'glob\t{hx(c[0])}\t{hx(c[1])}', lambda c, x: x == '1')
        srcs = ['G', 'F', 'F' + hx('a'), 'F' + hx('a/b'), 'F' + hx('sub'), 'F' + hx('data/x/c'), 'F' + hx('d[1]'), 'F' + hx('{a}/q?'), 'F' + hx('p/st*r/b\\c'), 'F' + hx('!x]')]
        pats = [(rng.choice(srcs), gen_line(rng, [], [], chk)) for _ in range(n_pat)]
        pats += [(s, l) for s in srcs for l in ['myfile', '/myfile', 'myfile/', 'mydir/myfile', '/my/file.*', '/mydir/**.*', '!mydir/*/file', '!myfile/', '/', '//', 'a//', '**/', '!', '\\!x', 'x \\ ', ' x']]
        stream_simple(chk, pr, 'pattern', pats, lambda c: f'pat\t{c[0]}\t{hx(c[1])}', lambda c, x: 'white=1' in x or 'dir=1' in x or 'some:' in x)
        contents = [(rng.choice(srcs), gen_content(rng, [], [])) for _ in range(n_content)]
        stream_simple(chk, pr, 'content', contents, lambda c: f'content\t{c[0]}\t{hx(c[1])}', lambda c, x: x.count(':') >= 2)
        checks = []
        for _ in range(n_check):
            k = rng.randint(1, 6)
            rules = [(rng.choice(srcs), gen_line(rng, [], [])) for _ in range(k)]
            segs = [rng.choice(DIR_NAMES) for _ in range(rng.randint(0, 3))] + [rng.choice(FILE_NAMES + DIR_NAMES)]
            pth = '/' + '/'.join(segs)
            if rng.random() < 0.3:                      # a path below the directory of one of the rules (metacharacter names included) …
                src = rng.choice(rules)[0]
                if len(src) > 1:
                    d0 = unhx(src[1:])
                    if rng.random() < 0.3: d0 = ''.join(ch for ch in d0 if ch not in '[]{}\\!') .replace('*', 'a').replace('?', '1')   # … or below its plain look-alike
                    pth = '/' + d0 + '/' + segs[-1]
            checks.append((pth, rules))
        stream_simple(chk, pr, 'check', checks, lambda c: 'check\t' + hx(c[0]) + ''.join(f'\t{s}\t{hx(l)}' for s, l in c[1]),
                      lambda c, x: x != 'nomatch')
        # rule sets built as the walkers build them (one add_patterns/merge_with per ignore file), the same line in several files;
        # independent oracle: the verdict does not depend on the order in which the files were loaded
        merged = gen_merged_checks(rng, 150 if quick else 3000, chk)
        mk = lambda c: 'checkm\t' + hx(c[0]) + ''.join(f'\t{s2}\t{hx(l)}' for s2, l in c[1])
        stream_simple(chk, pr, 'check-merged', merged, mk, lambda c, x: x != 'nomatch')
        def by_file_reversed(rules):
            groups = []
            for r in rules:
                if groups and groups[-1][0][0] == r[0]: groups[-1].append(r)
                else: groups.append([r])
            return [r for g in reversed(groups) for r in g]
        rev = [(pth, by_file_reversed(rules)) for pth, rules in merged]
        a_fwd, _ = pr.impl_only([mk(c) for c in merged])
        a_rev, _ = pr.impl_only([mk(c) for c in rev])
        for c, x, y in zip(merged, a_fwd, a_rev):
            if x != y:
                chk.oracle_failure(f'IgnoreRules::check says {x} for {c[0]} when the ignore files are loaded in one order and {y} in the reverse order',
                                   {'path': c[0], 'rules': [(unhx(s2[1:]) if s2 != 'G' else 'G', l) for s2, l in c[1]], 'level': 'check'},
                                   {'forward': x, 'reverse': y}, signature={'stream': 'check-merged'})
                break

        large_rule_checks(chk, pr, 21 if quick else 280, 8 if quick else 12)

        # ---- S3c/S4 trees: walkers vs model, oracle
        n_trees = 14 if quick else 360
        reps = 25 if quick else 100
        max_us = (300 if quick else 120) if hooked else 0
        st = chk.tie['streams'].setdefault('tree', {'cases': 0, 'disagreements': 0, 'oracle_failures': 0, 'parallel_repetitions': 0})
        twins = [gen_twin_tree(rng, rel, cls, chk) for _ in range(1 if quick else 4) for rel in TWIN_RELATIONS for cls in TWIN_CLASSES]
        larges = [gen_large(rng, draw_size(rng, chk.seed + k), chk)[1] for k in range(5 if quick else 70)]
        shapes = gen_shape_trees(rng, 2 if quick else 60, chk)
        exts = [gen_ext_tree(rng, EXT_CLASSES[(chk.seed + k) % 6], k % 2 == 1, chk) for k in range(6 if quick else 48)]
        metas = [gen_meta_tree(rng, META_PAIRS[k % len(META_PAIRS)], EXT_CLASSES[(chk.seed + 2 * k) % 6], k % 3 == 2, chk) for k in range(7 if quick else 56)]
        trees = [list(t) for t in CORPUS] + exts + metas + shapes + larges + twins + [gen_tree(rng, chk) for _ in range(n_trees)]
        # known-finding region K11 is kept out of the generated stream: a whitelist line that matches a .xvc/.git directory
        for i, hit in enumerate(special_hits(pr, trees)):
            if hit:
                chk.count('tree:special-dir-dropped(K11 region)', len(hit))
                trees[i] = normalise([e for e in trees[i] if not any(e[1] == q or e[1].startswith(q + '/') for q in hit)])
        first_oracle, first_tie = None, None
        for i, ents in enumerate(trees):
            msgs, tie, obs = judge_tree(chk, pr, ents, reps, chk.seed * 100003 + i, max_us)
            st['cases'] += 1; st['parallel_repetitions'] += reps; chk.evaluations += 1
            nign = sum(1 for e in ents if e[0] == 'I')
            hidden = len([e for e in ents if e[0] != 'I']) - len(obs.get('serial', []))
            chk.count('tree:ignore-files', nign); chk.count('tree:entries', len(ents) - nign); chk.count('tree:hidden-entries', max(hidden, 0))
            if nign >= 1 and hidden >= 1 and any(e[0] == 'I' and e[1] for e in ents):
                chk.nontrivial.add(hashlib.sha1(enc_tree(ents).encode()).hexdigest())
            if msgs:
                st['oracle_failures'] += 1
                if first_oracle is None: first_oracle = (i, ents, msgs)
            if tie:
                st['disagreements'] += 1
                if first_tie is None: first_tie = (i, ents, tie)
            if len(chk.samples) < 8 and nign >= 2 and hidden >= 2 and i % 5 == 0:
                chk.samples.append({'stream': 'tree', 'tree': show_tree(ents), 'emitted (serial = parallel x%d = model)' % reps: obs.get('serial')})
        if first_oracle:
            i, ents, msgs = first_oracle
            seed = chk.seed * 100003 + i
            small = shrink_tree(ents, lambda c: bool(judge_tree(chk, pr, c, min(reps, 10), seed, max_us)[0]))
            m2 = judge_tree(chk, pr, small, reps, seed, max_us)[0] or msgs
            chk.oracle_failure(m2[0], {'tree': small, 'show': show_tree(small)}, {'all': m2, 'original_tree': show_tree(ents)}, signature=signature(pr, small, m2))
        if first_tie:
            i, ents, tie = first_tie
            small = shrink_tree(ents, lambda c: bool(judge_tree(chk, pr, c, 3, 1, 0)[1]))
            t2 = judge_tree(chk, pr, small, 3, 1, 0)[1] or tie
            chk.disagreement('tree', show_tree(small), t2[0][1], t2[0][2], t2[0][0] + ' (paths hex-encoded)')

        # ---- known-finding replays (judged by the oracle alone)
        for ents in KNOWN_REPLAYS:
            msgs, _, obs = judge_tree(chk, pr, ents, 5, 1, max_us, full=False)
            chk.count('known-replay')
            if msgs:
                chk.oracle_failure(msgs[0], {'tree': ents, 'show': show_tree(ents)}, {'all': msgs, 'emitted': obs.get('serial')}, signature=signature(pr, ents, msgs))

    # ---- binary level
    n_bin = 1 if quick else 36
    breps = 6 if quick else 20
    bst = chk.tie['streams'].setdefault('binary', {'cases': 0, 'disagreements': 0, 'oracle_failures': 0})
    pick = [(TWIN_RELATIONS[(chk.seed + k) % 3], TWIN_CLASSES[(chk.seed + k) % len(TWIN_CLASSES)]) for k in range(2)] if quick else \
           [(r, c) for r in TWIN_RELATIONS for c in TWIN_CLASSES]
    blarge = [gen_large(rng, draw_size(rng, chk.seed + 4 + k), chk)[1] for k in range(1 if quick else 14)]
    bshapes = [seed3_scenario(k2, d2) for k2, d2 in ([('abs-outside', ''), ('chain', 'data')] if quick else [(k3, d3) for k3 in LOADING_SHAPES + NONLOADING_SHAPES for d3 in ('data', '')])]
    bext = [gen_ext_tree(rng, EXT_CLASSES[(chk.seed + 5 * k + 1) % 6], k % 2 == 1, chk) for k in range(2 if quick else 12)]
    bmeta = [gen_meta_tree(rng, META_PAIRS[(chk.seed + k) % len(META_PAIRS)], EXT_CLASSES[(chk.seed + 3 * k) % 6], k % 2 == 1, chk) for k in range(2 if quick else 14)]
    # (tree, repetitions of `xvc file list`, confinement twins?) — corpus: F32, C09-4, C09-3, C09-2 (24 listings), F8, …
    bcases = [(list(CORPUS[0]), breps, True), (list(CORPUS[1]), 12, True), (list(CORPUS[2]), breps, False), (list(CORPUS[3]), 24, False),
              (list(CORPUS[4]), breps, False), (list(CORPUS[5]), breps, False)]
    bcases += [(t, breps, True) for t in bext + bmeta] + [(t, 10, False) for t in blarge] + [(t, breps, False) for t in bshapes]
    bcases += [(gen_twin_tree(rng, r, c, chk), breps, False) for r, c in pick] + [(gen_tree(rng, chk, special=False), breps, False) for _ in range(n_bin)]
    for i, (ents, nrep, confine) in enumerate(bcases):
        msgs, tie = binary_case(chk, pr, xvc, ents, i, nrep, hooked, confine=confine)
        bst['cases'] += 1; chk.evaluations += 1
        if msgs:
            bst['oracle_failures'] += 1
            if bst['oracle_failures'] == 1:
                chk.oracle_failure(msgs[0], {'tree': ents, 'show': show_tree(ents), 'level': 'binary'}, {'all': msgs}, signature={'stream': 'binary'})
        if tie:
            bst['disagreements'] += 1
            if bst['disagreements'] == 1:
                chk.disagreement('binary', show_tree(ents), tie[0][1], tie[0][2], tie[0][0])

    chk.extra['rule'] = (
        f'constants (3); {len(globs)} (glob, path) pairs with globs of the four shapes of transform_pattern_for_glob x bodies from the gitignore grammar '
        f'(names, *.ext, dir/, /anchored, a/b, **/x, ?, [..], escapes; shape/body classes counted in generator_distribution) and paths instantiated from the glob then perturbed; '
        f'{len(pats)} Pattern::new (source dir, line) pairs, all fields; {len(contents)} ignore-file contents through content_to_patterns; '
        f'{len(checks)} IgnoreRules::check calls on rule sets of 1-6 lines; {len(merged)} checks on rule sets merged file by file (add_patterns) with the same line in the ignore files of two directories, forwards and in reverse load order; {len(twins)} twin trees (LARGE rule sets first: the seeded scenario C09-2 and {len(larges)} generated trees whose accumulated rule set has a size drawn around 8/16/31/32/33/64/128 with paths matched by ignore and whitelist lines at once; then the identical line — name, *.ext, dir/, !negation, a/b, /anchored — in the ignore files of sibling, cousin and parent+child directories) + {len(trees) - len(twins)} real trees (<= 4 levels, <= 20 entries, ignore files at random directories, '
        f'.xvc/.git directories, symlinks) each walked by walk_serial, by walk_parallel {reps}x' + (' with seeded hook delays' if hooked else '') +
        ', again after re-creating the entries in a shuffled order, again without the ignore file of up to 3 directories (scoping), '
        f'plus build_ignore_patterns+check on up to 12 paths; {len(bcases)} scratch repositories (corpus first: F32, C09-4 with confinement twin repositories, C09-3, C09-2; name-extension and metacharacter-directory trees) driven by the rebuilt xvc binary (file list x{breps}, glob targets, check-ignore, file track dir/; the first ones are twin trees). '
        'Non-trivial = a glob that matched / a pattern with a non-default field / a check with a verdict / a tree with a nested ignore file that hides something; distinct by input.')
    chk.extra['programs'] = len(trees) + len(bcases)
    return chk.finish()


def replay(chk: Check, data):
    impl, hooked = build_harness(chk)
    pr = Procs(chk, impl, None)
    for f in data.get('failures', []):
        case = f['case']
        if case.get('level') == 'check-large':
            l = case['op'] + '\t' + hx(case['path']) + ''.join(f'\tF{hx(d2)}\t{hx(x)}' for d2, x in case['rules'])
            ans, _ = pr.impl_only([l] * 200)
            chk.evaluations += 1
            print(case['op'], case['path'], 'with', len(case['rules']), 'rules, 200 repetitions ->', {a: ans.count(a) for a in set(ans)})
            if len(set(ans)) > 1:
                chk.oracle_failure(f'IgnoreRules::check gave {sorted(set(ans))} for one path and one rule set in 200 repetitions', case, None, signature={'stream': 'check-large'})
            else:
                print('oracle: property holds on this input')
            continue
        if case.get('level') == 'check':
            rules = [('G' if s2 == 'G' else 'F' + hx(s2), l) for s2, l in case['rules']]
            mk = lambda rs: 'checkm\t' + hx(case['path']) + ''.join(f'\t{s2}\t{hx(l)}' for s2, l in rs)
            groups = []
            for r in rules:
                if groups and groups[-1][0][0] == r[0]: groups[-1].append(r)
                else: groups.append([r])
            ans, _ = pr.impl_only([mk(rules), mk([r for g in reversed(groups) for r in g])])
            chk.evaluations += 1
            print('check', case['path'], 'rules', case['rules'], '->', ans[0], '(files loaded in order) /', ans[1], '(reverse order)')
            if ans[0] != ans[1]:
                chk.oracle_failure(f'IgnoreRules::check depends on the load order of the ignore files: {ans[0]} vs {ans[1]}', case, None, signature={'stream': 'check-merged'})
            continue
        ents = [tuple(e) for e in case['tree']]
        if case.get('level') == 'binary':
            xvc = build_xvc(chk, hooked)
            msgs, _ = binary_case(chk, pr, xvc, ents, 0, 6, hooked)
        else:
            msgs, _, obs = judge_tree(chk, pr, ents, 25, 1, 300 if hooked else 0)
            print('emitted (serial):', obs.get('serial'))
        chk.evaluations += 1
        print('tree:'); [print('  ', l) for l in show_tree(ents)]
        print('oracle:', msgs or 'property holds on this input')
        if msgs:
            chk.oracle_failure(msgs[0], case, {'all': msgs}, signature=signature(pr, ents, msgs))
    return chk.finish()
