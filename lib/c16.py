"""C16 — Tracked data files never enter Git.

Proof: lean/XvcIgnore (GitIgnore.lean, Props/C16.lean).  Tie: translator (GITIGNORE_INITIAL_CONTENT, …) +
correspondence of the model with (a) xvc's own reading of .gitignore files (walker_harness `gcheckignore`
= build_gitignore + IgnoreRules::check), (b) git's reading (real `git check-ignore --no-index` on real trees)
and (c) the bytes of every .gitignore after `xvc file track/recheck/copy/move` driven through the rebuilt binary.
Oracle (independent of the model): after every command every xvc-tracked path is ignored according to real git,
`git add -A -n` stages none of them and nothing of the cache, every .gitignore has its previous bytes as a prefix
and its previous lines as a prefix of its lines.

The Lean model mirrors the code WITH patches/C09-F8.patch and patches/C16-newline.patch.
"""
import hashlib, os, re, shutil, subprocess
from common import Check, VERIF, REPO, sh
import ignore_extract, c09
from c09 import hx, unhx, Procs, enc_tree, normalise, show_tree
from xvcbin import Sandbox

GI = '.gitignore'
DATA = ['x.bin', 'y.bin', 'data.bin', 'keep.bin', 'm.dat', 'n.dat', 'w.txt', 'model.pt']
DIRS = ['a', 'b', 'c', 'sub', 'data', 'out']
BANNER = re.compile(r'### Following (\d+) lines are added by xvc on [^\n]*\n')

# ---------------------------------------------------------------------------------------------
# generators

def g_line(rng, names, dnames, chk=None):
    n = lambda: rng.choice(names) if names and rng.random() < 0.8 else rng.choice(DATA)
    d = lambda: rng.choice(dnames) if dnames and rng.random() < 0.8 else rng.choice(DIRS)
    ext = lambda: rng.choice(['bin', 'dat', 'txt', 'pt'])
    r = rng.random()
    if r < 0.06: cls, body = 'comment-or-blank', rng.choice(['# user comment', '', '#x.bin', '   '])
    elif r < 0.24: cls, body = 'name', n()
    elif r < 0.40: cls, body = 'star-ext', '*.' + ext()
    elif r < 0.50: cls, body = 'dir-slash', d() + '/'
    elif r < 0.60: cls, body = 'anchored', '/' + rng.choice([n(), d() + '/', '*.' + ext(), d()])
    elif r < 0.72: cls, body = 'a/b', d() + '/' + rng.choice([n(), '*.' + ext(), '*', d() + '/'])
    elif r < 0.82: cls, body = 'globstar', rng.choice(['**/' + n(), '**/' + d() + '/', d() + '/**', d() + '/**/' + n(), '**/' + d() + '/' + n()])
    elif r < 0.88: cls, body = 'question', rng.choice([n()[:-1] + '?', '?' + n()[1:]])
    elif r < 0.94: cls, body = 'class', rng.choice(['[xy].bin', '[a-c]', 'x.[a-c]in', '[mn].dat'])
    else: cls, body = 'dir-name', d()
    if cls != 'comment-or-blank':
        if rng.random() < 0.2: body, cls = '!' + body, 'neg-' + cls
        r2 = rng.random()
        if r2 < 0.05: body, cls = body + rng.choice([' ', '  ']), cls + '+trailing-space'
        elif r2 < 0.07: body, cls = '\\' + rng.choice(['!', '#']) + body, cls + '+escaped-first'
    if chk: chk.count('gitline:' + cls)
    return body


def g_content(rng, names, dnames, chk=None, nonl=0.2):
    lines = [g_line(rng, names, dnames, chk) for _ in range(rng.randint(1, 4))]
    return '\n'.join(lines) + ('' if rng.random() < nonl else '\n')


def g_tree(rng, chk=None):
    """entries as in c09: ('D', path) ('F', path) ('I', dir, .gitignore content)"""
    ents, names, dnames = [], [], []

    def fill(d, depth):
        here = d + '/' if d else ''
        for n in rng.sample(DATA, rng.randint(0, 3)):
            ents.append(('F', here + n)); names.append(n)
        if depth < 3:
            for n in rng.sample(DIRS, rng.randint(0, 2 if depth else 3)):
                ents.append(('D', here + n)); dnames.append(n)
                fill(here + n, depth + 1)
    fill('', 0)
    for d in [''] + [e[1] for e in ents if e[0] == 'D']:
        if rng.random() < (0.6 if d == '' else 0.4):
            ents.append(('F', (d + '/' if d else '') + GI))
            ents.append(('I', d, g_content(rng, names, dnames, chk)))
    return ents


# ---------------------------------------------------------------------------------------------
# real git

def git_env(home):
    return {'PATH': os.environ.get('PATH', '/usr/bin:/bin'), 'HOME': home, 'XDG_CONFIG_HOME': os.path.join(home, '.config'),
            'GIT_CONFIG_NOSYSTEM': '1', 'LC_ALL': 'C.UTF-8'}


def git_check_ignore(root, env, paths):
    """real git's verdict for each path (dirs given with a trailing slash): {path: (ignored?, source line)}"""
    if not paths:
        return {}
    p = subprocess.run(['git', '-c', 'core.quotePath=false', 'check-ignore', '--no-index', '-v', '-n', '-z', '--stdin'], cwd=root, env=env,
                       input='\0'.join(paths) + '\0', capture_output=True, text=True, timeout=60)
    f = p.stdout.split('\0')
    out = {}
    for i in range(0, len(f) - 3, 4):
        src, ln, pat, path = f[i:i + 4]
        out[path] = (bool(pat) and not pat.startswith('!'), f'{src}:{ln}:{pat}' if pat else '')
    return out


def materialise(root, ents):
    for e in ents:
        if e[0] == 'D': os.makedirs(os.path.join(root, e[1]), exist_ok=True)
    for e in ents:
        if e[0] == 'F' and not e[1].endswith(GI):
            os.makedirs(os.path.dirname(os.path.join(root, e[1])), exist_ok=True)
            open(os.path.join(root, e[1]), 'w').write('data of ' + e[1])
    for e in ents:
        if e[0] == 'I':
            open(os.path.join(root, e[1], GI), 'w').write(e[2])


def opinions(chk, pr, ents, idx):
    """xvc's and git's reading of one tree, implementation vs model; returns tie messages"""
    enc = enc_tree(ents)
    q = [(e[1], e[0] == 'D') for e in ents if e[0] in 'FD' and not e[1].endswith(GI)][:14]
    if not q:
        return []
    tie = []
    lines = [f'gcheckignore\t{enc}\t{hx("/" + p + ("/" if d else ""))}' for p, d in q]
    lines += [f'gcheckignore\t{enc}\t{hx("/" + p)}' for p, d in q if d]
    ai, am, _ = pr.both(lines)
    for l, x, y in zip(lines, ai, am):
        chk.count('xvc-opinion:' + x)
        if y is not None and x != y:
            tie.append(('xvc-opinion ' + unhx(l.split('\t')[2]), x, y))
    root = os.path.join(chk.scratch, f'gitop{idx}')
    home = os.path.join(chk.scratch, 'githome'); os.makedirs(os.path.join(home, '.config'), exist_ok=True)
    os.makedirs(root)
    env = git_env(home)
    subprocess.run(['git', 'init', '-q', '-b', 'main'], cwd=root, env=env, capture_output=True)
    materialise(root, ents)
    real = git_check_ignore(root, env, [p for p, d in q])      # directories exist on disk: git learns the type by lstat
    _, gm, _ = pr.both([f'gitignored\t{enc}\t{hx(p)}\t{1 if d else 0}' for p, d in q])
    for (p, d), y in zip(q, gm):
        r = real.get(p)
        if r is None: continue
        chk.count('git-opinion:' + ('ignored' if r[0] else 'not-ignored'))
        if y is not None and ('1' if r[0] else '0') != y:
            tie.append((f'git-opinion {p}{"/" if d else ""} (git: {r[1] or "no match"})', '1' if r[0] else '0', y))
    shutil.rmtree(root, ignore_errors=True)
    return tie


# ---------------------------------------------------------------------------------------------
# binary level

def read_gitignores(sb):
    out = {}
    for dp, dn, fn in os.walk(sb.root):
        dn[:] = [d for d in dn if d not in ('.git', '.xvc')]
        if GI in fn:
            out[os.path.relpath(dp, sb.root).replace('.', '', 1) if os.path.relpath(dp, sb.root) == '.' else os.path.relpath(dp, sb.root)] = open(os.path.join(dp, GI), 'rb').read().decode('utf-8', 'replace')
    return out


def disk_tree(sb):
    """the model's view of the workspace: directories and .gitignore contents"""
    ents = []
    for dp, dn, fn in os.walk(sb.root):
        dn[:] = sorted(d for d in dn if d not in ('.git', '.xvc'))
        rel = os.path.relpath(dp, sb.root)
        rel = '' if rel == '.' else rel
        if rel: ents.append(('D', rel))
        if GI in fn:
            ents.append(('F', (rel + '/' if rel else '') + GI))
            ents.append(('I', rel, open(os.path.join(dp, GI), 'rb').read().decode('utf-8', 'replace')))
    return ents


def canon(content):
    """dates removed, lines of every xvc block sorted (the order inside a block is HashMap iteration order).  A block is
    the banner's line count or the lines up to the next banner, whichever is shorter (the user may have removed lines)."""
    lines = content.split('\n')
    out, i = [], 0
    while i < len(lines):
        m = BANNER.fullmatch(lines[i] + '\n') if i < len(lines) - 1 else None
        if not m:
            out.append(lines[i]); i += 1; continue
        n = int(m.group(1))
        out.append(f'### Following {n} lines are added by xvc on DATE')
        j = i + 1
        while j < len(lines) - 1 and j - i - 1 < n and not BANNER.fullmatch(lines[j] + '\n'):
            j += 1
        out += sorted(lines[i + 1:j])
        i = j
    return '\n'.join(out)


def tracked_files(sb):
    paths = sb.store_map('xvc-path')
    md = sb.store_map('xvc-metadata')
    return sorted(p for e, p in paths.items() if md.get(e, {}).get('file_type') == 'File')


def classify(sb, pr, path, why, special_names):
    """signature of an un-ignored tracked path (decidable facts about the failing input)"""
    base = path.split('/')[-1]
    if any(ch in base for ch in '[\\') or base != base.rstrip(' ') or any(ch in c for c in path.split('/') for ch in '[\\'):
        return {'kind': 'name-is-not-a-literal-pattern'}
    if why.split(':')[-1].startswith('!'):
        return {'kind': 'user-whitelist-line-matches-target'}
    # what does xvc itself believe?
    ents = disk_tree(sb)
    a, _ = pr.impl_only([f'gcheckignore\t{enc_tree(ents)}\t{hx("/" + path)}'])
    if a[0] == 'ignore':
        return {'kind': 'xvc-believes-ignored-git-does-not'}
    if a[0] == 'whitelist':
        return {'kind': 'user-whitelist-line-matches-target'}
    return {'kind': 'unclassified', 'xvc_opinion': a[0]}


def oracle_after(chk, sb, pr, before, cmd, special_names=()):
    """what C16 demands after a command; returns list of (message, signature)"""
    out = []
    after = read_gitignores(sb)
    for d, old in before.items():
        new = after.get(d)
        if new is None:
            out.append((f'{cmd}: {d or "."}/{GI} was deleted', {'kind': 'gitignore-not-append-only'}))
        elif not new.startswith(old):
            out.append((f'{cmd}: {d or "."}/{GI} was rewritten: old bytes are not a prefix of the new bytes', {'kind': 'gitignore-not-append-only'}))
        else:
            ol, nl = old.split('\n'), new.split('\n')
            if old and not old.endswith('\n') and new != old and nl[len(ol) - 1] != ol[-1]:
                out.append((f'{cmd}: the last line {ol[-1]!r} of {d or "."}/{GI} (no final newline) became {nl[len(ol) - 1][:60]!r}',
                            {'kind': 'banner-glued-to-last-user-line'}))
    tr = tracked_files(sb)
    real = git_check_ignore(sb.root, sb.env, tr)
    for p in tr:
        r = real.get(p)
        if r is not None and not r[0]:
            out.append((f'{cmd}: tracked path {p} is not ignored by git ({r[1] or "no pattern matches"})', classify(sb, pr, p, r[1], special_names)))
    rc, o, e = sb.git('-c', 'core.quotePath=false', 'add', '-A', '-n')
    staged = [l[5:-1] for l in o.split('\n') if l.startswith("add '")]
    for s in staged:
        if s in tr and not any(s in m for m, _ in out):
            out.append((f'{cmd}: `git add -A` would stage the tracked path {s}', {'kind': 'unclassified'}))
        if re.match(r'\.xvc/(b3|b2|s2|s3)/', s):
            out.append((f'{cmd}: `git add -A` would stage the cache object {s}', {'kind': 'cache-staged'}))
    return out, after


def model_after(pr, op, ents, dirs, files):
    """the model's .gitignore contents {dir: text} after one update op on the workspace `ents`"""
    line = f'{op}\t{enc_tree(ents)}\t{hx("DATE")}\t{",".join(hx(d) for d in dirs)}\t{",".join(hx(f) for f in files)}'
    _, am, _ = pr.both([line])
    if am[0] is None:
        return None
    out = {}
    for item in am[0].split(' '):
        if item:
            d, c = item.split(':')
            out[unhx(d)[1:]] = unhx(c)
    return out


def with_contents(ents, contents):
    """the workspace `ents` with the .gitignore contents replaced by `contents`"""
    out = [e for e in ents if e[0] == 'D']
    for d, c in sorted(contents.items()):
        out += [('F', (d + '/' if d else '') + GI), ('I', d, c)]
    return out


def scenario(chk, pr, xvc, idx, rng, forced=None):
    """one scratch repository, a short history of commands; returns (oracle failures, tie messages, log)"""
    sb = Sandbox(chk.scratch, f'g{idx}', xvc)
    fails, tie, log = [], [], []
    try:
        rc, out, err = sb.init()
        if rc != 0:
            return [(f'xvc init rc={rc} {err[-200:]}', {'kind': 'unclassified'})], tie, log
        spec = forced or {}
        if forced:
            files, gis, cmds = spec['files'], spec['gitignores'], spec['commands']
        else:
            dirs = rng.sample(DIRS, rng.randint(1, 3))
            dirs += [d + '/' + rng.choice(DIRS) for d in dirs if rng.random() < 0.5]
            uniq = rng.random() < 0.6          # unique basenames keep away from the anchored-shadow region most of the time
            pool = list(DATA)
            files = []
            for d in [''] + dirs:
                for n in rng.sample(DATA, rng.randint(1, 3)):
                    if uniq:
                        if n not in pool: continue
                        pool.remove(n)
                    files.append((d + '/' if d else '') + n)
            names = [f.split('/')[-1] for f in files]
            gis = {}
            for d in [''] + dirs:
                if rng.random() < 0.45:
                    gis[d] = g_content(rng, names, [x.split('/')[-1] for x in dirs], chk)
            cmds = None
        for f in files:
            sb.write(f, 'data of ' + f)
        root_gi = sb.read(GI).decode()
        for d, c in gis.items():
            sb.write((d + '/' if d else '') + GI, (root_gi if d == '' else '') + c)
        sb.git('add', '-f', '--', '*' + GI, GI); sb.git('commit', '-q', '-m', 'user gitignores')     # -f: also inside ignored directories
        log.append({'files': files, 'gitignores': gis})
        tracked = set()
        ncmd = len(cmds) if cmds else rng.randint(2, 5)
        for k in range(ncmd):
            before = read_gitignores(sb)
            ents = disk_tree(sb)
            on_disk = {f for f in files if os.path.lexists(sb.path(f))}
            if cmds:
                c = cmds[k]
            else:
                r = rng.random()
                cand = sorted(on_disk - tracked)
                if (r < 0.45 and cand) or not tracked:
                    if not cand: break
                    if rng.random() < 0.4:
                        d = os.path.dirname(rng.choice(cand)) or os.path.dirname(cand[0])
                        c = ('track', [d + '/']) if d else ('track', [rng.choice(cand)])
                    else:
                        c = ('track', rng.sample(cand, min(len(cand), rng.randint(1, 2))))
                elif r < 0.65:
                    f = rng.choice(sorted(tracked))
                    c = ('rm-recheck', f, rng.random() < 0.4 and '/' in f)
                elif r < 0.85:
                    f = rng.choice(sorted(tracked & on_disk) or sorted(tracked))
                    ext = os.path.splitext(f)[1]
                    dst = rng.choice(['', 'a/', 'new/', 'new/deep/', os.path.dirname(f) + '/' if '/' in f else '']) + 'copy%d%s' % (k, ext)
                    c = ('copy', f, dst)
                else:
                    f = rng.choice(sorted(tracked & on_disk) or sorted(tracked))
                    ext = os.path.splitext(f)[1]
                    c = ('move', f, rng.choice(['', 'mv/', 'b/']) + 'moved%d%s' % (k, ext))
            chk.count('command:' + c[0])
            exp = None
            if c[0] == 'track':
                targets = c[1]
                rc, out, err = sb.x('file', 'track', *targets)
                dts = [t.rstrip('/') for t in targets if t.endswith('/')]
                fts = sorted(f for f in on_disk if any(f == t or (t.endswith('/') and f.startswith(t)) for t in targets))
                # a .gitignore that git does not track (xvc wrote it inside a git-ignored directory, so the auto-commit could
                # not add it) is an ordinary untracked file for `xvc file track dir/`
                _, ls, _ = sb.git('ls-files')
                in_git = set(ls.split('\n'))
                for d2, _c in list(before.items()):
                    g = (d2 + '/' if d2 else '') + GI
                    if g not in in_git and any(t.endswith('/') and g.startswith(t) for t in targets):
                        fts.append(g)
                fts = sorted(set(fts))
                # cmd_track: update_dir/file_gitignores, then carry-in rechecks the newly committed files (ignore handler)
                exp = model_after(pr, 'gtrack', ents, dts, fts)
                new = sorted(set(fts) - tracked)
                if exp is not None and new:
                    exp = model_after(pr, 'ghandler', with_contents(ents, exp), [], new)
                tracked |= set(fts)
                desc = 'xvc file track ' + ' '.join(targets)
            elif c[0] == 'rm-recheck':
                f, whole_dir = c[1], c[2]
                dops = []
                if whole_dir:
                    d = os.path.dirname(f)
                    lost = sorted(t for t in tracked if t.startswith(d + '/'))
                    for dp, dn, fn in os.walk(sb.path(d)):
                        os.chmod(dp, 0o755)
                    shutil.rmtree(sb.path(d))
                    before = {k2: v for k2, v in before.items() if not (k2 == d or k2.startswith(d + '/'))}
                    ents = disk_tree(sb)
                    # recheck_from_cache re-creates the parents: the model works on the tree that has them
                    for t2 in lost:
                        parts = t2.split('/')[:-1]
                        for k2 in range(1, len(parts) + 1):
                            if ('D', '/'.join(parts[:k2])) not in ents: ents.append(('D', '/'.join(parts[:k2])))
                    rc, out, err = sb.x('file', 'recheck', *lost)
                    dops = sorted({os.path.dirname(t) for t in lost})
                    exp = model_after(pr, 'ghandler', ents, dops[:1] if len(dops) == 1 else None or dops, lost) if len(dops) == 1 else None
                    desc = f'rm -rf {d}; xvc file recheck ' + ' '.join(lost)
                else:
                    if os.path.lexists(sb.path(f)): os.unlink(sb.path(f))
                    rc, out, err = sb.x('file', 'recheck', f)
                    exp = model_after(pr, 'ghandler', ents, [], [f])
                    desc = f'rm {f}; xvc file recheck {f}'
            elif c[0] in ('copy', 'move'):
                src, dst = c[1], c[2]
                parent = os.path.dirname(dst)
                missing = bool(parent) and not os.path.isdir(sb.path(parent))
                rc, out, err = sb.x('file', c[0], src, dst)
                if rc == 0:
                    tracked.add(dst)
                    files.append(dst)
                    if c[0] == 'move': tracked.discard(src)
                    if missing:
                        # recheck_from_cache created the parent: the model works on the tree that has it
                        ents = ents + [('D', p) for p in ([parent] + ([os.path.dirname(parent)] if '/' in parent else [])) if ('D', p) not in ents]
                    if c[0] == 'move':      # copy -> copy: renamed in the workspace, then update_file_gitignores (C16-move.patch)
                        exp = model_after(pr, 'gmove', ents, [], [dst])
                    else:
                        exp = model_after(pr, 'ghandler', ents, [parent] if missing else [], [dst])
                desc = f'xvc file {c[0]} {src} {dst}'
            log.append({'cmd': desc, 'rc': rc})
            if rc not in (0,):
                log[-1]['stderr'] = err[-300:]
            of, after = oracle_after(chk, sb, pr, before, desc)
            fails += of
            if exp is not None and rc == 0:
                # an empty .gitignore and no .gitignore are the same workspace for the model (create+append)
                got = {d: canon(c2) for d, c2 in after.items() if c2}
                want = {d: canon(c2) for d, c2 in exp.items() if c2}
                if got != want:
                    dd = sorted(d for d in set(got) | set(want) if got.get(d) != want.get(d))[0]
                    tie.append((f'{desc}: bytes of {dd or "."}/{GI}', got.get(dd), want.get(dd)))
            if fails and not forced:
                break
    finally:
        sb.cleanup()
    return fails, tie, log


K_REPLAYS = [
    # K12: an anchored line written by xvc itself is read by xvc's matcher as matching at any depth
    {'id': 'K12', 'files': ['data.bin', 'sub/data.bin'], 'gitignores': {}, 'commands': [('track', ['data.bin']), ('track', ['sub/data.bin'])]},
    # K6a: a user line whitelists the target
    {'id': 'K6a', 'files': ['keep.bin', 'x.bin'], 'gitignores': {'': '*.bin\n!keep.bin\n'}, 'commands': [('track', ['keep.bin', 'x.bin'])]},
    # K6b: names that are not literal patterns
    {'id': 'K6b', 'files': ['a[1].bin', 'sp .bin '], 'gitignores': {}, 'commands': [('track', ['a[1].bin']), ('track', ['sp .bin '])]},
]
CORPUS = [
    # no final newline in the user's file (fixed by C16-newline.patch): the user's last pattern must survive
    {'files': ['x.bin', 'u.log'], 'gitignores': {'': '*.log'}, 'commands': [('track', ['x.bin'])]},
    {'files': ['a/x.bin', 'a/y.bin', 'b/m.dat'], 'gitignores': {'a': '# mine\ny.bin'}, 'commands': [('track', ['a/']), ('track', ['b/m.dat']), ('rm-recheck', 'a/x.bin', True)]},
    {'files': ['a/x.bin', 'w.txt'], 'gitignores': {'': '*.txt\n'}, 'commands': [('track', ['a/x.bin', 'w.txt']), ('copy', 'a/x.bin', 'new/deep/c.bin'), ('move', 'a/x.bin', 'mv/z.bin')]},
]


def run(chk: Check):
    quick = chk.tier == 'quick'
    ignore_extract.run(chk)
    model = chk.lean('XvcIgnore', 'XvcIgnore.Props.C16', exe='ignoremodel',
                     extra_modules=['XvcIgnore.Glob', 'XvcIgnore.Pattern', 'XvcIgnore.Walk', 'XvcIgnore.GitIgnore', 'XvcIgnore.Lemmas', 'XvcIgnore.GitLemmas', 'XvcIgnore.GitMono'])
    impl, _ = c09.build_harness(chk)
    xvc = chk.build_xvc()
    if not os.path.exists(model):
        chk.notes.append('model driver did not build; only the implementation-side oracle can run'); model = None
    pr = Procs(chk, impl, model)
    chk.trusted_base += [
        'translator lib/ignore_extract.py (GITIGNORE_INITIAL_CONTENT, COMMON_IGNORE_PATTERNS), cross-checked against the compiled constants (stream `const`)',
        'harness harness/src/bin/walker_harness.rs (`gcheckignore` = build_ignore_patterns(.gitignore)+check, as build_gitignore does), lib/c16.py (generators, canonicalisation of dates and of the HashMap order inside one appended block, oracle), lib/xvcbin.py',
        'modelled, not verified: git itself (dir.c/wildmatch are modelled by gitIgnored over globMatch and compared with the real `git check-ignore --no-index` on every run; `git add -A -n` is the oracle), chrono date text, OpenOptions::append, HashMap iteration order (irrelevant: one file per group)',
    ]
    chk.assumptions += [
        'git reads only the .gitignore files of the work tree (scratch HOME: no core.excludesFile, empty .git/info/exclude)',
        'C16_ignored_after_track is partial: it assumes the target is not whitelisted by a line xvc\'s matcher sees, its name is a literal pattern, and whenever xvc believes the path already ignored git agrees; each excluded region has a proved counterexample and a replay (K6a, K6b, K12)',
        'names are ASCII without newlines',
    ]
    chk.extra['model_mirrors'] = 'the code with patches/C09-F8.patch and patches/C16-newline.patch'
    rng = chk.rng

    c09.stream_simple(chk, pr, 'const', ['common', 'gitignore'], lambda c: 'const\t' + c, lambda c, x: True)

    # ---- opinions: xvc's matcher and git's matcher on generated trees
    n_trees = 80 if quick else 800
    st = chk.tie['streams'].setdefault('opinions', {'cases': 0, 'disagreements': 0})
    first = None
    for i in range(n_trees):
        ents = g_tree(rng, chk)
        t = opinions(chk, pr, ents, i)
        st['cases'] += 1; chk.evaluations += 1
        if any(e[0] == 'I' for e in ents): chk.nontrivial.add(hashlib.sha1(enc_tree(ents).encode()).hexdigest())
        if t:
            st['disagreements'] += 1
            if first is None: first = (ents, t)
    if first:
        ents, t = first
        def differs(c):
            return bool(opinions(chk, pr, c, 'shrink%d' % len(c) + hashlib.sha1(enc_tree(c).encode()).hexdigest()[:8]))
        small = c09.shrink_tree(ents, differs, max_steps=80)
        t2 = opinions(chk, pr, small, 'final') or t
        chk.disagreement('opinions', show_tree(small), t2[0][1], t2[0][2], t2[0][0])

    # ---- binary histories
    n_sc = 45 if quick else 350
    bst = chk.tie['streams'].setdefault('binary', {'cases': 0, 'commands': 0, 'disagreements': 0, 'oracle_failures': 0})
    seen_sig = set()
    specs = [dict(s) for s in CORPUS] + [None] * n_sc
    for i, spec in enumerate(specs):
        fails, tie, log = scenario(chk, pr, xvc, i, rng, forced=spec)
        bst['cases'] += 1; bst['commands'] += len(log) - 1; chk.evaluations += 1
        if len(log) > 1: chk.nontrivial.add(hashlib.sha1(repr(log).encode()).hexdigest())
        for msg, sig in fails:
            key = tuple(sorted(sig.items()))
            if key in seen_sig: continue
            seen_sig.add(key)
            bst['oracle_failures'] += 1
            chk.oracle_failure(msg, {'history': log, 'level': 'binary'}, {'all': [m for m, _ in fails]}, signature=sig)
        if tie:
            bst['disagreements'] += 1
            if bst['disagreements'] == 1:
                chk.disagreement('binary', log, tie[0][1], tie[0][2], tie[0][0])
        if len(chk.samples) < 6 and len(log) >= 3 and i % 6 == 0:
            chk.samples.append({'stream': 'binary', 'history': log, 'oracle': [m for m, _ in fails] or 'all tracked paths ignored by git, every .gitignore append-only'})

    # ---- known-finding replays, judged by the oracle alone
    for j, spec in enumerate(K_REPLAYS):
        fails, _, log = scenario(chk, pr, xvc, 9000 + j, rng, forced={k: v for k, v in spec.items() if k != 'id'})
        chk.count('known-replay')
        done = set()
        for msg, sig in fails:
            key = tuple(sorted(sig.items()))
            if key in done: continue
            done.add(key)
            chk.oracle_failure(msg, {'history': log, 'level': 'binary', 'replay_of': spec['id']}, {'all': [m for m, _ in fails]}, signature=sig)

    chk.extra['rule'] = (
        f'{n_trees} generated trees (<= 4 levels) with user .gitignore files from the gitignore grammar (names, *.ext, dir/, /anchored, a/b, **/x, ?, [..], !negations, '
        'comments, trailing blanks, missing final newline): for up to 14 entries each, xvc\'s reading (build_gitignore+check, directories with and without trailing slash) and '
        'real git\'s reading (`git check-ignore --no-index -v -n`) are compared with the model\'s check/gitIgnored; '
        f'{len(specs)} scratch repositories with a history of 2-5 commands out of track file(s) / track dir/ / rm+recheck / rm -rf dir+recheck / copy (into existing, new and nested new directories) / move, '
        'after every command: byte-prefix and line-prefix relation of every .gitignore, `git check-ignore` for every tracked path, `git add -A -n`, and the predicted bytes of every .gitignore (model) '
        f'vs the real ones; {len(K_REPLAYS)} known-finding replays. Non-trivial = a tree with a user .gitignore / a history with at least two commands; distinct by input.')
    chk.extra['programs'] = bst['cases']
    return chk.finish()


def replay(chk: Check, data):
    impl, _ = c09.build_harness(chk)
    xvc = chk.build_xvc()
    pr = Procs(chk, impl, None)
    for n, f in enumerate(data.get('failures', [])):
        hist = f['case']['history']
        spec = {'files': list(hist[0]['files']), 'gitignores': dict(hist[0]['gitignores']), 'commands': []}
        for h in hist[1:]:
            c = h['cmd']
            m = re.match(r'xvc file track (.*)', c)
            if m: spec['commands'].append(('track', m.group(1).split(' '))); continue
            m = re.match(r'rm -rf (\S+); xvc file recheck (\S+)', c)
            if m: spec['commands'].append(('rm-recheck', m.group(2), True)); continue
            m = re.match(r'rm (\S+); xvc file recheck', c)
            if m: spec['commands'].append(('rm-recheck', m.group(1), False)); continue
            m = re.match(r'xvc file (copy|move) (\S+) (\S+)', c)
            if m: spec['commands'].append((m.group(1), m.group(2), m.group(3)))
        fails, _, log = scenario(chk, pr, xvc, 100 + n, chk.rng, forced=spec)
        chk.evaluations += 1
        print('history:'); [print('  ', l) for l in log]
        print('oracle:', [m for m, _ in fails] or 'property holds on this input')
        for msg, sig in fails[:3]:
            chk.oracle_failure(msg, {'history': log, 'level': 'binary'}, None, signature=sig)
    return chk.finish()
