"""C16 — Tracked data files never enter Git.

Proof: lean/XvcIgnore (GitIgnore.lean, Props/C16.lean).  Tie: translator (GITIGNORE_INITIAL_CONTENT, …) +
correspondence of the model with (a) xvc's own reading of .gitignore files (walker_harness `gcheckignore`
= build_gitignore + IgnoreRules::check), (b) git's reading (real `git check-ignore --no-index` on real trees)
and (c) the bytes of every .gitignore after `xvc file track/recheck/copy/move` driven through the rebuilt binary.
Oracle (independent of the model): after every xvc command every xvc-tracked path that the command named as target /
materialised, or that git ignored just before the command, is ignored according to real git, `git add -A -n` stages
none of them and nothing of the cache, every .gitignore has its previous bytes as a prefix and its previous lines as a
prefix of its lines.  Histories interleave xvc commands with user edits (lost .gitignore, regenerated directory,
deleted lines): a later command that names a recorded path must re-establish "tracked => ignored".
Stream `onto-existing`: tracked files are materialised ONTO entries that are already in the workspace (hand-made files and links,
recorded paths whose ignore line is gone, untracked paths) by copy --force / recheck --force / bring --force, file and directory
destinations, every recheck method: the ignore operation must not depend on what was at the path (Props/C16.lean
`C16_ignore_op_independent_of_prior_entry`, translator guard `destAbsent` in Gen/IgnoreSends.lean).
Stream `batch-prefix`: ONE command materialises SEVERAL files (glob copied to a directory, recheck / bring after the user lost a
directory and other files), some into directories it has to create and others into directories that are there, the names of the
new directories being prefixes of other destinations' names (dir `m` next to `m.bin`, `data` next to `data2/`): a queued file may be
left without a line only inside a directory the same batch ignored, COMPONENT-wise (Props/C16.lean
`C16_batch_file_rule_dropped_only_inside_ignored_dir`, translator `HANDLER_FILE_FILTER` in Gen/IgnoreSends.lean).

The Lean model mirrors the code WITH patches/C09-F8.patch and patches/C16-newline.patch.
"""
import fnmatch, hashlib, os, re, shutil, subprocess, time
from common import Check, VERIF, REPO, sh, shrink
import ignore_extract, c09, c16_extract
from c09 import hx, unhx, Procs, enc_tree, normalise, show_tree
from xvcbin import Sandbox

GI = '.gitignore'
DATA = ['x.bin', 'y.bin', 'data.bin', 'keep.bin', 'm.dat', 'n.dat', 'w.txt', 'model.pt']
DIRS = ['a', 'b', 'c', 'sub', 'data', 'out']
BANNER = re.compile(r'### Following (\d+) lines are added by xvc on [^\n]*\n')

# ---------------------------------------------------------------------------------------------
# generators

def g_line(rng, names, dnames, chk=None):
    n = lambda: rng.choice(names) if names and rng.random() < 0.8 else rng.choice(DATA)
    d = lambda: rng.choice(dnames) if dnames and rng.random() < 0.8 else rng.choice(DIRS)
    ext = lambda: rng.choice(['bin', 'dat', 'txt', 'pt'])
    r = rng.random()
    if r < 0.06: cls, body = 'comment-or-blank', rng.choice(['# user comment', '', '#x.bin', '   '])
    elif r < 0.24: cls, body = 'name', n()
    elif r < 0.40: cls, body = 'star-ext', '*.' + ext()
    elif r < 0.50: cls, body = 'dir-slash', d() + '/'
    elif r < 0.60: cls, body = 'anchored', '/' + rng.choice([n(), d() + '/', '*.' + ext(), d()])
    elif r < 0.72: cls, body = 'a/b', d() + '/' + rng.choice([n(), '*.' + ext(), '*', d() + '/'])
    elif r < 0.82: cls, body = 'globstar', rng.choice(['**/' + n(), '**/' + d() + '/', d() + '/**', d() + '/**/' + n(), '**/' + d() + '/' + n()])
    elif r < 0.88: cls, body = 'question', rng.choice([n()[:-1] + '?', '?' + n()[1:]])
    elif r < 0.94: cls, body = 'class', rng.choice(['[xy].bin', '[a-c]', 'x.[a-c]in', '[mn].dat'])
    else: cls, body = 'dir-name', d()
    if cls != 'comment-or-blank':
        if rng.random() < 0.2: body, cls = '!' + body, 'neg-' + cls
        r2 = rng.random()
        if r2 < 0.05: body, cls = body + rng.choice([' ', '  ']), cls + '+trailing-space'
        elif r2 < 0.07: body, cls = '\\' + rng.choice(['!', '#']) + body, cls + '+escaped-first'
    if chk: chk.count('gitline:' + cls)
    return body


def g_content(rng, names, dnames, chk=None, nonl=0.2):
    lines = [g_line(rng, names, dnames, chk) for _ in range(rng.randint(1, 4))]
    return '\n'.join(lines) + ('' if rng.random() < nonl else '\n')


def g_tree(rng, chk=None):
    """entries as in c09: ('D', path) ('F', path) ('I', dir, .gitignore content)"""
    ents, names, dnames = [], [], []

    def fill(d, depth):
        here = d + '/' if d else ''
        for n in rng.sample(DATA, rng.randint(0, 3)):
            ents.append(('F', here + n)); names.append(n)
        if depth < 3:
            for n in rng.sample(DIRS, rng.randint(0, 2 if depth else 3)):
                ents.append(('D', here + n)); dnames.append(n)
                fill(here + n, depth + 1)
    fill('', 0)
    for d in [''] + [e[1] for e in ents if e[0] == 'D']:
        if rng.random() < (0.6 if d == '' else 0.4):
            ents.append(('F', (d + '/' if d else '') + GI))
            ents.append(('I', d, g_content(rng, names, dnames, chk)))
    return ents


# ---------------------------------------------------------------------------------------------
# real git

def git_env(home):
    return {'PATH': os.environ.get('PATH', '/usr/bin:/bin'), 'HOME': home, 'XDG_CONFIG_HOME': os.path.join(home, '.config'),
            'GIT_CONFIG_NOSYSTEM': '1', 'LC_ALL': 'C.UTF-8'}


def git_check_ignore(root, env, paths):
    """real git's verdict for each path (dirs given with a trailing slash): {path: (ignored?, source line)}"""
    if not paths:
        return {}
    p = subprocess.run(['git', '-c', 'core.quotePath=false', 'check-ignore', '--no-index', '-v', '-n', '-z', '--stdin'], cwd=root, env=env,
                       input='\0'.join(paths) + '\0', capture_output=True, text=True, timeout=60)
    f = p.stdout.split('\0')
    out = {}
    for i in range(0, len(f) - 3, 4):
        src, ln, pat, path = f[i:i + 4]
        out[path] = (bool(pat) and not pat.startswith('!'), f'{src}:{ln}:{pat}' if pat else '')
    return out


def materialise(root, ents):
    for e in ents:
        if e[0] == 'D': os.makedirs(os.path.join(root, e[1]), exist_ok=True)
    for e in ents:
        if e[0] == 'F' and not e[1].endswith(GI):
            os.makedirs(os.path.dirname(os.path.join(root, e[1])), exist_ok=True)
            open(os.path.join(root, e[1]), 'w').write('data of ' + e[1])
    for e in ents:
        if e[0] == 'I':
            open(os.path.join(root, e[1], GI), 'w').write(e[2])


def opinions(chk, pr, ents, idx):
    """xvc's and git's reading of one tree, implementation vs model; returns tie messages"""
    enc = enc_tree(ents)
    q = [(e[1], e[0] == 'D') for e in ents if e[0] in 'FD' and not e[1].endswith(GI)][:14]
    if not q:
        return []
    tie = []
    lines = [f'gcheckignore\t{enc}\t{hx("/" + p + ("/" if d else ""))}' for p, d in q]
    lines += [f'gcheckignore\t{enc}\t{hx("/" + p)}' for p, d in q if d]
    ai, am, _ = pr.both(lines)
    for l, x, y in zip(lines, ai, am):
        chk.count('xvc-opinion:' + x)
        if y is not None and x != y:
            tie.append(('xvc-opinion ' + unhx(l.split('\t')[2]), x, y))
    root = os.path.join(chk.scratch, f'gitop{idx}')
    home = os.path.join(chk.scratch, 'githome'); os.makedirs(os.path.join(home, '.config'), exist_ok=True)
    os.makedirs(root)
    env = git_env(home)
    subprocess.run(['git', 'init', '-q', '-b', 'main'], cwd=root, env=env, capture_output=True)
    materialise(root, ents)
    real = git_check_ignore(root, env, [p for p, d in q])      # directories exist on disk: git learns the type by lstat
    _, gm, _ = pr.both([f'gitignored\t{enc}\t{hx(p)}\t{1 if d else 0}' for p, d in q])
    for (p, d), y in zip(q, gm):
        r = real.get(p)
        if r is None: continue
        chk.count('git-opinion:' + ('ignored' if r[0] else 'not-ignored'))
        if y is not None and ('1' if r[0] else '0') != y:
            tie.append((f'git-opinion {p}{"/" if d else ""} (git: {r[1] or "no match"})', '1' if r[0] else '0', y))
    shutil.rmtree(root, ignore_errors=True)
    return tie


# ---------------------------------------------------------------------------------------------
# binary level

def read_gitignores(sb):
    out = {}
    for dp, dn, fn in os.walk(sb.root):
        dn[:] = [d for d in dn if d not in ('.git', '.xvc')]
        if GI in fn:
            out[os.path.relpath(dp, sb.root).replace('.', '', 1) if os.path.relpath(dp, sb.root) == '.' else os.path.relpath(dp, sb.root)] = open(os.path.join(dp, GI), 'rb').read().decode('utf-8', 'replace')
    return out


def disk_tree(sb):
    """the model's view of the workspace: directories and .gitignore contents"""
    ents = []
    for dp, dn, fn in os.walk(sb.root):
        dn[:] = sorted(d for d in dn if d not in ('.git', '.xvc'))
        rel = os.path.relpath(dp, sb.root)
        rel = '' if rel == '.' else rel
        if rel: ents.append(('D', rel))
        if GI in fn:
            ents.append(('F', (rel + '/' if rel else '') + GI))
            ents.append(('I', rel, open(os.path.join(dp, GI), 'rb').read().decode('utf-8', 'replace')))
    return ents


def canon(content):
    """dates removed, lines of every xvc block sorted (the order inside a block is HashMap iteration order).  A block is
    the banner's line count or the lines up to the next banner, whichever is shorter (the user may have removed lines)."""
    lines = content.split('\n')
    out, i = [], 0
    while i < len(lines):
        m = BANNER.fullmatch(lines[i] + '\n') if i < len(lines) - 1 else None
        if not m:
            out.append(lines[i]); i += 1; continue
        n = int(m.group(1))
        out.append(f'### Following {n} lines are added by xvc on DATE')
        j = i + 1
        while j < len(lines) - 1 and j - i - 1 < n and not BANNER.fullmatch(lines[j] + '\n'):
            j += 1
        out += sorted(lines[i + 1:j])
        i = j
    return '\n'.join(out)


def tracked_files(sb):
    paths = sb.store_map('xvc-path')
    md = sb.store_map('xvc-metadata')
    return sorted(p for e, p in paths.items() if md.get(e, {}).get('file_type') == 'File')


def classify(sb, pr, path, why, special_names):
    """signature of an un-ignored tracked path (decidable facts about the failing input)"""
    base = path.split('/')[-1]
    if any(ch in base for ch in '[\\') or base != base.rstrip(' ') or any(ch in c for c in path.split('/') for ch in '[\\'):
        return {'kind': 'name-is-not-a-literal-pattern'}
    if why.split(':')[-1].startswith('!'):
        return {'kind': 'user-whitelist-line-matches-target'}
    # what does xvc itself believe?
    ents = disk_tree(sb)
    a, _ = pr.impl_only([f'gcheckignore\t{enc_tree(ents)}\t{hx("/" + path)}'])
    if a[0] == 'ignore':
        return {'kind': 'xvc-believes-ignored-git-does-not'}
    if a[0] == 'whitelist':
        return {'kind': 'user-whitelist-line-matches-target'}
    return {'kind': 'unclassified', 'xvc_opinion': a[0]}


XVC_PUBLIC = re.compile(r'\.xvc/(store/|ec/|config\.toml$)')
CACHE_OBJECT = re.compile(r'\.xvc/[a-z][0-9]/')
ALGORITHMS = ['blake3', 'blake2', 'sha2', 'sha3']          # the documented values of cache.algorithm


def private_xvc(paths):
    """entries below .xvc/ that Git must never hold: everything but store/, ec/ and config.toml (what the template of the
    unchanged `xvc init` leaves visible) - the cache of whatever algorithm, config.local.toml, any lock or temporary file"""
    return sorted(p for p in paths if p.startswith('.xvc/') and not XVC_PUBLIC.match(p))


def private_sig(paths, algo):
    kind = 'cache-staged' if any(CACHE_OBJECT.match(p) for p in paths) else 'xvc-local-file-staged'
    return {'kind': kind, 'algorithm': algo[0], 'algorithm_set_by': algo[1]}


def oracle_after(chk, sb, pr, before, cmd, obliged=None, algo=('blake3', 'default')):
    """what C16 demands after a command; returns (list of (message, signature), .gitignore contents, tracked files).
    `obliged`: the tracked paths the command has to leave ignored (None = every tracked path): the recorded files among
    the command's targets / the files it materialised, plus every tracked path git ignored just before the command.
    A tracked path the USER un-ignored (deleted line, deleted .gitignore) and that no later command was asked to handle
    is not demanded: xvc cannot know."""
    out = []
    after = read_gitignores(sb)
    for d, old in before.items():
        new = after.get(d)
        if new is None:
            out.append((f'{cmd}: {d or "."}/{GI} was deleted', {'kind': 'gitignore-not-append-only'}))
        elif not new.startswith(old):
            out.append((f'{cmd}: {d or "."}/{GI} was rewritten: old bytes are not a prefix of the new bytes', {'kind': 'gitignore-not-append-only'}))
        else:
            ol, nl = old.split('\n'), new.split('\n')
            if old and not old.endswith('\n') and new != old and nl[len(ol) - 1] != ol[-1]:
                out.append((f'{cmd}: the last line {ol[-1]!r} of {d or "."}/{GI} (no final newline) became {nl[len(ol) - 1][:60]!r}',
                            {'kind': 'banner-glued-to-last-user-line'}))
            # information only (not demanded by the property text): a line appended although the same line was already there
            have = set(ol)
            for l in new[len(old):].split('\n'):
                if l and not l.startswith('###') and l in have: chk.count('observation:appended-line-already-present')
    tr = tracked_files(sb)
    real = git_check_ignore(sb.root, sb.env, tr)
    for p in tr:
        r = real.get(p)
        if r is not None and not r[0]:
            if obliged is None or p in obliged:
                out.append((f'{cmd}: tracked path {p} is not ignored by git ({r[1] or "no pattern matches"})', classify(sb, pr, p, r[1], ())))
            else:
                chk.count('oracle:released-path(user un-ignored it, no later command named it)')
        elif r is not None and (obliged is None or p in obliged):
            chk.count('oracle:obliged-path-ignored')
    rc, o, e = sb.git('-c', 'core.quotePath=false', 'add', '-A', '-n')
    staged = [l[5:-1] for l in o.split('\n') if l.startswith("add '")]
    for s in staged:
        if s in tr and (obliged is None or s in obliged) and not any(s in m for m, _ in out):
            out.append((f'{cmd}: `git add -A` would stage the tracked path {s}', {'kind': 'unclassified'}))
    where = f'cache.algorithm = {algo[0]} ({algo[1]})'
    priv = private_xvc(staged)
    if priv:
        out.append((f'{cmd} [{where}]: `git add -A` would stage {len(priv)} file(s) of .xvc/ other than store/, ec/, config.toml: {priv[:3]}', private_sig(priv, algo)))
    # what Git already holds: xvc's own auto-commit (`git add .xvc …`) runs right after the command
    _, ls, _ = sb.git('-c', 'core.quotePath=false', 'ls-files', '--', '.xvc')
    held = private_xvc(ls.split('\n'))
    if held:
        out.append((f'{cmd} [{where}]: the Git index holds {len(held)} file(s) of .xvc/ other than store/, ec/, config.toml (committed by the auto-commit of xvc): {held[:3]}',
                    private_sig(held, algo)))
    elif not priv:
        chk.count('oracle:nothing-private-of-.xvc-in-index-or-proposed')
    return out, after, tr


def parse_contents(ans):
    out = {}
    for item in ans.split(' '):
        if item:
            d, c = item.split(':')
            out[unhx(d)[1:]] = unhx(c)
    return out


def model_after(pr, op, ents, dirs, files):
    """the model's .gitignore contents {dir: text} after one update op on the workspace `ents`"""
    line = f'{op}\t{enc_tree(ents)}\t{hx("DATE")}\t{",".join(hx(d) for d in dirs)}\t{",".join(hx(f) for f in files)}'
    _, am, _ = pr.both([line])
    if am[0] is None:
        return None
    return parse_contents(am[0])


def model_trackcmd(pr, ents, dirs, files, carried, recorded):
    """the model's `trackCmd` on the state (recorded paths, workspace): (.gitignore contents, recorded paths afterwards)"""
    j = lambda l: ','.join(hx(x) for x in l)
    line = f'gtrackcmd\t{enc_tree(ents)}\t{hx("DATE")}\t{j(dirs)}\t{j(files)}\t{j(carried)}\t{j(recorded)}'
    _, am, _ = pr.both([line])
    if am[0] is None or am[0] == 'bad-op':
        return None, None
    c, _, r = am[0].partition('|')
    return parse_contents(c), sorted(unhx(h) for h in r.split(',') if h)


def with_contents(ents, contents):
    """the workspace `ents` with the .gitignore contents replaced by `contents`"""
    out = [e for e in ents if e[0] == 'D']
    for d, c in sorted(contents.items()):
        out += [('F', (d + '/' if d else '') + GI), ('I', d, c)]
    return out


# ---------------------------------------------------------------------------------------------
# histories: xvc commands and, between them, what a user does to the workspace

USER_STEPS = ('u-rm-gitignore', 'u-regen-dir', 'u-del-line', 'u-modify', 'u-pad', 'u-put', 'u-rm')
FAULT_STEPS = ('fault-fsize', 'fault-kill')


def ext_of(f):
    return os.path.splitext(f)[1]


def glob_match(t, f):
    """xvc's glob targets as far as the generator uses them (`d/*.ext`, `*.ext`): `*` does not cross a `/` (fast_glob)"""
    d, _, pat = t.rpartition('/')
    return os.path.dirname(f) == d and fnmatch.fnmatchcase(os.path.basename(f), pat)


def target_files(targets, paths):
    """the members of `paths` a target list names: file targets, `dir/` targets (everything below), glob targets"""
    out = set()
    for t in targets:
        if t.endswith('/'): out |= {f for f in paths if f.startswith(t)}
        elif '*' in t: out |= {f for f in paths if glob_match(t, f)}
        elif t in paths: out.add(t)
    return out


def step_text(c):
    k = c[0]
    if k == 'track': return 'xvc file track ' + ' '.join(list(c[2] if len(c) > 2 else []) + list(c[1]))
    if k == 'rm-recheck': return (f'rm -rf {os.path.dirname(c[1])}; xvc file recheck (everything tracked below)' if c[2] else f'rm {c[1]}; xvc file recheck {c[1]}')
    if k in ('recheck', 'carry-in'): return f'xvc file {k} ' + ('--force ' if c[2] else '') + ' '.join(list(c[3]) + [''] if len(c) > 3 and c[3] else []) + ' '.join(c[1])
    if k == 'untrack': return 'xvc file untrack ' + ' '.join(c[1])
    if k == 'send-bring': return (f'xvc file send -s s {" ".join(c[1])}; the cache is lost; xvc file bring -s s ' + ('--force ' if c[2] else '') + ' '.join(c[1]))
    if k == 'u-put': return {'file': f'user: writes a file of their own to {c[1]} (replacing what is there)',
                             'link': f'user: ln -sf <notes.txt> {c[1]}', 'dangling': f'user: ln -sf /nonexistent/target {c[1]}'}[c[2]]
    if k in ('copy', 'move'): return f'xvc file {k} ' + ' '.join(list(c[3]) if len(c) > 3 else []) + (' ' if len(c) > 3 and c[3] else '') + f'{c[1]} {c[2]}'
    if k == 'send-rm-bring': return f'xvc file send -s s (everything tracked below {os.path.dirname(c[1])}/); rm -rf {os.path.dirname(c[1])} and the cache; xvc file bring -s s (the same)'
    if k == 'u-rm-gitignore': return f'user: rm {c[1]}/{GI}'
    if k == 'u-rm': return 'user: rm -rf ' + ' '.join(c[1])
    if k == 'copy-many': return 'xvc file copy ' + ' '.join(list(c[3]) + [''] if len(c) > 3 and c[3] else []) + f"'{c[1]}' {c[2]}"
    if k == 'u-regen-dir': return f'user: rm -rf {c[1]}; regenerate the files below {c[1]}/ with identical content (no {GI})'
    if k == 'u-del-line': return f'user: delete the line {c[2]!r} from {c[1] or "."}/{GI}'
    if k == 'u-modify': return f'user: change the content of {c[1]}'
    if k == 'u-pad': return f'user: own comment lines bring {c[1] or "."}/{GI} to {c[2]} bytes'
    if k == 'fault-fsize': return f"[trap '' XFSZ; ulimit -f {c[1]}] " + step_text(tuple(c[2]))
    if k == 'fault-kill': return f"[SIGKILL at the first write(2) to {c[1] or '.'}/{GI}] " + step_text(tuple(c[2]))
    return repr(c)


def user_step(sb, st, c, protected):
    """a user edit of the workspace between two xvc commands"""
    files, content = st['files'], st['content']
    k = c[0]
    if k == 'u-rm-gitignore':
        p = sb.path((c[1] + '/' if c[1] else '') + GI)
        if c[1] and os.path.lexists(p): os.unlink(p)
    elif k == 'u-regen-dir':
        d = c[1]
        if d and os.path.isdir(sb.path(d)):
            present = [f for f in files if f.startswith(d + '/') and os.path.lexists(sb.path(f))]
            for dp, dn, fn in os.walk(sb.path(d)):
                os.chmod(dp, 0o755)
            shutil.rmtree(sb.path(d))
            for f in present:
                sb.write(f, content[f])
    elif k == 'u-del-line':
        g = (c[1] + '/' if c[1] else '') + GI
        old = sb.read(g)
        if old is not None:
            lines = old.decode('utf-8', 'replace').split('\n')
            keep = [l for i, l in enumerate(lines) if l != c[2] or (not c[1] and i < protected)]
            sb.write(g, '\n'.join(keep))
    elif k == 'u-pad':
        # the user's own (comment) lines bring the .gitignore to exactly c[2] bytes
        g = (c[1] + '/' if c[1] else '') + GI
        old = sb.read(g) or b''
        if old and not old.endswith(b'\n'): old += b'\n'
        room = c[2] - len(old)
        if room >= 3:
            body = b''
            while room - len(body) > 80:
                body += b'# ' + b'p' * 61 + b'\n'
            rest = room - len(body)
            body += (b'# ' + b'p' * (rest - 3) + b'\n') if rest >= 3 else b''
            sb.write(g, old + body)
    elif k == 'u-put':
        # the user puts an entry of their own at a path: a file made by hand, a link to another file of theirs, a dangling link
        p = sb.path(c[1])
        os.makedirs(os.path.dirname(p), exist_ok=True)
        if os.path.lexists(p): os.unlink(p)
        if c[2] == 'file':
            sb.write(c[1], 'made by hand: ' + c[1])
        elif c[2] == 'link':
            if not os.path.lexists(sb.path('notes.txt')): sb.write('notes.txt', 'notes of the user')
            os.symlink(sb.path('notes.txt'), p)
        else:
            os.symlink('/nonexistent/target-of-' + os.path.basename(c[1]), p)
    elif k == 'u-rm':
        # the user removes files / whole directories (with the .gitignore files inside them)
        for q in c[1]:
            ap = sb.path(q)
            if os.path.isdir(ap) and not os.path.islink(ap):
                for dp, dn, fn in os.walk(ap):
                    os.chmod(dp, 0o755)
                shutil.rmtree(ap, ignore_errors=True)
            elif os.path.lexists(ap):
                os.unlink(ap)
    elif k == 'u-modify':
        f = c[1]
        if os.path.lexists(sb.path(f)):
            content[f] = content.get(f, '') + ' ' + str(c[2])
            sb.write(f, content[f])


def check_ignore_raw(sb, paths):
    """{path: (source file, line number, pattern)} from real git, ('', 0, '') = no pattern matches"""
    if not paths:
        return {}
    p = subprocess.run(['git', '-c', 'core.quotePath=false', 'check-ignore', '--no-index', '-v', '-n', '-z', '--stdin'], cwd=sb.root, env=sb.env,
                       input='\0'.join(paths) + '\0', capture_output=True, text=True, timeout=60)
    f = p.stdout.split('\0')
    return {f[i + 3]: (f[i], int(f[i + 1] or 0), f[i + 2]) for i in range(0, len(f) - 3, 4)}


def gen_user_step(rng, sb, st, tr_disk, protected, k):
    r = rng.random()
    nested = [f for f in tr_disk if '/' in f]
    if r < 0.28 and nested:
        d = os.path.dirname(rng.choice(nested))
        if '/' in d and rng.random() < 0.4: d = d.split('/')[0]
        return ('u-regen-dir', d)
    if r < 0.45:
        ds = sorted({os.path.dirname(f) for f in nested if os.path.lexists(sb.path(os.path.dirname(f) + '/' + GI))})
        if ds: return ('u-rm-gitignore', rng.choice(ds))
    if r < 0.85:
        f = rng.choice(tr_disk)
        src, ln, pat = check_ignore_raw(sb, [f]).get(f, ('', 0, ''))
        if src.endswith(GI) and not (src == GI and ln <= protected):
            text = (sb.read(src) or b'').decode('utf-8', 'replace').split('\n')
            if 0 < ln <= len(text):
                return ('u-del-line', os.path.dirname(src), text[ln - 1])
        # any user line of any file
        gis = read_gitignores(sb)
        d = rng.choice(sorted(gis))
        cand = [l for i, l in enumerate(gis[d].split('\n')) if l and not l.startswith('###') and not (d == '' and i < protected)]
        if cand: return ('u-del-line', d, rng.choice(cand))
    return ('u-modify', rng.choice(tr_disk), 'v%d' % k)


def gen_repair(rng, st, f, on_disk):
    """a command that names the recorded path f as (part of) its target"""
    rec, cache = st['rec'], st['cache']
    committed = (rec.get(f), ext_of(f)) in cache
    opts = ['--no-commit'] if rng.random() < 0.3 else []
    r = rng.random()
    if r < 0.30:
        more = [g for g in sorted(on_disk) if g != f and rng.random() < 0.25][:1]
        return ('track', [f] + more, opts)
    if r < 0.52:
        d = os.path.dirname(f)
        return ('track', [(d + '/' if d else '') + '*' + ext_of(f)], opts)
    if r < 0.66 and '/' in f:
        return ('track', [os.path.dirname(f) + '/'], opts)
    if r < 0.76 and committed: return ('recheck', [f], True)
    if r < 0.86: return ('carry-in', [f], True)
    if r < 0.93 and committed: return ('recheck', [f], False)
    if r < 0.97: return ('carry-in', [f], False)
    return ('track', [f], opts)


def gen_step(rng, chk, sb, st, protected, k):
    """next step of a generated history (the state decides what is possible)"""
    if st['queue']:
        return st['queue'].pop(0)
    files, rec, cache = st['files'], st['rec'], st['cache']
    on_disk = {f for f in files if os.path.lexists(sb.path(f))}
    recorded = set(rec)
    cand = sorted(on_disk - recorded)
    tr_disk = sorted(recorded & on_disk)
    if tr_disk and st['user_run'] < 2 and rng.random() < (0.42 if st['user_run'] == 0 else 0.3):
        return gen_user_step(rng, sb, st, tr_disk, protected, k)
    # recorded, present, not ignored: the ignore state and the store are out of step
    real = git_check_ignore(sb.root, sb.env, tr_disk)
    loose = [p for p in tr_disk if p in real and not real[p][0]]
    if loose and rng.random() < 0.8:
        f = rng.choice(loose)
        c = gen_repair(rng, st, f, on_disk)
        if c[0] in ('track', 'carry-in') and rng.random() < 0.25:
            st['queue'].append(c)
            return ('u-modify', f, 'v%d' % k)
        return c
    r = rng.random()
    committed = [f for f in sorted(recorded) if (rec.get(f), ext_of(f)) in cache]
    clean = [f for f in committed if f not in on_disk or st['content'].get(f) == rec.get(f)]
    if (r < 0.36 and cand) or not recorded:
        if not cand: return None
        opts = ['--no-commit'] if rng.random() < 0.12 else []
        r2 = rng.random()
        f = rng.choice(cand)
        d = os.path.dirname(f)
        if r2 < 0.3 and d: return ('track', [d + '/'], opts)
        if r2 < 0.45: return ('track', [(d + '/' if d else '') + '*' + ext_of(f)], opts)
        return ('track', rng.sample(cand, min(len(cand), rng.randint(1, 2))), opts)
    if r < 0.50 and tr_disk:
        f = rng.choice(tr_disk)
        c = gen_repair(rng, st, f, on_disk)
        if c[0] in ('track', 'carry-in') and rng.random() < 0.4:
            st['queue'].append(c)
            return ('u-modify', f, 'v%d' % k)
        return c
    if r < 0.66 and committed:
        f = rng.choice(committed)
        return ('rm-recheck', f, rng.random() < 0.4 and '/' in f)
    if r < 0.86 and clean:
        f = rng.choice([g for g in clean if g in on_disk] or clean)
        dst = rng.choice(['', 'a/', 'new/', 'new/deep/', os.path.dirname(f) + '/' if '/' in f else '']) + 'copy%d%s' % (k, ext_of(f))
        return ('copy', f, dst)
    if clean:
        f = rng.choice([g for g in clean if g in on_disk] or clean)
        return ('move', f, rng.choice(['', 'mv/', 'b/']) + 'moved%d%s' % (k, ext_of(f)))
    if tr_disk:
        return gen_repair(rng, st, rng.choice(tr_disk), on_disk)
    return None


def count_prior(chk, sb, cmd, p, store, opts, dir_dest):
    """what sits at the path a command is about to materialise a tracked file at (distribution of the generator)"""
    ap = sb.path(p)
    if not os.path.lexists(ap):
        kind = 'absent'
    else:
        kind = ('dangling-link' if os.path.islink(ap) and not os.path.exists(ap) else 'link' if os.path.islink(ap)
                else 'hardlinked-file' if os.lstat(ap).st_nlink > 1 else 'file')
        r = git_check_ignore(sb.root, sb.env, [p]).get(p)
        kind += (':recorded' if p in store else ':unknown-to-xvc') + (':ignored' if r and r[0] else ':not-ignored')
    method = opts[opts.index('--recheck-method') + 1] if '--recheck-method' in opts else 'recorded-method'
    chk.count(f'materialise-onto:{cmd}:{kind}:{"dir-dest" if dir_dest else "file-dest"}:{method}' + (':force' if '--force' in opts or cmd != 'copy' and cmd != 'move' else ''))
    return kind


def with_parents(ents, paths):
    """the workspace with the directories `recheck_from_cache` (create_dir_all) makes for `paths`"""
    ents = list(ents)
    for t2 in paths:
        parts = t2.split('/')[:-1]
        for k2 in range(1, len(parts) + 1):
            if ('D', '/'.join(parts[:k2])) not in ents: ents.append(('D', '/'.join(parts[:k2])))
    return ents


def scenario(chk, pr, xvc, idx, rng, forced=None):
    """one scratch repository, a history of xvc commands and user edits; returns (oracle failures, tie messages, log)"""
    sb = Sandbox(chk.scratch, f'g{idx}', xvc)
    fails, tie, log = [], [], []
    try:
        rc, out, err = sb.init()
        if rc != 0:
            return [(f'xvc init rc={rc} {err[-200:]}', {'kind': 'unclassified'})], tie, log
        spec = forced or {}
        if forced:
            files, gis, cmds = list(spec['files']), dict(spec['gitignores']), [tuple(c) for c in spec['commands']]
        else:
            dirs = rng.sample(DIRS, rng.randint(1, 3))
            dirs += [d + '/' + rng.choice(DIRS) for d in dirs if rng.random() < 0.5]
            uniq = rng.random() < 0.6          # unique basenames keep away from the anchored-shadow region most of the time
            pool = list(DATA)
            files = []
            for d in [''] + dirs:
                for n in rng.sample(DATA, rng.randint(1, 3)):
                    if uniq:
                        if n not in pool: continue
                        pool.remove(n)
                    files.append((d + '/' if d else '') + n)
            names = [f.split('/')[-1] for f in files]
            gis = {}
            for d in [''] + dirs:
                if rng.random() < 0.45:
                    gis[d] = g_content(rng, names, [x.split('/')[-1] for x in dirs], chk)
            cmds = None
        content = {f: 'data of ' + f for f in files}
        for f in files:
            sb.write(f, content[f])
        root_gi = sb.read(GI).decode()
        protected = len(root_gi.split('\n')) - 1        # the lines `xvc init` wrote: a user who deletes those un-ignores the cache
        for d, c in gis.items():
            sb.write((d + '/' if d else '') + GI, (root_gi if d == '' else '') + c)
        sb.git('add', '-f', '--', '*' + GI, GI); sb.git('commit', '-q', '-m', 'user gitignores')     # -f: also inside ignored directories
        # the cache directory is a function of cache.algorithm; the setting comes from the project configuration, -c or the environment
        if forced:
            algo = tuple(spec.get('algorithm') or ('blake3', 'default'))
        elif rng.random() < 0.4:
            algo = ('blake3', 'default')
        else:
            algo = (rng.choice(ALGORITHMS), rng.choice(['config', '-c', 'env']))
        if algo[1] == 'config':
            conf = sb.read('.xvc/config.toml').decode()
            conf2 = re.sub(r'^algorithm = "blake3"', f'algorithm = "{algo[0]}"', conf, count=1, flags=re.M)
            if conf2 == conf and algo[0] != 'blake3':
                chk.count('algorithm:config-anchor-missing(-c used)'); algo = (algo[0], '-c')
            else:
                sb.write('.xvc/config.toml', conf2)
        if algo[1] == 'env':
            sb.env['XVC_cache.algorithm'] = algo[0]
        xpre = ['-c', f'cache.algorithm={algo[0]}'] if algo[1] == '-c' else []
        chk.count(f'algorithm:{algo[0]}:{algo[1]}')
        log.append({'files': list(files), 'gitignores': dict(gis), 'algorithm': list(algo)})
        # rec: content recorded for every recorded file (what we did, not what the model says); cache: (content, extension) objects
        st = {'files': files, 'content': content, 'rec': {}, 'cache': set(), 'queue': [], 'user_run': 0}
        rec, cache = st['rec'], st['cache']
        store = []                                      # File entries of the XvcPath store after the previous command
        want = len([c for c in cmds if c[0] not in USER_STEPS]) if cmds else rng.randint(2, 5)
        k = nx = 0
        while True:
            if cmds is not None:
                if k >= len(cmds): break
                c = cmds[k]
            else:
                if nx >= want and not st['queue']: break
                c = gen_step(rng, chk, sb, st, protected, k)
                if c is None: break
            k += 1
            if c[0] in USER_STEPS:
                user_step(sb, st, c, protected)
                st['user_run'] += 1
                chk.count('user-step:' + c[0])
                log.append({'user': step_text(c), 'step': list(c)})
                continue
            st['user_run'] = 0
            nx += 1
            # a fault at the .gitignore update of this command: the file size limit of the process (EFBIG, what a full disk
            # or an exceeded quota do as well), or SIGKILL at the first write(2) to the named .gitignore
            fault, c0 = None, c
            if c[0] in FAULT_STEPS:
                fault, c = (c[0], c[1]), tuple(c[2])

            def X(*args):
                args = tuple(xpre) + args
                if fault is None:
                    return sb.x(*args)
                if fault[0] == 'fault-fsize':
                    return sb.run(['bash', '-c', 'trap "" XFSZ; ulimit -f "$0"; exec "$@"', str(fault[1]), sb.xvc] + list(args))
                g = sb.path((fault[1] + '/' if fault[1] else '') + GI)
                return sb.run(['strace', '-f', '-o', '/dev/null', '-P', g, '-e', 'trace=write', '-e', 'inject=write:signal=KILL:when=1', sb.xvc] + list(args))
            before = read_gitignores(sb)
            ents = disk_tree(sb)
            on_disk = {f for f in files if os.path.lexists(sb.path(f))}
            real0 = git_check_ignore(sb.root, sb.env, store)
            ign_before = {p for p in store if p in real0 and real0[p][0]}
            cur = {f: (sb.read(f) or b'').decode('utf-8', 'replace') for f in on_disk}
            exp = exp_rec = None
            named = set()                 # recorded files the command names as targets and has to leave ignored
            desc = step_text(c)
            if c[0] == 'track':
                targets, opts = list(c[1]), list(c[2]) if len(c) > 2 else []
                no_commit = '--no-commit' in opts
                rc, out, err = X('file', 'track', *opts, *targets)
                dts = [t.rstrip('/') for t in targets if t.endswith('/')]
                fts = target_files(targets, on_disk)
                # a .gitignore that git does not track (xvc wrote it inside a git-ignored directory, so the auto-commit could
                # not add it) is an ordinary untracked file for `xvc file track dir/`
                _, ls, _ = sb.git('ls-files')
                in_git = set(ls.split('\n'))
                for d2, c2 in list(before.items()):
                    g = (d2 + '/' if d2 else '') + GI
                    if g not in in_git and any(t.endswith('/') and g.startswith(t) for t in targets):
                        fts.add(g); cur[g] = c2
                fts = sorted(fts)
                again = [f for f in fts if f in store]
                shape = 'dir' if dts else 'glob' if any('*' in t for t in targets) else 'file'
                chk.count(f'command:track:{shape}' + (':no-commit' if no_commit else ''))
                if again:
                    chk.count(f'retrack:{shape}' + (':no-commit' if no_commit else ''))
                    chk.count('retrack:content-' + ('changed' if any(rec.get(f) != cur[f] for f in again) else 'unchanged'))
                    if any(f not in ign_before for f in again):
                        chk.count('retrack:recorded-target-was-not-ignored')
                # cmd_track: update_dir/file_gitignores for ALL targets, then carry-in rechecks the files with new content (ignore handler)
                carried = [] if no_commit else [f for f in fts if rec.get(f) != cur[f]]
                exp, exp_rec = model_trackcmd(pr, ents, dts, fts, carried, store)
                if rc == 0:
                    for f in fts: rec[f] = cur[f]
                    for f in carried: cache.add((cur[f], ext_of(f)))
                named = set(fts)
            elif c[0] in ('rm-recheck', 'recheck'):
                force, ropts = False, []
                if c[0] == 'rm-recheck':
                    f, whole_dir = c[1], c[2]
                    if whole_dir:
                        d = os.path.dirname(f)
                        targets = sorted(t for t in rec if t.startswith(d + '/'))
                        for dp, dn, fn in os.walk(sb.path(d)):
                            os.chmod(dp, 0o755)
                        shutil.rmtree(sb.path(d), ignore_errors=True)
                        before = {k2: v for k2, v in before.items() if not (k2 == d or k2.startswith(d + '/'))}
                        ents = disk_tree(sb)
                        desc = f'rm -rf {d}; xvc file recheck ' + ' '.join(targets)
                    else:
                        if os.path.lexists(sb.path(f)): os.unlink(sb.path(f))
                        targets = [f]
                else:
                    targets, force = list(c[1]), bool(c[2])
                    ropts = list(c[3]) if len(c) > 3 else []
                chk.count('command:recheck' + (':force' if force else '') + (':' + '='.join(ropts) if ropts else ''))
                if force:
                    for f in targets: count_prior(chk, sb, 'recheck', f, store, ropts, False)
                absent = {f for f in targets if not os.path.lexists(sb.path(f))}
                mat = sorted(f for f in targets if (rec.get(f), ext_of(f)) in cache and (force or f in absent))
                made = sorted({os.path.dirname(f) for f in mat if os.path.dirname(f) and not os.path.isdir(sb.path(os.path.dirname(f)))})
                if made: chk.count('newdir:recheck-into-absent-directory')
                rc, out, err = X('file', 'recheck', *(['--force'] if force else []), *ropts, *targets)
                # recheck_from_cache re-creates the parents: the model works on the tree that has them; with several missing
                # parents the IgnoreDir operations depend on the order of the worker threads
                if len(made) <= 1:
                    exp = model_after(pr, 'ghandler', with_parents(ents, mat), made, mat)
                for f in mat:
                    content[f] = rec[f]
                named = {f for f in targets if (force or f in absent) and os.path.lexists(sb.path(f))}
                idle = [f for f in targets if f not in named and f not in ign_before and os.path.lexists(sb.path(f))]
                if idle: chk.count('observation:recheck-of-present-file-is-a-no-op(not re-ignored, not demanded)')
            elif c[0] == 'send-rm-bring':
                # the files below a directory go to a local storage, the user loses the directory (with its .gitignore) and the
                # cache; `bring` fetches and then rechecks (cmd_recheck): materialisation into a directory that does not exist
                d = os.path.dirname(c[1])
                targets = sorted(t for t in rec if t.startswith(d + '/') and (rec.get(t), ext_of(t)) in cache)
                chk.count('command:bring')
                if not st.get('storage'):
                    X('storage', 'new', 'local', '--name', 's', '--path', os.path.join(sb.base, 'storage')); st['storage'] = True
                rc, out, err = X('file', 'send', '--storage', 's', *targets)
                if rc == 0 and targets:
                    for dp, dn, fn in os.walk(sb.path(d)):
                        os.chmod(dp, 0o755)
                    shutil.rmtree(sb.path(d), ignore_errors=True)
                    for cd in set(CACHE_PREFIX.values()):
                        if os.path.isdir(sb.path('.xvc/' + cd)):
                            for dp, dn, fn in os.walk(sb.path('.xvc/' + cd)):
                                os.chmod(dp, 0o755)
                            shutil.rmtree(sb.path('.xvc/' + cd), ignore_errors=True)
                    before = {k2: v for k2, v in read_gitignores(sb).items()}
                    ents = disk_tree(sb)
                    real0 = git_check_ignore(sb.root, sb.env, store)
                    ign_before = {p for p in store if p in real0 and real0[p][0]}
                    kept = {x for x in cache if any(rec.get(t) == x[0] and ext_of(t) == x[1] for t in targets)}
                    cache.clear(); cache.update(kept)
                    made = sorted({os.path.dirname(f) for f in targets if not os.path.isdir(sb.path(os.path.dirname(f)))})
                    if made: chk.count('newdir:bring-into-absent-directory')
                    rc, out, err = X('file', 'bring', '--storage', 's', *targets)
                    if len(made) <= 1:
                        exp = model_after(pr, 'ghandler', with_parents(ents, targets), made, targets)
                    for f in targets: content[f] = rec[f]
                    named = {f for f in targets if os.path.lexists(sb.path(f))}
            elif c[0] == 'untrack':
                # the records go, the file stays in the workspace (a link into the cache is replaced by a copy) and so does its ignore line
                targets = list(c[1])
                chk.count('command:untrack')
                rc, out, err = X('file', 'untrack', *targets)
                if rc == 0:
                    for f in targets: rec.pop(f, None)
            elif c[0] == 'send-bring':
                # the targets go to a local storage, the cache is lost, `bring [--force]` fetches and rechecks (cmd_recheck) ONTO what
                # is in the workspace
                targets, force = list(c[1]), bool(c[2])
                targets = [t for t in targets if (rec.get(t), ext_of(t)) in cache]
                chk.count('command:bring' + (':force' if force else ''))
                if not st.get('storage'):
                    X('storage', 'new', 'local', '--name', 's', '--path', os.path.join(sb.base, 'storage')); st['storage'] = True
                rc, out, err = X('file', 'send', '--storage', 's', *targets)
                if rc == 0 and targets:
                    for cd in set(CACHE_PREFIX.values()):
                        if os.path.isdir(sb.path('.xvc/' + cd)):
                            for dp, dn, fn in os.walk(sb.path('.xvc/' + cd)):
                                os.chmod(dp, 0o755)
                            shutil.rmtree(sb.path('.xvc/' + cd), ignore_errors=True)
                    kept = {x for x in cache if any(rec.get(t) == x[0] and ext_of(t) == x[1] for t in targets)}
                    cache.clear(); cache.update(kept)
                    if force:
                        for f in targets: count_prior(chk, sb, 'bring', f, store, [], False)
                    absent = {f for f in targets if not os.path.lexists(sb.path(f))}
                    rc, out, err = X('file', 'bring', '--storage', 's', *(['--force'] if force else []), *targets)
                    mat = sorted(f for f in targets if force or f in absent)
                    if force:
                        exp = model_after(pr, 'ghandler', ents, [], mat)
                    for f in mat: content[f] = rec[f]
                    named = {f for f in mat if os.path.lexists(sb.path(f))}
            elif c[0] == 'carry-in':
                targets, force = list(c[1]), bool(c[2])
                chk.count('command:carry-in' + (':force' if force else ''))
                present = [f for f in targets if f in on_disk]
                carried = sorted(f for f in present if f in rec and (force or rec.get(f) != cur[f]))
                rc, out, err = X('file', 'carry-in', *(['--force'] if force else []), *targets)
                exp = model_after(pr, 'ghandler', ents, [], carried)
                if rc == 0:
                    for f in carried:
                        rec[f] = cur[f]; cache.add((cur[f], ext_of(f)))
                named = set(carried)
                idle = [f for f in present if f not in named and f not in ign_before]
                if idle: chk.count('observation:carry-in-of-unchanged-file-is-a-no-op(not re-ignored, not demanded)')
            elif c[0] in ('copy', 'move'):
                src, dst = c[1], c[2]
                mopts = list(c[3]) if len(c) > 3 else []
                chk.count('command:' + c[0] + (':' + '='.join(mopts) if mopts else ''))
                dir_dest = dst.endswith('/')
                if dir_dest:
                    # a directory destination: the path is computed (`dir_path.join(source)`, or the file name with --name-only)
                    dst = dst + (os.path.basename(src) if '--name-only' in mopts else src)
                count_prior(chk, sb, c[0], dst, store, mopts, dir_dest)
                parent = os.path.dirname(dst)
                missing = bool(parent) and not os.path.isdir(sb.path(parent))
                if missing: chk.count(f'newdir:{c[0]}-into-absent-directory')
                rc, out, err = X('file', c[0], *mopts, src, dst)
                if rc == 0:
                    if dst not in files: files.append(dst)
                    content[dst] = cur.get(src, rec.get(src, ''))
                    if src in rec:
                        rec[dst] = rec[src]
                        if (rec[src], ext_of(src)) in cache: cache.add((rec[src], ext_of(dst)))
                    if c[0] == 'move': rec.pop(src, None)
                    if missing:
                        # recheck_from_cache created the parent: the model works on the tree that has it
                        ents = with_parents(ents, [dst])
                    if c[0] == 'move' and not mopts:      # copy -> copy: renamed in the workspace, then update_file_gitignores (C16-move.patch)
                        exp = model_after(pr, 'gmove', ents, [], [dst])
                    else:
                        exp = model_after(pr, 'ghandler', ents, [parent] if missing else [], [dst])
                    named = {dst}
            elif c[0] == 'copy-many':
                # ONE command materialises SEVERAL files: glob source `S/**`, directory destination `out/` (paths `out/<source path>`);
                # some land in directories the command has to create (IgnoreDir), others in directories that are there
                pat, dstdir = c[1], c[2]
                mopts = list(c[3]) if len(c) > 3 else []
                chk.count('command:copy-many' + (':' + '='.join(mopts) if mopts else ''))
                srcs = sorted(f for f in rec if f.startswith(pat[:-2]) and (rec.get(f), ext_of(f)) in cache)
                dsts = {s_: dstdir + s_ for s_ in srcs}
                made = sorted({os.path.dirname(d_) for d_ in dsts.values() if not os.path.isdir(sb.path(os.path.dirname(d_)))})
                chk.count(f'batch:copy-many:files={len(dsts)}:created-dirs={len(made)}')
                rc, out, err = X('file', 'copy', *mopts, pat, dstdir)
                if rc == 0:
                    for s_, d_ in dsts.items():
                        if d_ not in files: files.append(d_)
                        content[d_] = rec[s_]; rec[d_] = rec[s_]; cache.add((rec[s_], ext_of(d_)))
                    # with several missing parents the order of the IgnoreDir operations depends on the worker threads
                    if len(made) <= 1:
                        exp = model_after(pr, 'ghandler', with_parents(ents, sorted(dsts.values())), made, sorted(dsts.values()))
                    named = {d_ for d_ in dsts.values() if os.path.lexists(sb.path(d_))}
            else:
                raise ValueError(f'unknown step {c!r}')
            if fault:
                # the targets of the failed command are not judged, the model does not predict a cut write: what is demanded is
                # that every byte that was in every .gitignore is still there and that what was ignored before still is
                desc = step_text(c0)
                hit = (rc != 0 and 'File too large' in out + err) if fault[0] == 'fault-fsize' else rc in (-9, 137)
                chk.count(f'{fault[0]}:{c[0]}:' + ('hit' if hit else 'not-hit'))
                exp = exp_rec = None
                named = set()
                st['after_fault'] = True
            elif st.get('after_fault'):
                exp = exp_rec = None            # what a failed command recorded / carried is not part of the bookkeeping
            log.append({'cmd': desc, 'rc': rc, 'step': list(c0)})
            if rc not in (0,):
                log[-1]['stderr'] = (out + err)[-300:]
            of, after, store = oracle_after(chk, sb, pr, before, desc, obliged=ign_before | named, algo=algo)
            if fault:
                of = [(m, dict(sg, fault=fault[0])) for m, sg in of]
            fails += of
            # what we believe is recorded follows the store (a refused command records nothing, a failed one may have)
            for f in [f for f in rec if f not in store]:
                chk.count('bookkeeping:believed-recorded-but-not-in-store'); rec.pop(f)
            for f in [f for f in store if f not in rec and f in cur]:
                rec[f] = cur[f]
            if exp is not None and rc == 0:
                # an empty .gitignore and no .gitignore are the same workspace for the model (create+append)
                got = {d: canon(c2) for d, c2 in after.items() if c2}
                want_c = {d: canon(c2) for d, c2 in exp.items() if c2}
                if got != want_c:
                    dd = sorted(d for d in set(got) | set(want_c) if got.get(d) != want_c.get(d))[0]
                    tie.append((f'{desc}: bytes of {dd or "."}/{GI}', got.get(dd), want_c.get(dd)))
                if exp_rec is not None and sorted(exp_rec) != sorted(store):
                    tie.append((f'{desc}: recorded file paths (XvcPath store)', sorted(store), sorted(exp_rec)))
            # the cache lives where the model says it does for this algorithm (table regenerated from hashalgorithm.rs)
            if rc == 0 and not fault:
                extra = sorted(set(os.listdir(sb.path('.xvc'))) - {'store', 'ec', 'config.toml', 'config.local.toml'})
                for e in extra: chk.count('xvc-dir-entry:' + e)
                # `.xvc/tmp` (temporary entries of workspace copies, repair F29; ignored: C16_tmp_dir_ignored) is empty after a successful command
                if 'tmp' in extra:
                    left = os.listdir(sb.path('.xvc/tmp'))
                    if left:
                        tie.append((f'{desc}: entries left in .xvc/tmp after a successful command', sorted(left)[:5], []))
                    extra.remove('tmp')
                if extra and extra != [CACHE_PREFIX.get(algo[0])]:
                    tie.append((f'{desc}: entries of .xvc/ besides store, ec, config.toml, config.local.toml with cache.algorithm = {algo[0]} ({algo[1]})', extra, [CACHE_PREFIX.get(algo[0])]))
            if fails and not forced:
                break
        # every commit there is (xvc makes one after each command): none may contain a private file of .xvc/
        _, lg, _ = sb.git('-c', 'core.quotePath=false', 'log', '--all', '--name-only', '--format=@%h %s', '--', '.xvc')
        subject, bad = '', {}
        for l in lg.split('\n'):
            if l.startswith('@'): subject = l[1:]
            elif l and private_xvc([l]): bad.setdefault(subject, []).append(l)
        if bad and not any(sg.get('kind') in ('cache-staged', 'xvc-local-file-staged') for _, sg in fails):
            sub, fl = sorted(bad.items())[0]
            fails.append((f'commit "{sub[:90]}" [cache.algorithm = {algo[0]} ({algo[1]})] contains {len(fl)} file(s) of .xvc/ other than store/, ec/, config.toml: {fl[:3]}', private_sig(fl, algo)))
    finally:
        sb.cleanup()
    return fails, tie, log


def big_user_lines(nbytes):
    """a long list of patterns of the user's own (none matches a data file of the scenarios), about nbytes bytes"""
    out, i = ['# patterns of the user'], 0
    while sum(len(l) + 1 for l in out) < nbytes:
        i += 1; out.append('build-output-%04d/*.o' % i)
    return '\n'.join(out) + '\n'


def gen_fault_spec(rng, chk, strace_ok, k):
    """a history whose LAST-but-one command updates a .gitignore (root or sub-directory) that the user's own lines made
    larger than (or nearly as large as) the file size limit the command runs under; earlier commands tracked files whose
    lines sit at the end of that file"""
    n = rng.choice([4, 8, 16])
    D = rng.choice(['', '', 'a', 'sub/b'])
    here = D + '/' if D else ''
    mode = 'fault-kill' if strace_ok and rng.random() < 0.2 else 'fault-fsize'
    cross = mode == 'fault-fsize' and rng.random() < 0.25        # the appended block crosses the limit: cut in the middle
    names = rng.sample(DATA, 5)                                  # distinct basenames: away from the anchored-shadow region K12
    f0, f1, f2, f3 = [here + x for x in names[:4]]
    other = 'c/' + names[4]
    files = [f0, f1, f2, here + 'sub2/' + names[3], other]
    gis = {D: big_user_lines(n * 1024 * 5 // 4 if not cross else n * 1024 - 900)}
    if rng.random() < 0.3: gis['' if D else 'c'] = '*.tmp\n'
    cmds = [('track', [f0, f1], []) if rng.random() < 0.6 or ext_of(f0) == ext_of(f2) else ('track', [here + '*' + ext_of(f0), f1], [])]
    if rng.random() < 0.4: cmds.append(('track', [other], []))
    r = rng.random()
    if r < 0.30: inner = ('track', [f2], ['--no-commit'] if rng.random() < 0.3 else [])
    elif r < 0.42: inner = ('track', [here + '*' + ext_of(f2)], [])
    elif r < 0.56: inner = ('track', [here + 'sub2/'], [])
    elif r < 0.68: inner = ('copy', f0, here + 'copy%d%s' % (k, ext_of(f0)))
    elif r < 0.80: inner = ('move', f0, here + 'moved%d%s' % (k, ext_of(f0)))
    elif r < 0.90:
        cmds.append(('u-del-line', D, '/' + os.path.basename(f1))); inner = ('rm-recheck', f1, False)
    else:
        cmds.append(('u-del-line', D, '/' + os.path.basename(f1))); inner = ('carry-in', [f1], True)
    if cross:
        cmds.append(('u-pad', D, n * 1024 - rng.randint(6, 70)))
    cmds.append((mode, n if mode == 'fault-fsize' else D, inner))
    if inner[0] == 'track' and mode == 'fault-fsize' and rng.random() < 0.5:
        cmds.append(inner)                                      # the same command again, no fault: now its targets are judged
    chk.count(f'fault-scenario:{mode}:{"root" if not D else "subdir"}:{inner[0]}:{"cross" if cross else "over"}:{n}KiB')
    algo = ['blake3', 'default'] if rng.random() < 0.5 else [rng.choice(ALGORITHMS), rng.choice(['config', '-c', 'env'])]
    return {'files': files, 'gitignores': gis, 'algorithm': algo, 'commands': cmds}


WRITE_OPEN = re.compile(r'\b(openat|open|creat)\(.*?"([^"]*/\.gitignore)"(?:, ([A-Z_|0-9a-z]+))?')


def observe_open_flags(chk, xvc):
    """one traced session: how does the binary open the ignore files it changes?  (the generated table of write sites and the
    model say: O_APPEND, never O_TRUNC, no rename/unlink/truncate)  returns (observations, complaints) or None without strace"""
    if not shutil.which('strace'):
        return None
    sb = Sandbox(chk.scratch, 'openflags', xvc)
    obs, bad = [], []
    try:
        if sb.init()[0] != 0:
            return None
        for f in ['y.bin', 'a/x.bin', 'd/z.bin', 'd/e/w.bin']:
            sb.write(f, 'data of ' + f)
        sb.write(GI, sb.read(GI).decode() + '*.tmp')                  # no final newline: the repair write as well
        tr = os.path.join(sb.base, 'trace.txt')
        for args in (['file', 'track', 'y.bin', 'a/x.bin', 'd/'], ['file', 'copy', 'y.bin', 'new/y2.bin'], ['file', 'move', 'a/x.bin', 'a/x2.bin']):
            rc, out, err = sb.run(['strace', '-f', '-y', '-o', tr, '-e', 'trace=openat,open,creat,rename,renameat,renameat2,unlink,unlinkat,truncate,ftruncate',
                                   sb.xvc] + args)
            if rc != 0 or not os.path.exists(tr):
                return None if 'ptrace' in err or 'PTRACE' in err or not os.path.exists(tr) else (obs, bad)
            for line in open(tr, errors='replace'):
                if '/' + GI not in line: continue
                m = WRITE_OPEN.search(line)
                if m:
                    flags = set((m.group(3) or '').split('|'))
                    if m.group(1) == 'creat': flags |= {'O_WRONLY', 'O_CREAT', 'O_TRUNC'}
                    if flags & {'O_WRONLY', 'O_RDWR', 'O_CREAT', 'O_TRUNC'}:
                        rel = os.path.relpath(m.group(2), sb.root)
                        obs.append((' '.join(args[:2]), rel, '|'.join(sorted(flags - {'O_CLOEXEC'}))))
                        if 'O_APPEND' not in flags or 'O_TRUNC' in flags:
                            bad.append(f'xvc {" ".join(args)}: {m.group(1)}({rel}, {m.group(3)})')
                elif re.search(r'\b(rename|renameat|renameat2|unlink|unlinkat|truncate|ftruncate)\(', line):
                    bad.append(f'xvc {" ".join(args)}: {line.split(None, 1)[-1].strip()[:160]}')
    finally:
        sb.cleanup()
    return obs, bad


try:
    CACHE_PREFIX = {z: t for _, t, z in c16_extract.extract_hash_algorithms()}        # configuration value -> cache directory
except (RuntimeError, OSError):
    CACHE_PREFIX = {}


K_REPLAYS = [
    # K12: an anchored line written by xvc itself is read by xvc's matcher as matching at any depth
    {'id': 'K12', 'files': ['data.bin', 'sub/data.bin'], 'gitignores': {}, 'commands': [('track', ['data.bin']), ('track', ['sub/data.bin'])]},
    # K6a: a user line whitelists the target
    {'id': 'K6a', 'files': ['keep.bin', 'x.bin'], 'gitignores': {'': '*.bin\n!keep.bin\n'}, 'commands': [('track', ['keep.bin', 'x.bin'])]},
    # K6b: names that are not literal patterns
    {'id': 'K6b', 'files': ['a[1].bin', 'sp .bin '], 'gitignores': {}, 'commands': [('track', ['a[1].bin']), ('track', ['sp .bin '])]},
]
CORPUS = [
    # seeded defect C16-3 (the init block names the blake3 cache directory only): the cache directory follows cache.algorithm
    {'files': ['x.bin'], 'gitignores': {}, 'algorithm': ['sha2', 'config'], 'commands': [('track', ['x.bin'], [])]},
    {'files': ['a/x.bin', 'y.bin'], 'gitignores': {}, 'algorithm': ['sha3', '-c'],
     'commands': [('track', ['a/x.bin', 'y.bin'], []), ('copy', 'a/x.bin', 'a/c.bin'), ('rm-recheck', 'y.bin', False)]},
    {'files': ['m.dat'], 'gitignores': {'': '*.log\n'}, 'algorithm': ['blake2', 'env'],
     'commands': [('track', ['m.dat'], []), ('u-modify', 'm.dat', 'v2'), ('carry-in', ['m.dat'], False)]},
    # no final newline in the user's file (fixed by C16-newline.patch): the user's last pattern must survive
    {'files': ['x.bin', 'u.log'], 'gitignores': {'': '*.log'}, 'commands': [('track', ['x.bin'])]},
    {'files': ['a/x.bin', 'a/y.bin', 'b/m.dat'], 'gitignores': {'a': '# mine\ny.bin'}, 'commands': [('track', ['a/']), ('track', ['b/m.dat']), ('rm-recheck', 'a/x.bin', True)]},
    {'files': ['a/x.bin', 'w.txt'], 'gitignores': {'': '*.txt\n'}, 'commands': [('track', ['a/x.bin', 'w.txt']), ('copy', 'a/x.bin', 'new/deep/c.bin'), ('move', 'a/x.bin', 'mv/z.bin')]},
    # the ignore state and the store out of step (seeded defect C16-1: only paths new to the store reach update_file_gitignores):
    # the output directory is wiped together with its .gitignore and regenerated with identical content, tracked again
    {'files': ['out/model.bin', 'out/metrics.bin'], 'gitignores': {},
     'commands': [('track', ['out/model.bin', 'out/metrics.bin'], []), ('u-regen-dir', 'out'), ('track', ['out/model.bin', 'out/metrics.bin'], [])]},
    # glob target, .gitignore lost, --no-commit
    {'files': ['out/model.bin', 'out/notes.txt'], 'gitignores': {},
     'commands': [('track', ['out/*.bin'], []), ('u-rm-gitignore', 'out'), ('track', ['out/*.bin'], ['--no-commit'])]},
    # the user deletes the line xvc wrote, then names the path again (file target), later once more after a change of content
    {'files': ['a/x.bin', 'a/y.bin'], 'gitignores': {'a': '# mine\n'},
     'commands': [('track', ['a/x.bin', 'a/y.bin'], []), ('u-del-line', 'a', '/x.bin'), ('track', ['a/x.bin'], []),
                  ('u-del-line', 'a', '/x.bin'), ('u-modify', 'a/x.bin', 'v2'), ('track', ['a/x.bin'], []),
                  ('u-del-line', 'a', '/y.bin'), ('recheck', ['a/y.bin'], True), ('u-del-line', 'a', '/y.bin'), ('carry-in', ['a/y.bin'], True)]},
]
# seeded defect C16-2 (read - truncate - rewrite instead of O_APPEND): a LATER command fails at the .gitignore update
# seeded defect C16-4 (one ignore operation per materialised file: IgnoreDir for a created parent INSTEAD of IgnoreFile): a tracked
# file is materialised into a directory that does not exist, and the ignore handler drops the IgnoreDir because xvc's matcher does
# not answer NoMatch for the directory (user whitelist naming the directory / anchored line of a same-named tracked file)
NEWDIR_CORPUS = [
    {'files': ['a.bin', 'm.bin'], 'gitignores': {'': '*.tmp\n!/datasets\n'},
     'commands': [('track', ['a.bin', 'm.bin'], []), ('copy', 'a.bin', 'datasets/train.bin'), ('move', 'm.bin', 'datasets2/moved.bin', ['--recheck-method', 'symlink'])]},
    {'files': ['a.bin', 'latest'], 'gitignores': {}, 'commands': [('track', ['a.bin', 'latest'], []), ('copy', 'a.bin', 'runs/latest/weights.bin')]},
    {'files': ['models/w.bin'], 'gitignores': {'': '!models\n'}, 'commands': [('track', ['models/w.bin'], []), ('rm-recheck', 'models/w.bin', True)]},
]
NEWDIR_NAMES = ['datasets', 'models', 'latest', 'ckpt', 'out2']
# `!N/` (directory-only whitelist) is left out: xvc's matcher answers Whitelist for every FILE below N and refuses to write its line,
# on the unchanged code as well - that is K6a proper (its text names `!out/`)
NEWDIR_PATTERNS = ['none', '!/N', '!N', '*.x+!N', 'parent:!N', 'parent:!/N']


def gen_newdir_spec(rng, chk, k):
    """materialisation INTO A DIRECTORY THAT IS NOT THERE (copy, move, recheck after rm -rf, bring) x user patterns that name the
    directory x a tracked FILE with the directory's name at an ancestor level.  Destination names differ from the source names
    (a same-named file elsewhere is K12 proper); a whitelist that names the directory also names a same-named FILE (K6a proper):
    that combination is left out."""
    N = rng.choice(NEWDIR_NAMES)
    samefile = rng.random() < 0.35
    nested = samefile or rng.random() < 0.35
    top = rng.choice(['runs', 'exp'])
    D = top + '/' + N if nested else N
    pats = [p for p in NEWDIR_PATTERNS if (nested or not p.startswith('parent:')) and not (samefile and p in ('!/N', '!N', '*.x+!N', 'parent:!/N'))]
    pat = rng.choice(pats)
    cmd = rng.choice(['copy', 'copy', 'move', 'move-symlink', 'recheck', 'recheck', 'bring'])
    present = cmd in ('copy', 'move', 'move-symlink') and rng.random() < 0.25
    files = ['a.bin', 'm.bin']
    first = ['a.bin', 'm.bin']
    if samefile: files.append(N); first.append(N)
    if cmd in ('recheck', 'bring') or rng.random() < 0.2:
        files.append(D + '/w.dat'); first.append(D + '/w.dat')
        if cmd not in ('recheck', 'bring'): present = True
    elif present:
        files.append(D + '/keep.txt')                      # an untracked file of the user keeps the directory there
    gis = {}
    text = {'none': '', '!/N': f'!/{N}\n', '!N': f'!{N}\n', '*.x+!N': f'*.x\n!{N}\n', 'parent:!N': f'!{N}\n', 'parent:!/N': f'!/{N}\n'}[pat]
    if text:
        gis[top if pat.startswith('parent:') else ''] = text
    cmds = [('track', first, [])]
    if cmd == 'copy': cmds.append(('copy', 'a.bin', D + '/train.bin'))
    elif cmd == 'move': cmds.append(('move', 'm.bin', D + '/moved.bin'))
    elif cmd == 'move-symlink': cmds.append(('move', 'm.bin', D + '/moved.bin', ['--recheck-method', 'symlink']))
    elif cmd == 'recheck': cmds.append(('rm-recheck', D + '/w.dat', True))
    else: cmds.append(('send-rm-bring', D + '/w.dat'))
    if rng.random() < 0.4:
        cmds.append(('copy', 'a.bin', D + '/second.bin'))    # once more, now the directory is there
    chk.count(f'newdir-scenario:{cmd}:{"present" if present else "absent"}:{pat}:{"same-named-file" if samefile else "nested" if nested else "top"}')
    return {'files': files, 'gitignores': gis, 'commands': cmds}


# seeded defect C16-5 (recheck_from_cache reports the file to the ignore handler only when nothing was at the destination): a
# tracked file is materialised ONTO AN ENTRY THAT IS ALREADY THERE - a file the user made by hand, a path whose ignore line is gone, a
# link - at a file destination or at the path computed under a directory destination
ONTO_CORPUS = [
    {'files': ['data/model.bin', 'out/keep.txt'], 'gitignores': {},
     'commands': [('track', ['data/model.bin'], []), ('u-put', 'out/model-copy.bin', 'file'), ('copy', 'data/model.bin', 'out/model-copy.bin', ['--force'])]},
    {'files': ['data/weights.bin'], 'gitignores': {'': '*.log\n'},
     'commands': [('track', ['data/weights.bin'], []), ('u-put', 'out/data/weights.bin', 'file'),
                  ('copy', 'data/weights.bin', 'out/', ['--force', '--recheck-method', 'symlink'])]},
    {'files': ['data/a.dat', 'out/keep.txt'], 'gitignores': {},
     'commands': [('track', ['data/a.dat'], []), ('copy', 'data/a.dat', 'out/c.dat'), ('u-del-line', 'out', '/c.dat'),
                  ('copy', 'data/a.dat', 'out/c.dat', ['--force', '--recheck-method', 'hardlink']),
                  ('u-del-line', 'out', '/c.dat'), ('recheck', ['out/c.dat'], True, ['--recheck-method', 'symlink'])]},
]
ONTO_PRIORS = ['user-file', 'user-file', 'user-link', 'user-dangling-link', 'tracked-line-deleted', 'tracked-line-deleted', 'tracked-gitignore-lost',
               'tracked-replaced-by-user', 'untracked-line-deleted', 'tracked', 'absent']
RECHECK_METHODS = [None, 'copy', 'symlink', 'hardlink', 'reflink']


def gen_onto_spec(rng, chk, k):
    """materialisation ONTO AN EXISTING workspace entry: what is at the destination (a file / link / dangling link the user made and
    xvc does not know; a recorded path whose ignore line or .gitignore the user deleted, or whose content the user replaced; a path
    that was tracked and then untracked; controls: recorded and ignored, absent) x destination shape (file, directory `out/` with
    the computed path below, directory with --name-only) x command (copy --force, recheck --force, bring --force on recorded
    destinations; move, which must refuse) x every recheck method.  Sources live in a sub-directory and destinations outside it
    (a same-named line of an ancestor .gitignore is K12 proper)."""
    sd = rng.choice(['data', 'src/raw'])
    # same extension: the cache path of a copy is computed from the DESTINATION's extension (a copy to another extension fails)
    n0, n1 = rng.choice([('model.bin', 'weights.bin'), ('a.dat', 'b.dat'), ('m.pt', 'n.pt'), ('w.txt', 'v.txt')])
    s0, s1 = sd + '/' + n0, sd + '/' + n1
    out = rng.choice(['out', 'exp/run1', 'release'])
    shape = rng.choice(['file', 'file', 'dir', 'dir-name-only'])
    if shape == 'file': dst, arg, fopts = out + '/copy-of-' + n0, out + '/copy-of-' + n0, []
    elif shape == 'dir': dst, arg, fopts = out + '/' + s0, out + '/', []
    else: dst, arg, fopts = out + '/' + n0, out + '/', ['--name-only']
    prior = rng.choice(ONTO_PRIORS)
    method = lambda: (lambda m: ['--recheck-method', m] if m else [])(rng.choice(RECHECK_METHODS))
    D, line = os.path.dirname(dst), '/' + os.path.basename(dst)
    files = [s0, s1]
    if prior.startswith('tracked') or prior.startswith('untracked') or rng.random() < 0.5:
        files.append(D + '/keep.txt')          # the directory is there from the start: no `/dir/` line hides what happens to the file line
    topts = ['--recheck-method', rng.choice(['symlink', 'hardlink'])] if rng.random() < 0.25 else []
    # (link methods onto a dangling link used to panic - Path::exists follows the link, the entry was not removed, symlink/hard_link
    # answered EEXIST, the path was recorded and never materialised -; repaired by F38, every method is generated here since)
    cmds = [('track', [s0, s1], topts)]
    if prior == 'user-file': cmds.append(('u-put', dst, 'file'))
    elif prior == 'user-link': cmds.append(('u-put', dst, 'link'))
    elif prior == 'user-dangling-link': cmds.append(('u-put', dst, 'dangling'))
    elif prior != 'absent':
        cmds.append(('copy', s0, arg, fopts + method()))
        if prior == 'untracked-line-deleted': cmds += [('untrack', [dst]), ('u-del-line', D, line)]
        elif prior == 'tracked-line-deleted': cmds.append(('u-del-line', D, line))
        elif prior == 'tracked-gitignore-lost': cmds.append(('u-rm-gitignore', D))
        elif prior == 'tracked-replaced-by-user': cmds += [('u-del-line', D, line), ('u-put', dst, 'file')]
    recorded = prior.startswith('tracked')
    r = rng.random()
    if recorded and r < 0.25: cmd = ('recheck', [dst], True, method())
    elif recorded and r < 0.40: cmd = ('send-bring', [dst], True)
    elif shape == 'file' and prior in ('user-file', 'absent') and r > 0.85:
        cmd = ('move', s1, dst, ['--recheck-method', 'symlink'] if rng.random() < 0.5 else [])      # onto an entry: refused, nothing recorded
    else:
        force = ['--force'] if prior != 'absent' or rng.random() < 0.5 else []
        cmd = ('copy', s1 if shape == 'file' and rng.random() < 0.4 else s0, arg, force + fopts + method())
    cmds.append(cmd)
    if cmd[0] != 'move' and rng.random() < 0.4:
        # once more onto the path that is recorded now, after the user removed its line again
        cmds.append(('u-del-line', D, line))
        cmds.append(('recheck', [dst], True, method()) if rng.random() < 0.5 else ('copy', s0, arg, ['--force'] + fopts + method()))
    chk.count(f'onto-scenario:{prior}:{shape}:{cmd[0]}')
    algo = ['blake3', 'default'] if rng.random() < 0.7 else [rng.choice(ALGORITHMS), rng.choice(['config', '-c', 'env'])]
    return {'files': files, 'gitignores': {'': '*.log\n'} if rng.random() < 0.3 else {}, 'algorithm': algo, 'commands': cmds}


# seeded defect C16-6 (the handler drops every queued file whose path STRING starts with the text of a directory it just ignored):
# ONE command materialises SEVERAL files, some into directories it has to create and others into directories that are there, and the
# names of the new directories are PREFIXES of other destinations' names (dir `m` next to file `m.bin`, `data` next to `data2/`)
BATCH_CORPUS = [
    {'files': ['src/m/x.bin', 'src/m.bin', 'src/n.bin', 'out/src/keep.txt'], 'gitignores': {},
     'commands': [('track', ['src/m/x.bin', 'src/m.bin', 'src/n.bin'], []), ('copy-many', 'src/**', 'out/')]},
    {'files': ['ds/data/a.dat', 'ds/data2/b.dat', 'ds/other.dat'], 'gitignores': {'': '*.log\n'},
     'commands': [('track', ['ds/data/a.dat', 'ds/data2/b.dat', 'ds/other.dat'], []),
                  ('u-rm', ['ds/data', 'ds/data2/b.dat']), ('u-del-line', 'ds/data2', '/b.dat'),
                  ('recheck', ['ds/data/a.dat', 'ds/data2/b.dat'], False)]},
    {'files': ['set/a/p.pt', 'set/ab', 'set/a_v2.pt'], 'gitignores': {},
     'commands': [('track', ['set/a/p.pt', 'set/ab', 'set/a_v2.pt'], ['--recheck-method', 'symlink']),
                  ('u-rm', ['set/a', 'set/ab', 'set/a_v2.pt']), ('u-del-line', 'set', '/ab'), ('u-del-line', 'set', '/a_v2.pt'),
                  ('send-bring', ['set/a/p.pt', 'set/ab', 'set/a_v2.pt'], False)]},
]
BATCH_STEMS = ['m', 'data', 'a', 'run', 'set1']
# how the name of another destination relates to the name N of a directory the command creates
BATCH_RELATIONS = ['file:N.EXT', 'file:N_v2.EXT', 'file:NN', 'dir:N2/', 'dir:N.d/', 'inside', 'unrelated', 'file-is-prefix-of-dir']


def gen_batch_spec(rng, chk, k):
    """ONE materialising command x SEVERAL files: a directory N the command has to create (its files were tracked as explicit files,
    so there is no `/N/` rule yet) next to 1-3 other destinations whose names relate to N: a sibling FILE whose name starts with N
    (`N.ext`, `N_v2.ext`, `NN`), a file in an existing sibling DIRECTORY whose name starts with N (`N2/`, `N.d/`), a file really
    inside N, an unrelated name, a file whose name is a proper prefix of N.  Command: copy of a glob to a directory destination
    (the tree below `out/` partly there), recheck or send + lost cache + bring after the user lost N and the other files (and the
    ignore lines of those).  Sources live in a sub-directory S, destinations outside S (same-named anchored lines of an ancestor
    .gitignore are K12 proper); whole directories are never tracked (their `/S/` line is K12 proper for `out/S/...`)."""
    S = rng.choice(['src', 'ds', 'exp/raw'])
    N = rng.choice(BATCH_STEMS)
    ext = rng.choice(['.bin', '.dat', '.pt'])
    rels = rng.sample(BATCH_RELATIONS, rng.randint(1, 3))
    inside = [f'{S}/{N}/x{ext}'] + ([f'{S}/{N}/y{ext}'] if rng.random() < 0.3 else [])
    others, sibdirs = [], []
    for r in rels:
        if r == 'file:N.EXT': others.append(f'{S}/{N}{ext}')
        elif r == 'file:N_v2.EXT': others.append(f'{S}/{N}_v2{ext}')
        elif r == 'file:NN': others.append(f'{S}/{N}{N[-1]}')
        elif r == 'dir:N2/': others.append(f'{S}/{N}2/b{ext}'); sibdirs.append(f'{S}/{N}2')
        elif r == 'dir:N.d/': others.append(f'{S}/{N}.d/c{ext}'); sibdirs.append(f'{S}/{N}.d')
        elif r == 'inside': inside.append(f'{S}/{N}/sub/z{ext}')
        elif r == 'unrelated': others.append(f'{S}/zz{ext}')
        else: others.append(f'{S}/{N[:-1] or "q"}{ext}' if len(N) > 1 else f'{S}/q{ext}')
    tracked = inside + others
    cmd = rng.choice(['copy-many', 'copy-many', 'recheck', 'bring'])
    m = rng.choice(RECHECK_METHODS)
    mopts = ['--recheck-method', m] if m else []
    files = list(tracked)
    if cmd == 'copy-many':
        out = rng.choice(['out', 'release/v1'])
        there = rng.random() < 0.85             # control: nothing below out/ is there (every directory is created, `/S/`-like rules only)
        if there:
            files.append(f'{out}/{S}/keep.txt')
            files += [f'{out}/{d}/keep.txt' for d in sibdirs]
        cmds = [('track', tracked, []), ('copy-many', S + '/**', out + '/', mopts)]
    else:
        topts = ['--recheck-method', rng.choice(['symlink', 'hardlink'])] if rng.random() < 0.3 else []
        lost = [f'{S}/{N}'] + others
        cmds = [('track', tracked, topts), ('u-rm', lost)]
        cmds += [('u-del-line', os.path.dirname(f), '/' + os.path.basename(f)) for f in others if rng.random() < 0.85]
        cmds.append(('recheck', tracked, False, mopts) if cmd == 'recheck' else ('send-bring', tracked, False))
    chk.count(f'batch-scenario:{cmd}:' + '+'.join(sorted(rels)))
    return {'files': files, 'gitignores': {'': '*.log\n'} if rng.random() < 0.3 else {}, 'commands': cmds}


FAULT_CORPUS = [
    # the demo: 13 KB of user patterns in the root .gitignore, first.bin tracked, then `track second.bin` under ulimit -f 8
    {'files': ['first.bin', 'second.bin'], 'gitignores': {'': big_user_lines(13300)},
     'commands': [('track', ['first.bin'], []), ('fault-fsize', 8, ('track', ['second.bin'], [])), ('track', ['second.bin'], [])]},
    # sub-directory .gitignore, the ignore handler thread (copy), 4 KiB
    {'files': ['a/x.bin', 'a/y.bin'], 'gitignores': {'a': big_user_lines(5200)},
     'commands': [('track', ['a/x.bin', 'a/y.bin'], []), ('fault-fsize', 4, ('copy', 'a/x.bin', 'a/copy.bin'))]},
]
FAULT_KILL_CORPUS = [
    {'files': ['first.bin', 'second.bin'], 'gitignores': {'': '*.log\n'},
     'commands': [('track', ['first.bin'], []), ('fault-kill', '', ('track', ['second.bin'], []))]},
]
# the first track happens while a user rule whitelists the file (K6a, known: xvc asks the user to remove the rule); the user
# removes the rule and tracks again: from here on the path is outside the known region and must be ignored
WHITELIST_THEN_REMOVED = {'files': ['labels.csv', 'other.csv'], 'gitignores': {'': '*.csv\n!labels.csv\n'},
                          'commands': [('track', ['labels.csv'], []), ('u-del-line', '', '!labels.csv'), ('u-del-line', '', '*.csv'), ('track', ['labels.csv'], [])]}


def run(chk: Check):
    quick = chk.tier == 'quick'
    t_phase = time.time()
    ignore_extract.run(chk)
    try:
        c16_extract.run(chk)
    except (RuntimeError, OSError) as ex:
        chk.proof['broken'].append({'stage': 'translator', 'errors': [f'lib/c16_extract.py: {ex}'], 'package': 'XvcIgnore', 'theorems': ['C16_gitignore_opened_append_only']})
    model = chk.lean('XvcIgnore', 'XvcIgnore.Props.C16', exe='ignoremodel',
                     extra_modules=['XvcIgnore.Glob', 'XvcIgnore.Pattern', 'XvcIgnore.Walk', 'XvcIgnore.GitIgnore', 'XvcIgnore.Lemmas', 'XvcIgnore.GitLemmas', 'XvcIgnore.GitMono', 'XvcIgnore.GitDir', 'XvcIgnore.WritePrim', 'XvcIgnore.Gen.GitignoreWrites', 'XvcIgnore.IgnoreOps', 'XvcIgnore.Gen.IgnoreSends'])
    impl, _ = c09.build_harness(chk)
    xvc = chk.build_xvc()
    if not os.path.exists(model):
        chk.notes.append('model driver did not build; only the implementation-side oracle can run'); model = None
    # private copies: other checks rebuild lean/XvcIgnore (shared with C09) and the xvc binary while this one runs
    priv = os.path.join(chk.scratch, 'bin'); os.makedirs(priv, exist_ok=True)
    if model:
        model = shutil.copy(model, os.path.join(priv, 'ignoremodel'))
    try:
        xvc = shutil.copy(xvc, os.path.join(priv, 'xvc'))
    except OSError:
        pass
    pr = Procs(chk, impl, model)
    chk.extra.setdefault('phase_s', {})['lean+cargo builds'] = round(time.time() - t_phase, 1)
    chk.trusted_base += [
        'translator lib/ignore_extract.py (GITIGNORE_INITIAL_CONTENT, COMMON_IGNORE_PATTERNS), cross-checked against the compiled constants (stream `const`)',
        'translator lib/c16_extract.py (variants of HashAlgorithm with cache directory and configuration value: Gen/HashAlgorithms.lean, compared with the directories the binary creates under .xvc/)',
        'translator lib/c16_extract.py (the `ignore_writer.send(…)` sites of recheck_from_cache with their enclosing conditions: Gen/IgnoreSends.lean; guards: always / parent directory created / nothing was at the destination (`if !path.exists()` or a `let` of it) / other; a send whose argument is not a literal IgnoreOperation constructor or whose guard is `other` counts as sending nothing)',
        'translator lib/c16_extract.py (what make_ignore_handler does to the queued files between update_dir_gitignores and update_file_gitignores: Gen/IgnoreSends.lean HANDLER_FILE_FILTER; classes: none / rules reloaded with build_gitignore and checked again / retain-filter with starts_with (components) / with starts_with_str or a text prefix / other = counts as writing no file line)',
        'translator lib/c16_extract.py (how file/src/common/gitignore.rs and xvc init open the ignore files: Gen/GitignoreWrites.lean), cross-checked against the open(2) flags strace observes in one traced session per run and against the fault stream',
        'harness harness/src/bin/walker_harness.rs (`gcheckignore` = build_ignore_patterns(.gitignore)+check, as build_gitignore does), lib/c16.py (generators, canonicalisation of dates and of the HashMap order inside one appended block, oracle), lib/xvcbin.py',
        'modelled, not verified: git itself (dir.c/wildmatch are modelled by gitIgnored over globMatch and compared with the real `git check-ignore --no-index` on every run; `git add -A -n` is the oracle), chrono date text, the POSIX semantics of O_APPEND (WritePrim.lean `WriteKind.after`), HashMap iteration order (irrelevant: one file per group)',
    ]
    chk.assumptions += [
        'git reads only the .gitignore files of the work tree (scratch HOME: no core.excludesFile, empty .git/info/exclude)',
        'C16_ignored_after_track is partial: it assumes the target is not whitelisted by a line xvc\'s matcher sees, its name is a literal pattern, and whenever xvc believes the path already ignored git agrees; each excluded region has a proved counterexample and a replay (K6a, K6b, K12)',
        'names are ASCII without newlines',
    ]
    chk.extra['model_mirrors'] = 'the code with patches/C09-F8.patch and patches/C16-newline.patch'
    rng = chk.rng

    c09.stream_simple(chk, pr, 'const', ['common', 'gitignore'], lambda c: 'const\t' + c, lambda c, x: True)

    t_phase = time.time()
    # ---- opinions: xvc's matcher and git's matcher on generated trees
    n_trees = 80 if quick else 800
    st = chk.tie['streams'].setdefault('opinions', {'cases': 0, 'disagreements': 0})
    first = None
    for i in range(n_trees):
        ents = g_tree(rng, chk)
        t = opinions(chk, pr, ents, i)
        st['cases'] += 1; chk.evaluations += 1
        if any(e[0] == 'I' for e in ents): chk.nontrivial.add(hashlib.sha1(enc_tree(ents).encode()).hexdigest())
        if t:
            st['disagreements'] += 1
            if first is None: first = (ents, t)
    if first:
        ents, t = first
        def differs(c):
            return bool(opinions(chk, pr, c, 'shrink%d' % len(c) + hashlib.sha1(enc_tree(c).encode()).hexdigest()[:8]))
        small = c09.shrink_tree(ents, differs, max_steps=80)
        t2 = opinions(chk, pr, small, 'final') or t
        chk.disagreement('opinions', show_tree(small), t2[0][1], t2[0][2], t2[0][0])

    chk.extra.setdefault('phase_s', {})['opinions'] = round(time.time() - t_phase, 1); t_phase = time.time()

    # ---- binary histories
    n_sc = 34 if quick else 350
    bst = chk.tie['streams'].setdefault('binary', {'cases': 0, 'commands': 0, 'user_steps': 0, 'disagreements': 0, 'oracle_failures': 0})
    seen_sig = set()
    specs = [dict(s) for s in CORPUS] + [dict(WHITELIST_THEN_REMOVED)] + [None] * n_sc
    known = [f['match'] for f in chk.known_findings if f.get('status') == 'open' and f.get('match')]
    is_known = lambda sig: any(all(sig.get(k) == v for k, v in m.items()) for m in known)
    def minimise(fails, log, new_fails, tag):
        """drop steps of a failing history while a failure with the same (not known) signature remains"""
        if not any(not is_known(sg) for _, sg in new_fails) or len(log) <= 2 or not all('step' in l for l in log[1:]):
            return fails, log
        kind = next(sg for _, sg in new_fails if not is_known(sg))
        steps = [l['step'] for l in log[1:]]
        base = {'files': log[0]['files'], 'gitignores': log[0]['gitignores'], 'algorithm': log[0].get('algorithm')}
        nshr = [0]
        def still(cand):
            nshr[0] += 1
            f2, _, _ = scenario(chk, pr, xvc, f'shr{tag}_{nshr[0]}', rng, forced=dict(base, commands=cand))
            return any(sg == kind for _, sg in f2)
        small = shrink(steps, still, max_steps=14)
        if len(small) < len(steps):
            f2, t2, l2 = scenario(chk, pr, xvc, f'shr{tag}_final', rng, forced=dict(base, commands=small))
            if any(sg == kind for _, sg in f2):
                chk.count('shrunk-history')
                return f2, l2
        return fails, log

    for i, spec in enumerate(specs):
        fails, tie, log = scenario(chk, pr, xvc, i, rng, forced=spec)
        bst['cases'] += 1; chk.evaluations += 1
        bst['commands'] += sum(1 for l in log if 'cmd' in l); bst['user_steps'] += sum(1 for l in log if 'user' in l)
        if len(log) > 1: chk.nontrivial.add(hashlib.sha1(repr(log).encode()).hexdigest())
        new_fails = [(m, sg) for m, sg in fails if tuple(sorted(sg.items())) not in seen_sig]
        if spec is None:
            fails, log = minimise(fails, log, new_fails, f'b{i}')
        for msg, sig in fails:
            key = tuple(sorted(sig.items()))
            if key in seen_sig: continue
            seen_sig.add(key)
            bst['oracle_failures'] += 1
            chk.oracle_failure(msg, {'history': log, 'level': 'binary'}, {'all': [m for m, _ in fails]}, signature=sig)
        if tie:
            bst['disagreements'] += 1
            if bst['disagreements'] == 1:
                chk.disagreement('binary', log, tie[0][1], tie[0][2], tie[0][0])
        if len(chk.samples) < 6 and len(log) >= 3 and i % 6 == 0:
            chk.samples.append({'stream': 'binary', 'history': log, 'oracle': [m for m, _ in fails] or 'every obliged tracked path ignored by git, every .gitignore append-only'})
    chk.extra['phase_s']['binary'] = round(time.time() - t_phase, 1); t_phase = time.time()

    # ---- materialisation into directories that are not there (recheck_from_cache: IgnoreDir for the created parent AND IgnoreFile)
    n_nd = 10 if quick else 80
    nst = chk.tie['streams'].setdefault('new-directories', {'cases': 0, 'commands': 0, 'disagreements': 0, 'oracle_failures': 0})
    nspecs = [dict(s) for s in NEWDIR_CORPUS] + [gen_newdir_spec(rng, chk, j) for j in range(n_nd)]
    for j, spec in enumerate(nspecs):
        fails, tie, log = scenario(chk, pr, xvc, 7000 + j, rng, forced=spec)
        nst['cases'] += 1; chk.evaluations += 1
        nst['commands'] += sum(1 for l in log if 'cmd' in l)
        chk.nontrivial.add(hashlib.sha1(repr(log).encode()).hexdigest())
        fails, log = minimise(fails, log, [(m, sg) for m, sg in fails if tuple(sorted(sg.items())) not in seen_sig], f'n{j}')
        for msg, sig in fails:
            key = tuple(sorted(sig.items()))
            if key in seen_sig: continue
            seen_sig.add(key)
            nst['oracle_failures'] += 1
            chk.oracle_failure(msg, {'history': log, 'level': 'binary', 'stream': 'new-directories'}, {'all': [m for m, _ in fails]}, signature=sig)
        if tie:
            nst['disagreements'] += 1
            if nst['disagreements'] == 1:
                chk.disagreement('new-directories', log, tie[0][1], tie[0][2], tie[0][0])
        if j == 0 and len(chk.samples) < 8:
            chk.samples.append({'stream': 'new-directories', 'history': log, 'oracle': [m for m, _ in fails] or 'every obliged tracked path ignored by git, every .gitignore append-only'})
    chk.extra['phase_s']['new-directories'] = round(time.time() - t_phase, 1); t_phase = time.time()

    # ---- materialisation onto entries that are already there (recheck_from_cache: the IgnoreFile does not depend on what it replaces)
    sends = (chk.extra.get('translator_ignore_sends') or {}).get('send_sites') or []
    # the send sites are not the two the proofs are about (a translator obligation broke): look harder where they matter
    directed = any(x['guard'] not in ('always', 'parentCreated') or x['kind'] == 'computed' for x in sends) or len(sends) != 2
    n_on = (10 if quick else 80) * (3 if directed else 1)
    if directed: chk.notes.append(f'the ignore send sites of recheck_from_cache changed ({[(x["kind"], x["guard"]) for x in sends]}): onto-existing stream widened to {n_on} histories')
    est = chk.tie['streams'].setdefault('onto-existing', {'cases': 0, 'commands': 0, 'disagreements': 0, 'oracle_failures': 0})
    ospecs = [dict(x) for x in ONTO_CORPUS] + [gen_onto_spec(rng, chk, j) for j in range(n_on)]
    for j, spec in enumerate(ospecs):
        fails, tie, log = scenario(chk, pr, xvc, 8000 + j, rng, forced=spec)
        est['cases'] += 1; chk.evaluations += 1
        est['commands'] += sum(1 for l in log if 'cmd' in l)
        chk.nontrivial.add(hashlib.sha1(repr(log).encode()).hexdigest())
        fails, log = minimise(fails, log, [(m, sg) for m, sg in fails if tuple(sorted(sg.items())) not in seen_sig], f'o{j}')
        for msg, sig in fails:
            key = tuple(sorted(sig.items()))
            if key in seen_sig: continue
            seen_sig.add(key)
            est['oracle_failures'] += 1
            chk.oracle_failure(msg, {'history': log, 'level': 'binary', 'stream': 'onto-existing'}, {'all': [m for m, _ in fails]}, signature=sig)
        if tie:
            est['disagreements'] += 1
            if est['disagreements'] == 1:
                chk.disagreement('onto-existing', log, tie[0][1], tie[0][2], tie[0][0])
        if j == 1 and len(chk.samples) < 9:
            chk.samples.append({'stream': 'onto-existing', 'history': log, 'oracle': [m for m, _ in fails] or 'every obliged tracked path ignored by git, every .gitignore append-only'})
    chk.extra['phase_s']['onto-existing'] = round(time.time() - t_phase, 1); t_phase = time.time()

    # ---- ONE command materialises SEVERAL files, new directories whose names are prefixes of other destinations (handler batch semantics)
    hfilter = (chk.extra.get('translator_handler_filter') or {}).get('filter')
    directed_b = hfilter not in ('reloadCheck',)
    n_b = (8 if quick else 60) * (3 if directed_b else 1)
    if directed_b: chk.notes.append(f'the filter of the queued files in make_ignore_handler is not "reload the rules, check again" ({hfilter}): batch-prefix stream widened to {n_b} histories')
    pst = chk.tie['streams'].setdefault('batch-prefix', {'cases': 0, 'commands': 0, 'disagreements': 0, 'oracle_failures': 0})
    bspecs = [dict(x) for x in BATCH_CORPUS] + [gen_batch_spec(rng, chk, j) for j in range(n_b)]
    for j, spec in enumerate(bspecs):
        fails, tie, log = scenario(chk, pr, xvc, 8500 + j, rng, forced=spec)
        pst['cases'] += 1; chk.evaluations += 1
        pst['commands'] += sum(1 for l in log if 'cmd' in l)
        chk.nontrivial.add(hashlib.sha1(repr(log).encode()).hexdigest())
        fails, log = minimise(fails, log, [(m, sg) for m, sg in fails if tuple(sorted(sg.items())) not in seen_sig], f'p{j}')
        for msg, sig in fails:
            key = tuple(sorted(sig.items()))
            if key in seen_sig: continue
            seen_sig.add(key)
            pst['oracle_failures'] += 1
            chk.oracle_failure(msg, {'history': log, 'level': 'binary', 'stream': 'batch-prefix'}, {'all': [m for m, _ in fails]}, signature=sig)
        if tie:
            pst['disagreements'] += 1
            if pst['disagreements'] == 1:
                chk.disagreement('batch-prefix', log, tie[0][1], tie[0][2], tie[0][0])
        if j == 0 and len(chk.samples) < 10:
            chk.samples.append({'stream': 'batch-prefix', 'history': log, 'oracle': [m for m, _ in fails] or 'every obliged tracked path ignored by git, every .gitignore append-only'})
    chk.extra['phase_s']['batch-prefix'] = round(time.time() - t_phase, 1); t_phase = time.time()

    # ---- the append primitive: open flags observed in one traced session, and faults at the .gitignore update
    ost = chk.tie['streams'].setdefault('open-flags', {'cases': 0, 'disagreements': 0})
    of_ = observe_open_flags(chk, xvc)
    strace_ok = of_ is not None
    if of_ is None:
        chk.notes.append('strace is not usable here: open flags not observed, no kill variant in the fault stream')
    else:
        obs, bad = of_
        ost['cases'] = len(obs); chk.evaluations += 1
        for a, rel, fl in obs: chk.count(f'open-flags:{a}:{fl}')
        if len(obs) < 3:
            chk.notes.append(f'open-flags: only {len(obs)} write-opens of ignore files observed')
        if bad:
            ost['disagreements'] = len(bad)
            chk.disagreement('open-flags', obs, bad, 'every write site opens the ignore file with append(true) and without truncate (Gen/GitignoreWrites.lean, C16_gitignore_opened_append_only): O_WRONLY|O_CREAT|O_APPEND',
                             'the ignore files are not (only) opened for appending')
    n_f = 6 if quick else 60
    fst = chk.tie['streams'].setdefault('faults', {'cases': 0, 'commands': 0, 'oracle_failures': 0})
    fspecs = [dict(s) for s in FAULT_CORPUS] + ([dict(s) for s in FAULT_KILL_CORPUS] if strace_ok else []) + [gen_fault_spec(rng, chk, strace_ok, j) for j in range(n_f)]
    for j, spec in enumerate(fspecs):
        fails, _, log = scenario(chk, pr, xvc, 5000 + j, rng, forced=spec)
        fst['cases'] += 1; chk.evaluations += 1
        fst['commands'] += sum(1 for l in log if 'cmd' in l)
        chk.nontrivial.add(hashlib.sha1(repr(log).encode()).hexdigest())
        for msg, sig in fails:
            key = tuple(sorted(sig.items()))
            if key in seen_sig: continue
            seen_sig.add(key)
            fst['oracle_failures'] += 1
            chk.oracle_failure(msg, {'history': log, 'level': 'binary', 'stream': 'faults'}, {'all': [m for m, _ in fails]}, signature=sig)
        if j == 0 and len(chk.samples) < 8:
            chk.samples.append({'stream': 'faults', 'history': [{k2: v for k2, v in l.items() if k2 != 'gitignores'} for l in log],
                                'oracle': [m for m, _ in fails] or 'every .gitignore keeps its bytes as a prefix, everything ignored before is still ignored'})
    chk.extra['phase_s']['faults+open-flags'] = round(time.time() - t_phase, 1); t_phase = time.time()

    # ---- known-finding replays, judged by the oracle alone
    for j, spec in enumerate(K_REPLAYS):
        fails, _, log = scenario(chk, pr, xvc, 9000 + j, rng, forced={k: v for k, v in spec.items() if k != 'id'})
        chk.count('known-replay')
        done = set()
        for msg, sig in fails:
            key = tuple(sorted(sig.items()))
            if key in done: continue
            done.add(key)
            chk.oracle_failure(msg, {'history': log, 'level': 'binary', 'replay_of': spec['id']}, {'all': [m for m, _ in fails]}, signature=sig)

    chk.extra['rule'] = (
        f'{n_trees} generated trees (<= 4 levels) with user .gitignore files from the gitignore grammar (names, *.ext, dir/, /anchored, a/b, **/x, ?, [..], !negations, '
        'comments, trailing blanks, missing final newline): for up to 14 entries each, xvc\'s reading (build_gitignore+check, directories with and without trailing slash) and '
        'real git\'s reading (`git check-ignore --no-index -v -n`) are compared with the model\'s check/gitIgnored; '
        f'{len(specs)} scratch repositories ({len(CORPUS) + 1} corpus histories first, among them the minimised multi-step histories of seeded defect C16-1) with a history of 2-5 xvc commands out of '
        'track file(s) / dir/ / glob (new and already recorded paths, with and without --no-commit, unchanged and changed content) / rm+recheck / rm -rf dir+recheck / recheck [--force] / '
        'carry-in [--force] / copy (into existing, new and nested new directories) / move, interleaved with user edits (delete a .gitignore; delete a directory with its .gitignore and regenerate the '
        'files with identical content; delete the line that ignores a tracked path or any user line; change the content of a file); after every xvc command: byte-prefix and line-prefix relation of '
        'every .gitignore, real `git check-ignore` and `git add -A -n` for every tracked path that the command named as target / materialised or that git ignored before the command (a path the user '
        'un-ignored and no later command named is not demanded), and the predicted bytes of every .gitignore and the predicted set of recorded paths (model `trackCmd`/`handlerUpdate`/`moveUpdate` on the '
        'real prior state) vs the real ones; failing generated histories are shrunk; every history runs with a cache.algorithm (blake3 default 40 %, else blake3/blake2/sha2/sha3 set in .xvc/config.toml, by -c or by '
        'XVC_cache.algorithm) and after every command nothing below .xvc/ other than store/, ec/, config.toml may be in the Git index (xvc auto-commits), be proposed by `git add -A -n` or, at the end, be in any commit '
        '(`git log --all --name-only`); the cache directory that appears is compared with the table regenerated from hashalgorithm.rs; '
        f'{len(nspecs)} new-directory histories (the three scenarios of seeded defect C16-4 first): a tracked file is materialised by copy / move [--recheck-method symlink] / rm -rf dir + recheck / '
        'send + rm -rf dir and cache + bring into a directory that does not exist (or does, as control), top level or nested, with user patterns none / `!/N` / `!N` / `*.x`+`!N` in the root or `!N` / `!/N` in the parent, '
        'and optionally a tracked FILE called N at the root (its `/N` line is read by xvc at any depth): same oracle and byte tie (`!N/` is K6a proper and left out); '
        f'{len(ospecs)} onto-existing histories (three corpus histories first): a tracked file is materialised ONTO an entry that is already in the workspace - a file, a link or a dangling link '
        'the user made by hand (unknown to xvc, not ignored), a recorded path whose ignore line / whose .gitignore the user deleted or whose content the user replaced, a path that was tracked and then '
        'untracked, controls: recorded and ignored, absent - at a file destination, at the path computed under a directory destination `out/` and with --name-only, by copy --force, recheck --force, '
        'send + lost cache + bring --force (recorded destinations), move (must refuse), with every recheck method (recorded, copy, symlink, hardlink, reflink), optionally once more after the line was '
        'deleted again: same oracle and byte tie; '
        f'{len(bspecs)} batch-prefix histories (three corpus histories first): ONE command materialises SEVERAL files - `copy \'S/**\' out/` with the tree below out/ partly there, recheck and '
        'send + lost cache + bring after the user lost a directory N, other files and their ignore lines - into a directory N the command creates and into directories that are there, the other '
        'destinations named N.ext, N_v2.ext, NN, N2/…, N.d/…, inside N, unrelated, a prefix of N; sources tracked as explicit files, every recheck method: same oracle and byte tie (one created directory); '
        f'{len(fspecs)} fault histories: a LATER command (track file/glob/dir, copy, move, recheck, carry-in) runs under `trap "" XFSZ; ulimit -f 4|8|16` '
        'with a root or sub-directory .gitignore that the user\'s own lines made larger than the limit (or so large that the appended block crosses it), or is killed by strace at its first write(2) to that '
        '.gitignore; oracle: every byte that was in every .gitignore is still there as a prefix, every tracked path git ignored before is still ignored and not staged (the targets of the failed command are '
        'not judged), optionally the same command again without fault; the open(2) flags of every ignore file the binary opens for writing in one traced session (track file+dir, copy, move) vs the generated '
        f'table of write sites (O_APPEND, no O_TRUNC, no rename/unlink/truncate); {len(K_REPLAYS)} known-finding replays. Non-trivial = a tree with a user .gitignore / a history with at least two steps; distinct by input.')
    chk.extra['programs'] = bst['cases']
    return chk.finish()


def replay(chk: Check, data):
    impl, _ = c09.build_harness(chk)
    xvc = chk.build_xvc()
    pr = Procs(chk, impl, None)
    for n, f in enumerate(data.get('failures', [])):
        hist = f['case']['history']
        spec = {'files': list(hist[0]['files']), 'gitignores': dict(hist[0]['gitignores']), 'algorithm': hist[0].get('algorithm'), 'commands': []}
        for h in hist[1:]:
            if h.get('step'):
                spec['commands'].append(tuple(h['step'])); continue
            c = h['cmd']
            m = re.match(r'xvc file track (.*)', c)
            if m: spec['commands'].append(('track', m.group(1).split(' '))); continue
            m = re.match(r'rm -rf (\S+); xvc file recheck (\S+)', c)
            if m: spec['commands'].append(('rm-recheck', m.group(2), True)); continue
            m = re.match(r'rm (\S+); xvc file recheck', c)
            if m: spec['commands'].append(('rm-recheck', m.group(1), False)); continue
            m = re.match(r'xvc file (copy|move) (\S+) (\S+)', c)
            if m: spec['commands'].append((m.group(1), m.group(2), m.group(3)))
        fails, _, log = scenario(chk, pr, xvc, 100 + n, chk.rng, forced=spec)
        chk.evaluations += 1
        print('history:'); [print('  ', l) for l in log]
        print('oracle:', [m for m, _ in fails] or 'property holds on this input')
        for msg, sig in fails[:3]:
            chk.oracle_failure(msg, {'history': log, 'level': 'binary'}, None, signature=sig)
    return chk.finish()
