"""C14 — Pipeline export and import are inverse.

Proof   lean/XvcPipeData (Schema.lean model, Props/C14.lean theorems).
Tie     (T) translator: declaration order of dependency/output variants and fields, and the three sorts of
        export.rs, re-read from the Rust source on every run (lib/pipe_common.extract_order);
        (B) correspondence: the same construction / export / import commands go to the freshly built `xvc`
        binary in scratch repositories and to the model driver `pipedata schema`; command verdicts, the
        canonicalised text of every `xvc pipeline export`, and `xvc pipeline list` are diffed.
        (R) reader: cmd_import's input handling is re-read from import.rs (lib/c14_strings.extract_reader) and selects the
        reader of `Reader.lean`; generated document texts (YAML with literal block scalars / JSON; clean, CRLF, without
        final newline, with a line that is not UTF-8) go to `pipedata reader` and to the real `xvc pipeline import`
        (--file and stdin); what was imported must be the value the text was emitted from when the model hands the
        clean text to the parser, and otherwise what `import --file` makes of the model's string.
        (D) documents: `export(import(V)) = V` modulo name and list order for generated documents V (C14_import_export).
        (W) export file: export.rs is re-read (lib/c14_strings.extract_export_write: `fs::write(path, export_output)` fed from the one
        string that also goes to stdout); one traced export per run gives the open(2) flags of the export path (O_CREAT|O_TRUNC, as
        `ExportFile.fsWrite` assumes); for every `export --file` of the run `pipedata writefile` predicts the file content from what
        the path held and the document - once as the model of the code (`writeFile`: the document) and once as open+write_all with the
        observed flags (`openWrite`) - and both are compared with the bytes found in the file.
        (O) orderings: lib/c14_strings.extract_export_order re-reads which ordering export.rs applies to the steps, the dependencies and the
        outputs of a step (`.sorted()` = derived Ord | a sort by the Display string | none) into Gen/ExportOrder.lean; the obligations
        C14_export_dependency_order_canonical / C14_export_output_order_canonical / C14_export_order_as_modelled are stated over that table.
Oracle  independent of the model, on the real command output only: (a) export is a function of the pipeline: the same pipeline exported
        repeatedly by fresh processes (HashMap order differs per process), to stdout and to a file, gives one document; (b) second export identical to the first
        except for the name (json and yaml, raw text), every other pipeline's export unchanged (the source pipeline
        included), import over an existing name refused without --overwrite with everything unchanged, accepted with it.
        Channels: export --file -> import --file | stdin, and export to stdout piped into import.
        Export path: `export --file P` with P absent / empty / shorter / equally long / longer (bigger pipeline, same pipeline before an
        edit, other format) / garbage / read-only / symbolic link / directory: the bytes of P are the document `export` prints to
        stdout, `import --file P` succeeds and re-exports equal up to the name; a directory is refused without damage.
Strings every string-valued field (step name, command, generic command, sqlite query, regex, parameter key and value,
        paths, recorded lines, map keys, url headers) is drawn from the structured generator of lib/c14_strings.py; what
        the command line cannot carry is injected by importing a generated JSON document first.
"""
import hashlib, json, os, re, shutil, sqlite3, time
from common import Check, run_lines, shrink, REPO, VERIF
from xvcbin import Sandbox
import pipe_common as pc
import c14_strings as cs

INV = {None: '-', 'by_dependencies': 'd', 'always': 'a', 'never': 'n'}
INV_JSON = {'ByDependencies': 'd', 'Always': 'a', 'Never': 'n'}

# ------------------------------------------------------------------------------------------------
# string pools

STEP_NAMES_PLAIN = ['prep', 'train', 'eval', 's1', 's2', 'step_3', 'build-all', 'x.y']
STEP_NAMES_WILD = ['é', 'naïve step', '日本語', 'quo"te', "it's", 'multi\nline', 'tab\there', 'a:b', 'x#y', '{}', 'null',
                   'true', '123', '~', '*', 'a, b', '[x]', 'back\\slash', 'emoji🙂', ' lead', 'trail ', 'per%cent', '$HOME',
                   '`cmd`', 'a|b', '!tag', '&anchor', 'a - dash', '? q', '@at', '"', "'", 'a: b', 'no', 'y', '0x1F', '1e3',
                   'line1\nline2\n', 'cr\rx', '\u00a0nbsp', 'x\u2028y', '\x7f', 'a\x1bb', '%YAML', '|', '>', 'key: [1, 2]']
PIPE_NAMES = ['p1', 'main', 'pl_two', 'data-prep', 'ünï', '日本', 'with space', 'it\'s', 'quo"te', 'a:b', '#hash', 'null', '123',
              'true', '[x]', '{y}', 'a, b', '*star', '~', '!bang', '&amp', '%pc', '@at', '`bt`', 'tab\tname', 'a - dash', 'x: y']
COMMANDS_PLAIN = ['true', 'echo hi', 'cat a.txt', 'ls d', 'python3 -c "print(1)"']
COMMANDS_WILD = ["echo 'héllo \"w\"'", 'echo a\necho b', "printf '%s\\n' \"a b\"", 'echo $((1+2)) # comment', "echo 'tab\there'",
                 'echo 日本', 'echo \\\\', "cat <<'EOF'\nline: 1\n- item\nEOF", 'echo ---', "echo '...'", 'echo "key: value"',
                 "echo ' # not a comment'", 'echo "\\u00e9"', 'echo a\r\necho b', 'echo trailing   ', '  echo leading', 'echo a\n\n\necho b\n',
                 "echo '{\"a\": [1, 2]}'", 'echo "${HOME:-x}" | tr a-z A-Z', 'echo \'it\'\\\'\'s\'', 'echo é > /dev/null; true', ': | :',
                 'echo "!Yaml"', 'echo "a\tb"', 'echo x\u2028y', 'echo \x7f', "echo 'a: |\n  b'", 'echo "%d" 1']
# commands that succeed under `sh -c` (pipelines that are run)
COMMANDS_OK = ['true', 'echo hi', "echo 'héllo \"w\"'", 'echo a\necho b', 'cat a.txt > /dev/null', ':', 'echo 日本 # c', "printf '%s\\n' x"]
GLOBS_RUN = ['d/*.dat', '*.txt', 'g/*', 'g/[a-z]*', 'd/[xy].dat', 'é*/*', 'nothing/*.none', 'sub dir/*', 'd/**/*.bin']   # a glob matching a directory kills the run (K4b)
GLOBS = ['d/*.dat', 'd/*', '*.txt', 'd/**/*', 'd/[xy].dat', 'é*/*', 'nothing/*.none', 'sub dir/*']
REGEXES = ['^l', '^l[12]', 'x$', '\\d+', '[a-z]+\\s', 'é', '"q"', "it's", 'a|b', '^$', '(?i)HEAD', 'a{1,2}', '\\\\']
QUERIES = ['select * from t', 'select count(*) from t', "select b from t where a > 0 -- 'c'", 'select "é", a from t']


def pick(rng, *pools, w=None):
    pool = rng.choices(pools, weights=w)[0] if w else rng.choice(pools)
    return rng.choice(pool)


# ------------------------------------------------------------------------------------------------
# workspace used by pipelines that are run

WILD_FILES = ['a: b.txt', '? x', "'q'", 'a - y', '#h', 'nl\nname', ' sp ', 'é', '{b}', 'null', '123', 'tab\tx', 'nel\u0085x', '"dq"', 'a,b', '[l]',
              '&a', '*a', '!t', '|', '>', '%p', '@a', '`b`', '~', 'y', 'No']
PARAM_YAML_WILD = ('inf: .inf\nnan: .nan\nbin: !!binary aGk=\nik: {1: x, 2: y}\nnl: [null, ~]\nts: 2001-12-14t21:59:43.10-05:00\noct: 0o14\nhex: 0x1F\n'
                   'nel: "\\u0085 nel"\ntag: !custom tagged\nus: 1_000\nninf: -.inf\none: 1.0\nexp: 1e3\nsexp: "1e3"\nstrue: "true"\nsnull: "null"\n'
                   'tilde: "~"\ndeep: {a: {b: [1, {c: d}]}}\nll: [[1,2],[3]]\ncrlf: "line1\\nline2\\r\\nline3"\nlead: " lead"\ntrail: "trail "\n'
                   'nz: -0.0\ni63: 9223372036854775808\nmin: -9223372036854775808\n')
PARAM_YAML = ('k: 3\nf: 0.25\nneg: -7\nbig: 18446744073709551615\ns: "a string: with # chars"\nu: "é日本"\nb: true\nl: [1, 2.5, "x", false]\n'
              'm:\n  n: [1, 2]\n  o:\n    p: deep\nml: |\n  line1\n  line2\nempty: ""\nq: \'it\'\'s\'\ne: 1.0e+20\n' + PARAM_YAML_WILD)
PARAM_JSON = json.dumps({'k': 3, 'f': 0.25, 'neg': -7, 'big': 18446744073709551615, 's': 'a "q" \\ string', 'u': 'é日本\n', 'b': False,
                         'l': [1, 2.5, 'x', None, {'z': 1}], 'm': {'n': [1, 2], 'o': {'p': 'deep'}}, 'e': 1e+20, 'tiny': 5e-324,
                         'max': 1.7976931348623157e308, 'huge': 12345678901234567890123, 'emoji': '\U0001F600', 'll': [[]], 'eo': {}, 'nul': '\x00nul', 'ls': '\u2028'})
PARAM_TOML = ('k = 3\nf = 0.25\nneg = -7\ns = "a \\"q\\" string"\nu = "é日本"\nb = true\nl = [1, 2, 3]\nls = ["a", "b"]\n'
              'dt = 1979-05-27T07:32:00Z\nd = 1979-05-27\ntm = 07:32:00\nnz = -0.0\nnest = [[1,2],["a"]]\ninl = {x=1,y="z"}\noff = 1979-05-27T00:32:00.999999-07:00\n'
              'mls = "multi\\nline"\nmaxi = 9223372036854775807\nbigf = 1e300\n[m]\nn = [1, 2]\n[m.o]\np = "deep"\n')
PARAM_KEYS = {'params.yaml': ['k', 'f', 'neg', 'big', 's', 'u', 'b', 'l', 'm.n', 'm.o.p', 'm', 'm.o', 'ml', 'empty', 'q', 'e', 'inf', 'nan', 'bin', 'ik', 'nl', 'ts',
                              'oct', 'hex', 'nel', 'tag', 'us', 'ninf', 'one', 'exp', 'sexp', 'strue', 'snull', 'tilde', 'deep', 'll', 'crlf', 'lead', 'trail',
                              'nz', 'i63', 'min'],
              'conf/p.json': ['k', 'f', 'neg', 'big', 's', 'u', 'b', 'l', 'm.n', 'm.o.p', 'm', 'e', 'tiny', 'max', 'huge', 'emoji', 'll', 'eo', 'nul', 'ls'],
              'p.toml': ['k', 'f', 'neg', 's', 'u', 'b', 'l', 'ls', 'dt', 'd', 'm.n', 'm.o.p', 'm', 'tm', 'nz', 'nest', 'inl', 'off', 'mls', 'maxi', 'bigf']}


def make_workspace(sb):
    sb.write('a.txt', 'hello\n')
    sb.write('b c.txt', 'two words\n')
    sb.write('d/x.dat', '1\n'); sb.write('d/y.dat', '2\n'); sb.write('d/sub/z.bin', b'\x00\x01\xff')
    sb.write('édir/ü.txt', 'ü\n')
    sb.write('sub dir/f 1.csv', 'a,b\n')
    for i, n in enumerate(WILD_FILES):
        sb.write('g/' + n, str(i))
    sb.write('crlf.txt', b'l1\r\nl2 \r\n\r\n  x\r\nlast\r')
    sb.write('lines.txt', 'l1\nl2 "q"\nl3 é日本\n\nx 42\n  indented: yes\n# hash\n- dash\nHEAD\nlast')
    sb.write('params.yaml', PARAM_YAML)
    sb.write('conf/p.json', PARAM_JSON)
    sb.write('p.toml', PARAM_TOML)
    c = sqlite3.connect(sb.path('db.sqlite'))
    c.execute('create table t(a, b)'); c.execute("insert into t values (1, 'x'), (2, 'é')"); c.commit(); c.close()


def gen_dep(rng, runnable, step_names):
    kind = rng.choice(['File', 'File', 'Glob', 'GlobItems', 'Param', 'Regex', 'RegexItems', 'Lines', 'LineItems', 'Step', 'Generic',
                       'SqliteQueryDigest'])
    if kind == 'File':
        p = rng.choice(['a.txt', 'b c.txt', 'd/x.dat', 'édir/ü.txt', 'sub dir/f 1.csv', 'lines.txt'] if runnable else
                       ['a.txt', 'b c.txt', 'd/x.dat', 'édir/ü.txt', 'missing.bin', 'deep/er/path.tar.gz', 'quo"te.txt', "it's.txt", 'a.b', 'a/b',
                        'a', 'a-b', '日本/語.txt', 'x#y', '[b].txt'])
        return pc.Dep('File', path=p)
    if kind in ('Glob', 'GlobItems'):
        return pc.Dep(kind, glob=rng.choice(GLOBS_RUN if runnable else GLOBS))
    if kind == 'Param':
        f = rng.choice(list(PARAM_KEYS))
        key = rng.choice(PARAM_KEYS[f]) if runnable or rng.random() < 0.7 else rng.choice(['no.such', 'a b', 'é', 'x"y'])
        return pc.Dep('Param', path=f, key=key)
    if kind in ('Regex', 'RegexItems'):
        return pc.Dep(kind, path=rng.choice(['lines.txt', 'a.txt', 'crlf.txt'] if runnable else ['lines.txt', 'a.txt', 'none.log', 'b c.txt']),
                      regex=rng.choice(REGEXES))
    if kind in ('Lines', 'LineItems'):
        b, e = rng.choice(LINE_RANGES)
        return pc.Dep(kind, path=rng.choice(['lines.txt', 'a.txt', 'sub dir/f 1.csv', 'crlf.txt']), begin=b, end=e)
    if kind == 'Step':
        if not step_names:
            return pc.Dep('File', path='a.txt')
        return pc.Dep('Step', name=rng.choice(step_names))
    if kind == 'Generic':
        return pc.Dep('Generic', generic_command=rng.choice(['echo gen', 'cat a.txt', 'ls d | wc -l', "echo 'é \"q\"'"] if runnable else
                                                             ['echo gen', 'date +%Y', 'cat a.txt', "echo 'é \"q\"'\necho 2", 'ls | wc -l # c']))
    return pc.Dep('SqliteQueryDigest', path='db.sqlite', query=rng.choice(QUERIES))


LINE_RANGES = [(0, 1), (1, 3), (2, 2), (0, 100), (5, 9), (3, 1), (0, 0)]
GENERIC_ARGS = [' # again', '; true', ' | sort', ' && :', ' ;:']


def sibling_dep(rng, d, same_kind=0.8):
    """a dependency NEXT TO `d`: the same kind on the same file / glob, differing only in the secondary field (another regex, another
    line range, another parameter key, another argument of the generic command), or - `same_kind` permitting - the neighbouring kind
    with the same fields (regex <-> regex-items, lines <-> line-items, glob <-> glob-items), or the same dependency once more.
    A step that watches several things in ONE file has such dependencies."""
    v, p = d.variant, dict(d.prim)
    twin = {'Regex': 'RegexItems', 'RegexItems': 'Regex', 'Lines': 'LineItems', 'LineItems': 'Lines', 'Glob': 'GlobItems', 'GlobItems': 'Glob'}
    if v in twin and rng.random() >= same_kind:
        return pc.Dep(twin[v], **p)
    if v in ('Regex', 'RegexItems'):
        p['regex'] = rng.choice([r for r in REGEXES if r != p['regex']])
    elif v in ('Lines', 'LineItems'):
        p['begin'], p['end'] = rng.choice([r for r in LINE_RANGES if r != (p['begin'], p['end'])])
    elif v == 'Param':
        keys = [k for k in PARAM_KEYS.get(p['path'], []) if k != p['key']]
        p['key'] = rng.choice(keys) if keys else p['key'] + '.x'
    elif v == 'Generic':
        p['generic_command'] = p['generic_command'] + rng.choice(GENERIC_ARGS)
    elif v == 'SqliteQueryDigest':          # "can be used once": the database file itself
        return pc.Dep('File', path=p['path'])
    return pc.Dep(v, **p)                   # File, Step, Glob, GlobItems: the same dependency once more


def gen_deps(rng, runnable, step_names, n, have=(), sibling=0.3):
    """n dependencies for one `step dependency` command; with probability `sibling` each one is a sibling (see `sibling_dep`) of a
    dependency the step already has (`have`) or gets in this command"""
    out = []
    for _ in range(n):
        pool = list(have) + out
        out.append(sibling_dep(rng, rng.choice(pool)) if pool and rng.random() < sibling else gen_dep(rng, runnable, step_names))
    sq = [d for d in out if d.variant == 'SqliteQueryDigest']          # `--sqlite-query`: "Can be used once" per command line
    return [d for d in out if d.variant != 'SqliteQueryDigest' or d is sq[0]]


def gen_out(rng, used):
    kind = rng.choice(['File', 'File', 'Metric', 'Image'])
    base = rng.choice(['out', 'res/ult', 'métrique', 'o p', 'model'])
    ext = {'File': ['.txt', '.bin', ''], 'Metric': ['.json', '.csv', '.tsv', '.JSON', '.txt', ''], 'Image': ['.png', '.jpg']}[kind]
    p = f'{base}{len(used)}{rng.choice(ext)}'
    used.append(p)
    return pc.Out(kind, p)


def gen_scenario(rng, idx, runnable):
    """A scenario is a list of ops (plain data, json-serialisable through `enc_op`)."""
    ops = []
    npipes = rng.choice([1, 1, 2, 2, 3])
    pnames = rng.sample(PIPE_NAMES[:6] if rng.random() < 0.4 else PIPE_NAMES, npipes)
    if rng.random() < 0.3:
        pnames[0] = 'default'          # the pipeline `xvc init` creates
    used_out = []
    steps = {p: [] for p in pnames}
    for p in pnames:
        if p != 'default':
            ops.append(('new', p, rng.choice([None, None, 'd', 'sub dir', 'édir']) if not runnable else None))
        nsteps = rng.choice([0, 1, 2, 3, 4]) if not runnable else rng.choice([1, 2, 3, 4])
        pool_w = (3, 1) if runnable else (1, 2)
        names = []
        while len(names) < nsteps:
            n = pick(rng, STEP_NAMES_PLAIN, STEP_NAMES_WILD, w=pool_w)
            if n not in names:
                names.append(n)
        for i, s in enumerate(names):
            cmd = rng.choice(COMMANDS_OK) if runnable else pick(rng, COMMANDS_PLAIN, COMMANDS_WILD, w=(1, 2))
            when = rng.choice([None, None, 'by_dependencies', 'always', 'never'])
            ops.append(('step', p, s, cmd, when))
            steps[p].append(s)
            have = []
            for _ in range(rng.choice([0, 1, 1, 2])):
                # step dependencies only on earlier steps (no cycles) in runnable pipelines
                sn = names[:i] if runnable else [x for x in names if x != s]
                deps = gen_deps(rng, runnable, sn, rng.choice([1, 1, 2, 3, 5]), have)
                have += deps
                ops.append(('dep', p, s, deps))
            if rng.random() < 0.5:
                ops.append(('out', p, s, [gen_out(rng, used_out) for _ in range(rng.choice([1, 1, 2, 3]))]))
        # mutations of the construction
        if names and rng.random() < 0.35:
            s = rng.choice(names)
            ops.append(('update', p, s, rng.choice([None, rng.choice(COMMANDS_OK if runnable else COMMANDS_WILD)]),
                        rng.choice([None, 'always', 'never', 'by_dependencies'])))
        if len(names) > 1 and rng.random() < 0.3:
            s = rng.choice(names)
            ops.append(('rmstep', p, s))
            steps[p].remove(s)
            if rng.random() < 0.5:
                ops.append(('step', p, s, rng.choice(COMMANDS_OK), None))   # re-created: larger entity, now last
                steps[p].append(s)
    # a few commands that must be refused (error paths of the model)
    if rng.random() < 0.4:
        p = rng.choice(pnames)
        bad = rng.choice(['dupstep', 'nopipe', 'nostep', 'dupnew'])
        if bad == 'dupstep' and steps[p]:
            ops.append(('step', p, steps[p][0], 'true', None))
        elif bad == 'nopipe':
            ops.append(('step', 'no-such-pipeline', 'x', 'true', None))
        elif bad == 'nostep':
            ops.append(('dep', p, 'no-such-step', [pc.Dep('File', path='a.txt')]))
        elif bad == 'dupnew':
            ops.append(('new', p, None))
    if runnable:
        for p in pnames:
            if rng.random() < 0.8:
                ops.append(('run', p))
    # round trips
    fresh = [n for n in PIPE_NAMES if n not in pnames]
    rng.shuffle(fresh)
    live = list(pnames)
    for _ in range(rng.choice([1, 2, 2, 3])):
        src = rng.choice(live)
        dst = fresh.pop()
        fmt = rng.choice(['json', 'yaml'])
        via = rng.choice(['file', 'file', 'stdin', 'pipe'])
        ops.append(('roundtrip', src, dst, fmt, via, False))
        live.append(dst)
        r = rng.random()
        if r < 0.5:
            ops.append(('refuse', rng.choice(live), dst, rng.choice(['json', 'yaml'])))
        if r < 0.35 or 0.5 <= r < 0.65:
            ops.append(('roundtrip', rng.choice(live), dst, rng.choice(['json', 'yaml']), 'file', True))   # --overwrite (may be onto itself)
        if rng.random() < 0.15 and len(live) > 2:
            victim = rng.choice([x for x in live if x != 'default'])
            ops.append(('delete', victim))
            live.remove(victim)
    return {'id': idx, 'runnable': runnable, 'git': rng.random() < 0.15, 'ops': ops}


RT_COMBOS = [('yaml', 'file'), ('yaml', 'stdin'), ('yaml', 'pipe'), ('json', 'file'), ('json', 'stdin'), ('json', 'pipe')]


def gen_roundtrips(rng, src, taken, n):
    """n export->import->export probes of `src`, YAML twice as likely as JSON, all three channels"""
    fresh = [x for x in PIPE_NAMES if x not in taken]
    rng.shuffle(fresh)
    combos = rng.sample(RT_COMBOS[:3] * 2 + RT_COMBOS[3:], n)
    return [('roundtrip', src, fresh.pop(), fmt, via, False) for fmt, via in combos]


def gen_cli_strings(rng, idx):
    """one pipeline built with the real command line; every string field the command line can carry is drawn from the structured
    string generator (lib/c14_strings.py).  Not run."""
    p = rng.choice(PIPE_NAMES)
    ops, names, outs_used = [('new', p, None)], [], set()
    for _ in range(rng.choice([1, 2, 2, 3])):
        n = cs.gen_field(rng, 'step_name', 'cli') if rng.random() < 0.5 else rng.choice(STEP_NAMES_PLAIN)
        if n not in names:
            names.append(n)
    for i, s in enumerate(names):
        ops.append(('step', p, s, cs.gen_field(rng, 'command', 'cli'), rng.choice([None, None, 'always', 'never'])))
        deps = []
        for _ in range(rng.choice([0, 1, 2, 3])):
            k = rng.choice(['Generic', 'Generic', 'SqliteQueryDigest', 'File', 'Param', 'Regex', 'RegexItems', 'Step', 'Lines', 'LineItems'])
            if k == 'Generic': deps.append(pc.Dep(k, generic_command=cs.gen_field(rng, 'generic', 'cli')))
            elif k == 'SqliteQueryDigest' and not any(d.variant == k for d in deps):
                deps.append(pc.Dep(k, path='db.sqlite', query=cs.gen_field(rng, 'query', 'cli')))
            elif k == 'File': deps.append(pc.Dep(k, path=cs.gen_field(rng, 'path', 'cli')))
            elif k == 'Param':
                f = rng.choice(list(PARAM_KEYS))
                key = cs.gen_field(rng, 'param_key', 'cli')
                deps.append(pc.Dep(k, path=f, key=key if not key.startswith(':') else 'k' + key))
            elif k in ('Regex', 'RegexItems'):
                f = cs.gen_path(rng).split('/')[0].replace(':', '_') if rng.random() < 0.4 else rng.choice(['lines.txt', 'a.txt', 'b c.txt'])
                deps.append(pc.Dep(k, path=f, regex=cs.gen_field(rng, 'regex', 'cli')))
            elif k in ('Lines', 'LineItems'):
                f = cs.gen_path(rng).replace(':', '_') if rng.random() < 0.4 else rng.choice(['lines.txt', 'sub dir/f 1.csv'])
                deps.append(pc.Dep(k, path=f, begin=rng.choice([0, 1, 5]), end=rng.choice([1, 3, 100])))
            elif k == 'Step' and len(names) > 1:
                deps.append(pc.Dep(k, name=rng.choice([x for x in names if x != s])))
            last = deps[-1] if deps else None
            if last is not None and last.variant in ('Regex', 'RegexItems', 'Param', 'Lines', 'LineItems') and rng.random() < 0.3:
                # the same file watched once more: another generated regex / key, another range (same or neighbouring kind)
                q = dict(last.prim)
                if 'regex' in q: q['regex'] = cs.gen_field(rng, 'regex', 'cli')
                elif 'key' in q:
                    key = cs.gen_field(rng, 'param_key', 'cli')
                    q['key'] = key if not key.startswith(':') else 'k' + key
                else: q['begin'], q['end'] = rng.choice([(0, 3), (1, 1), (2, 100)])
                twin = {'Regex': 'RegexItems', 'RegexItems': 'Regex', 'Lines': 'LineItems', 'LineItems': 'Lines'}
                deps.append(pc.Dep(twin[last.variant] if last.variant in twin and rng.random() < 0.2 else last.variant, **q))
        if deps:
            ops.append(('dep', p, s, deps))
        if rng.random() < 0.5:
            outs = []
            for _ in range(rng.choice([1, 1, 2])):
                path = cs.gen_field(rng, 'path', 'cli')
                if path not in outs_used:
                    outs_used.add(path)
                    outs.append(pc.Out(rng.choice(['File', 'File', 'Metric', 'Image']), path))
            if outs:
                ops.append(('out', p, s, outs))
    if rng.random() < 0.3 and names:
        ops.append(('update', p, rng.choice(names), cs.gen_field(rng, 'command', 'cli'), None))
    ops += gen_roundtrips(rng, p, [p], rng.choice([2, 3, 3, 4]))
    if rng.random() < 0.4:
        taken = [p] + [op[2] for op in ops if op[0] == 'roundtrip']
        fmt = rng.choice(['yaml', 'yaml', 'json'])
        ops.append(('xfile', p, rng.choice([x for x in PIPE_NAMES if x not in taken]), fmt, 'w.' + fmt, gen_pre(rng)))
    return {'id': idx, 'runnable': False, 'git': False, 'ops': ops, 'family': 'cli-strings'}


def gen_lines_run(rng, idx):
    """a pipeline whose line-items / regex-items dependencies record the lines of a generated file (empty lines, whitespace-only
    lines, trailing blanks, YAML-significant starts, scalars that look like numbers / booleans / null), then round trips"""
    p = rng.choice(PIPE_NAMES[:6])
    lines = [rng.choice([cs.gen_line(rng), cs.gen_line(rng), '', rng.choice(cs.WS_ONLY)]) for _ in range(rng.choice([3, 6, 10]))]
    content = '\n'.join(lines) + rng.choice(['', '\n', '\n\n'])
    deps = [pc.Dep('LineItems', path='wild.txt', begin=0, end=rng.choice([3, 100])),
            pc.Dep('RegexItems', path='wild.txt', regex=rng.choice(['^', '.', '^$', '\\s$', '#', '^\\s*$']))]
    if rng.random() < 0.5: deps.append(pc.Dep('Lines', path='wild.txt', begin=0, end=100))
    if rng.random() < 0.5: deps.append(pc.Dep('Generic', generic_command=rng.choice(['echo a\n\necho b', 'echo x\n\n', '\n\necho y'])))
    ops = [('write', 'wild.txt', content), ('new', p, None),
           ('step', p, 's1', rng.choice(['echo a\n\necho b', 'true\n\n', '\n\ntrue', 'echo a\n \n\techo b'] + COMMANDS_OK), None),
           ('dep', p, 's1', deps), ('run', p)]
    ops += gen_roundtrips(rng, p, [p], rng.choice([2, 3]))
    return {'id': idx, 'runnable': True, 'git': False, 'ops': ops, 'family': 'recorded-lines'}


def gen_doc_scenario(rng, idx, order):
    """a repository state the command line cannot build: a generated document (all dependency kinds with all fields incl. recorded
    state, strings with arbitrary content in every string field) is imported as JSON, then round trips start from that state"""
    p = rng.choice(PIPE_NAMES)
    doc = cs.gen_doc(rng, order, p)
    ops = [('inject', p, doc)] + gen_roundtrips(rng, p, [p], rng.choice([3, 4, 4, 5]))
    if rng.random() < 0.4:
        taken = [p] + [op[2] for op in ops if op[0] == 'roundtrip']
        fmt = rng.choice(['yaml', 'yaml', 'json'])
        ops.append(('xfile', p, rng.choice([x for x in PIPE_NAMES if x not in taken]), fmt, 'w.' + fmt, gen_pre(rng)))
    return {'id': idx, 'runnable': False, 'git': False, 'ops': ops, 'family': 'document'}


def gen_pre(rng, directory=True):
    """the state of the export path before `export --file`"""
    pool = ['absent', 'empty', 'shorter', 'equal', 'longer-tail', 'longer-tail', 'longer-doc', 'longer-doc', 'longer-doc', 'other-format', 'other-format',
            'garbage', 'symlink', 'symlink-dangling'] + (['readonly'] if os.geteuid() == 0 else []) + (['directory'] if directory else [])
    return rng.choice(pool)


def gen_export_path(rng, idx):
    """the pre-existing state of the export path as a dimension: `export --file` to paths that are absent / empty / hold a shorter, equally
    long or LONGER document (of a bigger pipeline, of the same pipeline before an edit, in the other format), garbage, are read-only, a
    symbolic link, a directory; sequences export -> edit (remove last / first step, shorten a command) -> export to the SAME path -> import."""
    p, big = rng.sample(PIPE_NAMES, 2)
    ops, names = [('new', p, None)], []
    while len(names) < rng.choice([2, 3, 3, 4]):
        n = pick(rng, STEP_NAMES_PLAIN, STEP_NAMES_WILD, w=(3, 1))
        if n not in names:
            names.append(n)
    for i, s_ in enumerate(names):
        cmd = rng.choice([pick(rng, COMMANDS_PLAIN, COMMANDS_WILD), cs.gen_field(rng, 'command', 'cli'), 'echo ' + 'long ' * rng.choice([3, 10, 30])])
        ops.append(('step', p, s_, cmd, rng.choice([None, None, 'always', 'never'])))
        deps = []
        if i and rng.random() < 0.5: deps.append(pc.Dep('Step', name=rng.choice(names[:i])))
        if rng.random() < 0.5: deps.append(pc.Dep('File', path=rng.choice(['a.txt', 'b c.txt', 'd/x.dat', 'édir/ü.txt'])))
        if rng.random() < 0.3: deps.append(pc.Dep('Generic', generic_command=cs.gen_field(rng, 'generic', 'cli')))
        if deps: ops.append(('dep', p, s_, deps))
        if rng.random() < 0.4: ops.append(('out', p, s_, [pc.Out(rng.choice(['File', 'Metric', 'Image']), f'out{i}{rng.choice([".txt", ".json", ".png"])}')]))
    has_big = rng.random() < 0.6
    if has_big:
        ops.append(('new', big, None))
        for i in range(rng.choice([3, 4, 6])):
            ops.append(('step', big, f'b{i}', 'echo ' + 'a rather long command line ' * rng.choice([1, 2, 4]), None))
    fresh = [x for x in PIPE_NAMES if x not in (p, big)]
    rng.shuffle(fresh)
    live, nslot = list(names), 0

    def slot(fmt):
        nonlocal nslot
        nslot += 1
        return f's{nslot}.' + rng.choice([fmt, fmt, fmt, 'txt', 'yaml' if fmt == 'json' else 'json'])
    for _ in range(rng.choice([2, 3, 3, 4])):
        if len(fresh) < 4:
            break
        fmt = rng.choice(['yaml', 'yaml', 'json'])
        pat = rng.choice(['edit', 'edit', 'edit', 'bigger', 'cross-format', 'state', 'state'])
        if pat == 'edit' and live:
            sl = slot(fmt)
            ops.append(('xfile', p, fresh.pop(), fmt, sl, rng.choice(['absent', 'absent', gen_pre(rng, False)])))
            for _e in range(rng.choice([1, 1, 2])):
                e = rng.choice(['rm-last', 'rm-last', 'rm-first', 'shorten']) if len(live) > 1 else 'shorten'
                if e == 'shorten':
                    ops.append(('update', p, rng.choice(live), rng.choice(['x', ':', 'true', '']), None))
                else:
                    ops.append(('rmstep', p, live.pop(-1 if e == 'rm-last' else 0)))
                if len(fresh) > 1:
                    ops.append(('xfile', p, fresh.pop(), fmt, sl, None))
        elif pat == 'bigger' and has_big:
            sl = slot(fmt)
            ops.append(('xfile', big, fresh.pop(), fmt, sl, 'absent'))
            ops.append(('xfile', p, fresh.pop(), fmt, sl, None))
        elif pat == 'cross-format':
            sl = f's{nslot + 1}.txt'; nslot += 1
            f1, f2 = rng.choice([('json', 'yaml'), ('json', 'yaml'), ('yaml', 'json')])
            ops.append(('xfile', p, fresh.pop(), f1, sl, 'absent'))
            ops.append(('xfile', p, fresh.pop(), f2, sl, None))
        else:
            ops.append(('xfile', rng.choice([p, big]) if has_big else p, fresh.pop(), fmt, slot(fmt), gen_pre(rng)))
    return {'id': idx, 'runnable': False, 'git': False, 'ops': ops, 'family': 'export-path'}


SAME_FILE_KINDS = ['RegexItems', 'RegexItems', 'Regex', 'LineItems', 'Lines', 'Param', 'Generic', 'File', 'GlobItems']


def gen_cluster(rng, kind, k):
    """k dependencies of one kind on ONE file that differ only in the secondary field (regex / line range / parameter key / argument of
    the generic command); for the kinds without a secondary field (file, glob-items): the same dependency k times"""
    if kind in ('Regex', 'RegexItems'):
        first = pc.Dep(kind, path=rng.choice(['lines.txt', 'a.txt', 'crlf.txt', 'reqs.txt']), regex=rng.choice(REGEXES))
    elif kind in ('Lines', 'LineItems'):
        first = pc.Dep(kind, path=rng.choice(['lines.txt', 'reqs.txt', 'sub dir/f 1.csv']), begin=0, end=rng.choice([1, 2, 100]))
    elif kind == 'Param':
        f = rng.choice(list(PARAM_KEYS))
        first = pc.Dep(kind, path=f, key=rng.choice(PARAM_KEYS[f]))
    elif kind == 'Generic':
        first = pc.Dep(kind, generic_command=rng.choice(['echo gen', 'cat a.txt', 'ls d | wc -l']))
    elif kind == 'GlobItems':
        first = pc.Dep(kind, glob=rng.choice(['d/*.dat', '*.txt']))
    else:
        first = pc.Dep('File', path=rng.choice(['a.txt', 'lines.txt', 'reqs.txt']))
    out = [first]
    while len(out) < k:
        d = sibling_dep(rng, rng.choice(out), same_kind=1.0)
        if kind in ('File', 'GlobItems') or all(d.prim != x.prim for x in out):
            out.append(d)
    return out


def gen_same_file(rng, idx):
    """SEVERAL dependencies of one step on ONE file: per step 1-2 clusters of 2-4 dependencies of one kind on one path that differ only
    in the regex / the line range / the parameter key / an argument of the generic command (or are the same dependency given again),
    given in one `step dependency` command or spread over two, next to dependencies of other kinds on the same path.  Probes
    (`repeat` = the same pipeline exported by several fresh processes; export -> import -> export; json and yaml) BEFORE the pipeline
    is run, AFTER it was run (every dependency carries recorded state), and after a dependency was added again to a step whose
    dependencies have recorded state (equal up to that state)."""
    p = rng.choice(PIPE_NAMES[:8])
    ops, names = [('write', 'reqs.txt', 'numpy==2.1.0\npandas==2.2.2\ntorch==2.4.0\nl1 x\n\n42\n'), ('new', p, None)], []
    while len(names) < rng.choice([1, 1, 2, 3]):
        n = pick(rng, STEP_NAMES_PLAIN, STEP_NAMES_WILD, w=(4, 1))
        if n not in names:
            names.append(n)
    have = {n: [] for n in names}
    for i, s_ in enumerate(names):
        ops.append(('step', p, s_, rng.choice(COMMANDS_OK), rng.choice([None, None, 'always', 'never'])))
        first, later = [], []
        for _ in range(rng.choice([1, 1, 2])):
            cl = gen_cluster(rng, rng.choice(SAME_FILE_KINDS), rng.choice([2, 2, 3, 3, 4]))
            cut = len(cl) if rng.random() < 0.6 else rng.randrange(1, len(cl))          # one command line, or spread over two
            first += cl[:cut]; later += cl[cut:]
            path = cl[0].prim.get('path')
            if path and rng.random() < 0.4:                                            # another kind that watches the same file
                # (`--regex f:/re` takes the file name up to the first `/`: a file in a subdirectory cannot be named, the generator does not try)
                first.append(rng.choice([pc.Dep('File', path=path), pc.Dep('Lines', path=path, begin=0, end=2)] +
                                        ([pc.Dep('Regex', path=path, regex='^l')] if '/' not in path else [])))
        if i and rng.random() < 0.4:
            first.append(pc.Dep('Step', name=rng.choice(names[:i])))
        rng.shuffle(first)
        ops.append(('dep', p, s_, first))
        if later:
            ops.append(('dep', p, s_, later))
        have[s_] = first + later
        if rng.random() < 0.3:
            ops.append(('out', p, s_, [pc.Out(rng.choice(['File', 'Metric']), f'o{i}.{rng.choice(["txt", "json"])}')]))
    fresh = [x for x in PIPE_NAMES if x != p]
    rng.shuffle(fresh)

    def probes(n):
        out = [('repeat', p, rng.choice(['json', 'yaml']), rng.choice([3, 4]))]
        for fmt in rng.sample(['json', 'yaml'], n):
            out.append(('roundtrip', p, fresh.pop(), fmt, rng.choice(['file', 'file', 'stdin', 'pipe']), False))
        return out
    ops += probes(2 if rng.random() < 0.6 else 1)              # before any run
    ops.append(('run', p))
    ops += probes(2 if rng.random() < 0.6 else 1)              # recorded state in every dependency
    if rng.random() < 0.6:                                     # a dependency of a step that has recorded state, given again (fresh state)
        s_ = rng.choice(names)
        again = [rng.choice(have[s_])] if rng.random() < 0.6 else [sibling_dep(rng, rng.choice(have[s_]), same_kind=1.0)]
        if again[0].variant != 'SqliteQueryDigest':
            ops.append(('dep', p, s_, again))
            ops += probes(1)
            if rng.random() < 0.4:
                ops += [('run', p)] + probes(1)
    return {'id': idx, 'runnable': True, 'git': False, 'ops': ops, 'family': 'same-file'}


def same_file_groups(sc):
    """per step of a scenario: the groups of >= 2 dependencies given on the command line that share kind and file (or glob / are both
    generic commands).  -> list of (variant, size, all members equal?)"""
    per = {}
    for op in sc['ops']:
        if op[0] == 'dep':
            for d in op[3]:
                key = (op[1], op[2], d.variant, d.prim.get('path', d.prim.get('glob', '')))
                per.setdefault(key, []).append(d)
    return [(k[2], len(v), all(x.prim == v[0].prim for x in v)) for k, v in per.items() if len(v) > 1 and k[2] != 'Step']


def scenario_strings(sc):
    """(kind, string) of every string field a scenario sets through the command line"""
    out = []
    for op in sc['ops']:
        if op[0] == 'step': out += [('step_name', op[2]), ('command', op[3])]
        elif op[0] == 'update' and op[3] is not None: out.append(('command', op[3]))
        elif op[0] == 'dep':
            for d in op[3]:
                for f, x in d.prim.items():
                    if isinstance(x, str):
                        out.append((cs.STRING_FIELD_KIND.get(f, f), x))
        elif op[0] == 'out': out += [('out_path', o.path) for o in op[3]]
        elif op[0] == 'write': out += [('file_line', l) for l in op[2].split('\n')]
    return out


def enc_op(op):
    out = []
    for x in op:
        if isinstance(x, list):
            out.append([{'dep': [d.variant, d.prim]} if isinstance(d, pc.Dep) else {'out': [d.variant, d.path]} for d in x])
        else:
            out.append(x)
    return out


def dec_op(op):
    out = []
    for x in op:
        if isinstance(x, list):
            out.append([pc.Dep(d['dep'][0], **d['dep'][1]) if 'dep' in d else pc.Out(*d['out']) for d in x])
        else:
            out.append(x)
    return tuple(out)


# ------------------------------------------------------------------------------------------------
# running a scenario on the real binary

def parse_list(out):
    rows = []
    for line in out.split('\n'):
        if line.startswith('|') and not line.startswith('|--') and not line.startswith('| Name'):
            cells = [c.strip() for c in line.strip().strip('|').split('|')]
            if len(cells) >= 2:
                rows.append(('|'.join(cells[:-1]).strip(), cells[-1]))
    return rows


def dep_cli(d):
    """pc.Dep.cli() in the `--option=value` form, so that a value beginning with `-` is carried as a value"""
    a = d.cli()
    return [a[0] + '=' + a[1]] if len(a) == 2 else a          # --sqlite-query takes two values


def out_cli(o):
    a = o.cli()
    return [a[0] + '=' + a[1]]


def yaml_stdout_ends_in_keep_scalar(text):
    """`xvc pipeline export --format yaml` to stdout = the document + the newline `output!` adds.  The document ends with more
    than one newline exactly when its last node is a `|+` block scalar (a File/Image output path of the last step ending with two
    newlines); the added newline then becomes part of that scalar (proposed known finding K-C14-stdout-keep-scalar)."""
    return text.endswith('\n\n\n')


GHOST_YAML = '- name: ghost of an earlier export\n  command: echo removed\n  invalidate: Always\n  dependencies: []\n  outputs: []\n'
GHOST_JSON = {'command': 'echo removed', 'dependencies': [], 'invalidate': 'Always', 'name': 'ghost of an earlier export', 'outputs': []}
PRE_STATES = ['absent', 'empty', 'shorter', 'equal', 'longer-tail', 'longer-doc', 'other-format', 'garbage', 'readonly', 'symlink', 'symlink-dangling', 'directory']


def longer_document(doc, fmt):
    """a valid document of the same pipeline with one more trailing step: what the path holds when the pipeline was exported before its
    last step was removed (YAML: `doc` is a prefix of it)"""
    if fmt == 'yaml':
        return (doc[:-len('steps: []\n')] + 'steps:\n' if doc.endswith('\nsteps: []\n') else doc) + GHOST_YAML
    try:
        j = json.loads(doc)
        j['steps'] = j.get('steps', []) + [GHOST_JSON]
        return json.dumps(j, indent=2, sort_keys=True, ensure_ascii=False)
    except ValueError:
        return doc + doc


def prepare_path(path, pre, doc, other_doc, fmt):
    """bring `path` into the state `pre` relative to the document that is about to be exported there"""
    if os.path.islink(path) or os.path.isfile(path):
        os.chmod(path, 0o644) if not os.path.islink(path) else None
        os.unlink(path)
    elif os.path.isdir(path):
        shutil.rmtree(path)
    for extra in (path + '.target', path + '.nowhere'):
        if os.path.lexists(extra):
            os.unlink(extra)
    d = doc.encode()
    longer = longer_document(doc, fmt).encode()
    content = {
        'empty': b'',
        'shorter': (b"version: 1\nname: t\nworkdir: ''\nsteps: []\n" if fmt == 'yaml' else b'{"name":"t","steps":[],"version":1,"workdir":""}'),
        'equal': bytes(ord('x') if chr(b).isalnum() else b for b in d),
        'longer-tail': d + (GHOST_YAML.encode() if fmt == 'yaml' else b'\n' + d[len(d) // 2:] + b'\n'),
        'longer-doc': longer, 'readonly': longer, 'symlink': longer,
        'other-format': other_doc.encode() + b'\n' * max(0, len(d) + 9 - len(other_doc.encode())),
        'garbage': (b'\x00\xff{]: garbage [\n\t' * (len(d) // 8 + 3))[:2 * len(d) + 17],
    }
    if pre == 'shorter' and len(content['shorter']) >= len(d):
        content['shorter'] = d[:len(d) // 2]
    if pre in ('absent',):
        return
    if pre == 'directory':
        os.makedirs(path)
        with open(os.path.join(path, 'keep.txt'), 'w') as h:
            h.write('content of the directory\n')
        return
    if pre == 'symlink-dangling':
        os.symlink(path + '.nowhere', path); return
    target = path + '.target' if pre == 'symlink' else path
    with open(target, 'wb') as h:
        h.write(content[pre])
    if pre == 'symlink':
        os.symlink(target, path)
    if pre == 'readonly':
        os.chmod(path, 0o444)


def path_state(path):
    """(kind, content read through the path or None, detail)"""
    if os.path.isdir(path) and not os.path.islink(path):
        return ('dir', None, tuple(sorted((n, open(os.path.join(path, n), 'rb').read()) for n in os.listdir(path) if os.path.isfile(os.path.join(path, n)))))
    kind = 'symlink' if os.path.islink(path) else 'file' if os.path.exists(path) else 'absent'
    try:
        with open(path, 'rb') as h:
            data = h.read()
    except OSError:
        data = None
    return (kind if data is not None or kind == 'symlink' else 'absent', data, os.readlink(path) if kind == 'symlink' else None)


class Real:
    """executes ops; records per op: rc, and for exports the raw text"""

    def __init__(self, chk, xvc, sc, base):
        self.sb = Sandbox(base, f'sc{sc["id"]}', xvc)
        self.sc = sc
        self.trace = []          # (kind, payload) observations in op order
        self.oracle = []         # oracle failures (strings + detail)
        self.nfile = 0
        self.counts = {}         # generator / exclusion counters, merged into the evidence by `judge`
        self.writes = []         # per `export --file`: what the path held, the document, what it holds afterwards (stream export-file)

    def export(self, p, fmt='json', to_file=False):
        if to_file:
            self.nfile += 1
            f = os.path.join(self.sb.base, f'e{self.nfile}.{fmt}')
            rc, out, err = self.sb.x('pipeline', '-p', p, 'export', '--file', f)
            try:
                text = open(f, encoding='utf-8', newline='').read() if rc == 0 else None
            except OSError:
                text = None
            return rc, text, err, f
        rc, out, err = self.sb.x('pipeline', '-p', p, 'export', '--format', fmt)
        return rc, (out if rc == 0 else None), err, None

    def names(self):
        rc, out, err = self.sb.x('pipeline', 'list')
        return [r[0] for r in parse_list(out)], parse_list(out), out

    def snapshot(self, names):
        return {n: self.export(n, 'json')[1] for n in names}

    def run(self):
        sb, sc = self.sb, self.sc
        sb.init(git=sc['git'])
        if sc['runnable']:
            make_workspace(sb)
        else:
            for d in ('d', 'sub dir', 'édir'):
                os.makedirs(sb.path(d), exist_ok=True)
        for op in sc['ops']:
            k = op[0]
            if k == 'new':
                a = ['pipeline', '-p', op[1], 'new'] + (['--workdir', op[2]] if op[2] else [])
                rc, out, err = sb.x(*a)
                self.trace.append(('rc', rc == 0, err[-300:]))
            elif k == 'step':
                a = ['pipeline', '-p', op[1], 'step', 'new', '--step-name=' + op[2], '--command=' + op[3]] + (['--when', op[4]] if op[4] else [])
                rc, out, err = sb.x(*a)
                self.trace.append(('rc', rc == 0, err[-300:]))
            elif k == 'update':
                a = ['pipeline', '-p', op[1], 'step', 'update', '--step-name=' + op[2]] + (['--command=' + op[3]] if op[3] is not None else []) + \
                    (['--when', op[4]] if op[4] else [])
                rc, out, err = sb.x(*a)
                self.trace.append(('rc', rc == 0, err[-300:]))
            elif k == 'dep':
                a = ['pipeline', '-p', op[1], 'step', 'dependency', '--step-name=' + op[2]]
                for d in op[3]:
                    a += dep_cli(d)
                rc, out, err = sb.x(*a)
                self.trace.append(('rc', rc == 0, err[-300:]))
            elif k == 'out':
                a = ['pipeline', '-p', op[1], 'step', 'output', '--step-name=' + op[2]]
                for o in op[3]:
                    a += out_cli(o)
                rc, out, err = sb.x(*a)
                self.trace.append(('rc', rc == 0, err[-300:]))
            elif k == 'rmstep':
                rc, out, err = sb.x('pipeline', '-p', op[1], 'step', 'remove', '--step-name=' + op[2])
                self.trace.append(('rc', rc == 0, err[-300:]))
            elif k == 'delete':
                rc, out, err = sb.x('pipeline', '-p', op[1], 'delete')
                self.trace.append(('rc', rc == 0, err[-300:]))
            elif k == 'run':
                rc, out, err = sb.x('pipeline', '-p', op[1], 'run', timeout=40)
                self.trace.append(('run', rc, (out + err)[-600:]))
            elif k == 'write':
                sb.write(op[1], op[2])
                self.trace.append(('write',))
            elif k == 'inject':
                self.inject(op[1], op[2])
            elif k == 'roundtrip':
                self.roundtrip(*op[1:])
            elif k == 'xfile':
                self.xfile(*op[1:])
            elif k == 'repeat':
                self.repeat(*op[1:])
            elif k == 'refuse':
                self.refuse(*op[1:])
        return self

    def inject(self, name, doc):
        """bring the repository into a state the command line cannot build: import a generated document as JSON with --file
        (serde_json's text has no line structure, `fs::read_to_string` hands it over verbatim)"""
        self.nfile += 1
        f = os.path.join(self.sb.base, f'inject{self.nfile}.json')
        with open(f, 'w', encoding='utf-8') as h:
            json.dump(doc, h, ensure_ascii=True)
        rc, out, err = self.sb.x('pipeline', '-p', name, 'import', '--file', f)
        got = self.export(name, 'json')[1] if rc == 0 else None
        self.trace.append(('inject', rc, got, err[-300:]))

    # -- the oracle proper ------------------------------------------------------------------------
    def fail(self, what, **detail):
        self.oracle.append({'what': what, **detail})

    def not_a_function(self, src, fmt, t1, t2, how):
        """clause (a): export is a function of the pipeline - two exports of one pipeline with nothing in between but reads"""
        l1, l2 = t1.split('\n'), t2.split('\n')
        i = next((i for i, (a, b) in enumerate(zip(l1, l2)) if a != b), min(len(l1), len(l2)))
        self.fail(f'two exports of the unchanged pipeline {src!r} ({fmt}; {how}) differ: export is not a function of the pipeline; '
                  f'first difference at line {i + 1}: {l1[i:i + 1]} vs {l2[i:i + 1]}', first=t1[:2500], second=t2[:2500])

    def repeat(self, src, fmt, n):
        """`src` exported n times by n fresh processes (the iteration order of every HashMap differs from process to process),
        alternately to stdout and to a file: always the same document."""
        if src not in self.names()[0]:
            self.trace.append(('repeat', None)); return
        docs = []
        for i in range(n):
            if i % 2 == 0:
                rc, t, err, _ = self.export(src, fmt)
                t = t[:-1] if t is not None and t.endswith('\n') else t          # `output!` prints the document followed by one newline
            else:
                rc, t, err, _ = self.export(src, fmt, to_file=True)
            if rc != 0 or t is None:
                self.fail(f'export of pipeline {src!r} ({fmt}) failed', rc=rc, stderr=err[-400:])
                self.trace.append(('repeat', None)); return
            docs.append(t)
        self.counts[f'repeat:{fmt}:{n}'] = self.counts.get(f'repeat:{fmt}:{n}', 0) + 1
        k = next((k for k in range(1, n) if docs[k] != docs[0]), None)
        if k is not None:
            self.not_a_function(src, fmt, docs[0], docs[k], f'export 1 and export {k + 1} of {n} in a row, to stdout / to a file')
        self.trace.append(('repeat', {'json': docs[0] if fmt == 'json' else None}))

    def roundtrip(self, src, dst, fmt, via, ow):
        names0, rows0, _ = self.names()
        if src not in names0:              # precondition of the probe (only unmet in shrunk scenarios)
            self.trace.append(('roundtrip', None)); return
        snap0 = self.snapshot(names0)
        rc1, text1, err1, f1 = self.export(src, fmt, to_file=True)
        if rc1 != 0 or text1 is None:
            self.fail(f'export of pipeline {src!r} ({fmt}) failed', rc=rc1, stderr=err1[-400:])
            self.trace.append(('roundtrip', None)); return
        if fmt == 'json' and snap0.get(src) is not None and snap0[src] != text1 + '\n':
            # the snapshot taken a moment ago holds what `export --format json` printed for the same pipeline
            self.not_a_function(src, fmt, snap0[src][:-1], text1, 'to stdout, then to a file')
        other = 'yaml' if fmt == 'json' else 'json'
        x1 = self.export(src, other)[1]       # the other format, for the cross-format comparison
        # hypotheses under which C14_reader_preserves_document says "the parser receives exactly this text" (counted, no verdict)
        for key in ([f'export-text:{fmt}:' + ('ends-with-newline' if text1.endswith('\n') else 'no-final-newline')] +
                    ([f'export-text:{fmt}:contains-crlf'] if '\r\n' in text1 else [])):
            self.counts[key] = self.counts.get(key, 0) + 1
        feed = text1
        if via == 'pipe':                  # `xvc pipeline export --format F | xvc pipeline import --format F`
            rcp, feed, errp, _ = self.export(src, fmt)
            if rcp != 0 or feed is None:
                self.fail(f'export of pipeline {src!r} ({fmt}) to stdout failed', rc=rcp, stderr=errp[-400:])
                self.trace.append(('roundtrip', None)); return
            if fmt == 'yaml' and yaml_stdout_ends_in_keep_scalar(feed) and not self.sc.get('keep_region'):
                self.counts['excluded:K-C14-stdout-keep-scalar'] = self.counts.get('excluded:K-C14-stdout-keep-scalar', 0) + 1
                via, feed = 'stdin', text1
        if via == 'file':
            a = ['pipeline', '-p', dst, 'import', '--file', f1] + (['--overwrite'] if ow else [])
            rc2, out2, err2 = self.sb.x(*a)
        else:
            a = [self.sb.xvc, 'pipeline', '-p', dst, 'import', '--format', fmt] + (['--overwrite'] if ow else [])
            rc2, out2, err2 = self.sb.run(a, input=feed.encode('utf-8'))
        existed = dst in names0
        if rc2 != 0:
            if not existed or ow:
                self.fail(f'import of the export of {src!r} as {dst!r} ({fmt}, {via}, overwrite={ow}) failed', rc=rc2, stderr=err2[-400:],
                          exported=text1[:1500])
            self.trace.append(('roundtrip', {'export1': text1, 'fmt': fmt, 'import_ok': False, 'export2': None, 'list': rows0})); return
        text2, x2, rows1 = self._after_import(src, dst, fmt, via, text1, x1, names0, snap0)
        self.trace.append(('roundtrip', {'export1': text1, 'fmt': fmt, 'import_ok': True, 'export2': text2, 'list': rows1}))

    def _after_import(self, src, dst, fmt, via, text1, x1, names0, snap0, watched=None):
        """the part of the oracle that follows an accepted import of `src`'s export as `dst`"""
        other = 'yaml' if fmt == 'json' else 'json'
        names1, rows1, _ = self.names()
        rc3, text2, err3, f2 = self.export(dst, fmt, to_file=True)
        x2 = self.export(dst, other)[1]
        snap1 = self.snapshot(names1 if watched is None else [n for n in watched if n in names1])
        # (1) identical except for the name, in the format that was imported and in the other one
        for f, t1, t2 in ((fmt, text1, text2), (other, x1, x2)):
            msg = same_modulo_name(f, t1, t2, src, dst)
            if msg:
                self.fail(f'export of {dst!r} differs from the export of {src!r} it was imported from ({f}; imported as {fmt} via {via}): {msg}',
                          first=(t1 or '')[:2000], second=(t2 or '')[:2000])
        # (2) the other pipelines
        if names1.count(dst) != 1 or sorted(n for n in names1 if n != dst) != sorted(n for n in names0 if n != dst):
            self.fail(f'pipeline list after importing {dst!r}: {names1}, before: {names0}')
        for n in (names0 if watched is None else watched):
            if n != dst and snap0.get(n) != snap1.get(n):
                self.fail(f'importing {dst!r} changed the export of pipeline {n!r}', before=(snap0.get(n) or '')[:1500], after=(snap1.get(n) or '')[:1500])
        return text2, x2, rows1

    # -- export --file onto a path with a history --------------------------------------------------------
    def xfile(self, src, dst, fmt, slot, pre):
        """`export --file P` where P (`slot`, kept between the ops of one scenario) is first brought into state `pre` (None: left as the
        earlier ops left it), then `import --file P` as `dst`.  Demanded: the bytes of P are the document `export` prints to stdout for
        the same pipeline (the independent reference: another code path, no file involved), the import succeeds, the export of `dst`
        equals that of `src` up to the name, nothing else changes.  A directory at P: refused, directory and pipelines untouched."""
        names0, rows0, list0 = self.names()
        if src not in names0 or dst in names0:          # preconditions of the probe (only unmet in shrunk scenarios)
            self.trace.append(('xfile', None)); return
        watched = [src] + [n for n in names0 if n != src][:3]     # "the others are untouched" is every round trip's business; here: the source + 3
        snap0 = self.snapshot(watched)
        rcd, outd, errd, _ = self.export(src, fmt)
        if rcd != 0 or outd is None or not outd.endswith('\n'):
            self.fail(f'export of pipeline {src!r} ({fmt}) to stdout failed', rc=rcd, stderr=errd[-400:])
            self.trace.append(('xfile', None)); return
        doc = outd[:-1]                                  # `output!` prints the document followed by one newline
        other = 'yaml' if fmt == 'json' else 'json'
        x1 = self.export(src, other)[1]
        path = os.path.join(self.sb.base, 'xf', slot)
        os.makedirs(os.path.dirname(path), exist_ok=True)
        if pre is not None:
            prepare_path(path, pre, doc, (x1 or '')[:-1], fmt)
        before = path_state(path)
        explicit = ['--format', fmt] if os.path.splitext(slot)[1].lstrip('.') != fmt else []
        rc, out, err = self.sb.x('pipeline', '-p', src, 'export', '--file', path, *explicit)
        after = path_state(path)
        rel = ('dir' if before[0] == 'dir' else 'absent' if before[1] is None else
               'longer' if len(before[1]) > len(doc.encode()) else 'equal' if len(before[1]) == len(doc.encode()) else 'shorter')
        for key in (f'export-path:{pre or "as-left"}:{fmt}', f'export-path-old:{rel}:{fmt}', f'export-path-kind:{before[0]}'):
            self.counts[key] = self.counts.get(key, 0) + 1
        if before[0] == 'dir':
            if rc == 0:
                self.fail(f'`export --file` onto a directory was accepted (rc 0) for pipeline {src!r}')
            if after != before:
                self.fail(f'the refused `export --file` onto a directory changed it', before=str(before)[:300], after=str(after)[:300])
            if self.names()[2] != list0:
                self.fail('the refused `export --file` onto a directory changed `pipeline list`')
            self.trace.append(('xfile', None)); return
        if rc != 0:
            if pre == 'readonly' and os.geteuid() != 0 and after == before:
                self.trace.append(('xfile', None)); return     # refused without damage (never as root)
            self.fail(f'`export --file` of pipeline {src!r} ({fmt}) onto a path that held: {pre or "what the previous export left"} failed', rc=rc, stderr=err[-400:])
            self.trace.append(('xfile', None)); return
        new = after[1]
        self.writes.append({'pre': pre or 'as-left', 'fmt': fmt, 'old': before[1], 'doc': doc.encode(), 'new': new, 'scenario': self.sc['id'], 'slot': slot})
        if new != doc.encode():
            nb, db = new or b'', doc.encode()
            k = next((i for i, (a, b) in enumerate(zip(nb, db)) if a != b), min(len(nb), len(db)))
            self.fail(f'the file written by `export --file` is not the document `export --format {fmt}` prints for the same pipeline {src!r} '
                      f'(the path held before: {pre or "the previous export to it"}, {len(before[1]) if before[1] is not None else "no"} bytes): '
                      f'file {len(nb)} bytes, document {len(db)} bytes, first difference at byte {k}',
                      file_from_there=nb[k:k + 600].decode('utf-8', 'backslashreplace'), document_from_there=db[k:k + 200].decode('utf-8', 'backslashreplace'))
        rc2, out2, err2 = self.sb.x('pipeline', '-p', dst, 'import', '--file', path, *explicit)
        if rc2 != 0:
            self.fail(f'import of the file `export --file` wrote for {src!r} as {dst!r} ({fmt}; the path held before: {pre or "the previous export to it"}) failed',
                      rc=rc2, stderr=err2[-400:], file=(new or b'')[:1500].decode('utf-8', 'backslashreplace'))
            self.trace.append(('xfile', {'export1': doc, 'fmt': fmt, 'import_ok': False, 'export2': None, 'list': rows0,
                                         'export1_json': x1 if fmt != 'json' else None, 'export2_json': None})); return
        text2, x2, rows1 = self._after_import(src, dst, fmt, f'file over {pre or "previous export"}', doc, x1, names0, snap0, watched)
        self.trace.append(('xfile', {'export1': doc, 'fmt': fmt, 'import_ok': True, 'export2': text2, 'list': rows1,
                                     'export1_json': x1 if fmt != 'json' else None, 'export2_json': x2 if fmt != 'json' else None}))

    def refuse(self, src, dst, fmt):
        names0, rows0, list0 = self.names()
        if src not in names0 or dst not in names0:
            self.trace.append(('refuse', None)); return
        snap0 = self.snapshot(names0)
        rc1, text1, err1, f1 = self.export(src, fmt, to_file=True)
        if rc1 != 0:
            self.fail(f'export of pipeline {src!r} ({fmt}) failed', rc=rc1, stderr=err1[-400:])
            self.trace.append(('refuse', None)); return
        rc2, out2, err2 = self.sb.x('pipeline', '-p', dst, 'import', '--file', f1)
        names1, rows1, list1 = self.names()
        snap1 = self.snapshot(names1)
        if rc2 == 0:
            self.fail(f'import over the existing pipeline {dst!r} without --overwrite was accepted (rc 0)')
        elif 'already' not in (out2 + err2):
            self.fail(f'import over the existing pipeline {dst!r} failed, but not with the "already found" refusal', stderr=(out2 + err2)[-400:])
        if list0 != list1:
            self.fail(f'refused import over {dst!r} changed `pipeline list`', before=list0, after=list1)
        for n in names0:
            if snap0.get(n) != snap1.get(n):
                self.fail(f'refused import over {dst!r} changed the export of pipeline {n!r}', before=(snap0.get(n) or '')[:1500],
                          after=(snap1.get(n) or '')[:1500])
        self.trace.append(('refuse', {'rc_ok': rc2 == 0, 'list': rows1}))


def same_modulo_name(fmt, t1, t2, src, dst):
    """None if the two export texts are identical except for the pipeline name, else a description."""
    if t1 is None or t2 is None:
        return 'an export failed'
    if fmt == 'json':
        try:
            j1, j2 = json.loads(t1), json.loads(t2)
        except ValueError as e:
            return f'export is not JSON: {e}'
        if j1.get('name') != src or j2.get('name') != dst:
            return f'names in the files are {j1.get("name")!r} / {j2.get("name")!r}, expected {src!r} / {dst!r}'
        j1['name'] = j2['name'] = ''
        if j1 != j2:
            return 'the JSON values differ: ' + first_diff(j1, j2)
        l1, l2 = t1.split('\n'), t2.split('\n')
        if len(l1) != len(l2) or any(a != b for i, (a, b) in enumerate(zip(l1, l2)) if i != 1):
            return 'the JSON texts differ outside the name line'
        return None
    # yaml: `version`, then the name (possibly quoted / multi-line), then `workdir:` at column 0
    def split(t):
        ls = t.split('\n')
        k = next((i for i, l in enumerate(ls) if l.startswith('workdir:')), None)
        return ls[:1], ls[1:k] if k else None, ls[k:] if k else None
    h1, n1, r1 = split(t1)
    h2, n2, r2 = split(t2)
    if n1 is None or n2 is None:
        return 'no `workdir:` line in the YAML export'
    if h1 != h2 or r1 != r2:
        i = next((i for i, (a, b) in enumerate(zip(r1, r2)) if a != b), min(len(r1), len(r2)))
        return f'the YAML texts differ outside the name at line {i}: {r1[i:i+1]} vs {r2[i:i+1]}'
    if not (n1 and n1[0].startswith('name:') and n2 and n2[0].startswith('name:')):
        return 'no `name:` line in the YAML export'
    return None


def first_diff(a, b, path='$'):
    if type(a) != type(b):
        return f'{path}: {a!r} vs {b!r}'
    if isinstance(a, dict):
        for k in sorted(set(a) | set(b)):
            if k not in a or k not in b:
                return f'{path}.{k}: only on one side'
            d = first_diff(a[k], b[k], f'{path}.{k}')
            if d: return d
        return ''
    if isinstance(a, list):
        if len(a) != len(b):
            return f'{path}: lengths {len(a)} vs {len(b)}'
        for i, (x, y) in enumerate(zip(a, b)):
            d = first_diff(x, y, f'{path}[{i}]')
            if d: return d
        return ''
    return '' if a == b else f'{path}: {a!r} vs {b!r}'


# ------------------------------------------------------------------------------------------------
# the model side: driver lines for a scenario, and canonicalisation of real exports

class Mirror:
    def __init__(self, sc, order):
        self.sc, self.order = sc, order
        self.tok = pc.Tokens()
        self.tok.fwd['default'] = 'default'       # the pipeline `xvc init` creates, `Repo.init` in the model
        deps = [d for op in sc['ops'] if op[0] == 'dep' for d in op[3]]
        outs = [o for op in sc['ops'] if op[0] == 'out' for o in op[3]]
        self.deps, self.outs = deps, outs
        self.drank = pc.ranks([d.ord_key(order) for d in deps])
        self.orank = pc.ranks([o.ord_key(order) for o in outs])

    def rank_d(self, d): return self.drank[d.ord_key(self.order)]
    def rank_o(self, o): return self.orank[o.ord_key(self.order)]

    def lines(self):
        """-> list of (driver line, index into the real trace or None)"""
        out, t = ['init'], self.tok.tok
        shuf = ['id', 'rev', 'rot']
        for i, op in enumerate(self.sc['ops']):
            k = op[0]
            if k == 'new': out.append(f'new {t(op[1])} {t(op[2]) if op[2] else "-"}')
            elif k == 'step': out.append(f'step {t(op[1])} {t(op[2])} {t(op[3])} {INV[op[4]]}')
            elif k == 'update': out.append(f'update {t(op[1])} {t(op[2])} {t(op[3]) if op[3] is not None else "-"} {INV[op[4]]}')
            elif k == 'dep':
                ds = sorted(op[3], key=lambda d: pc.Dep.BUILDER_ORDER.index(d.variant))
                out.append(f'dep {t(op[1])} {t(op[2])} ' + ','.join(str(self.rank_d(d)) for d in ds))
            elif k == 'out':
                os_ = sorted(op[3], key=lambda o: pc.Out.BUILDER_ORDER.index(o.variant))
                out.append(f'out {t(op[1])} {t(op[2])} ' + ','.join(str(self.rank_o(o)) for o in os_))
            elif k == 'rmstep':
                refs = sorted({self.rank_d(d) for d in self.deps if d.variant == 'Step' and d.prim['name'] == op[2]})
                out.append(f'rmstep {t(op[1])} {t(op[2])} ' + (','.join(map(str, refs)) if refs else '-'))
            elif k == 'delete': out.append(f'delete {t(op[1])}')
            elif k in ('run', 'write'): out.append('')
            elif k == 'roundtrip':
                out += [f'shuf {shuf[i % 3]}', f'export {t(op[1])}', f'import {t(op[2])} {1 if op[5] else 0}', f'shuf {shuf[(i + 1) % 3]}',
                        f'export {t(op[2])}', 'list']
            elif k == 'xfile':          # the file is the document (C14_export_file_is_the_document): a round trip; a directory: nothing happens
                out += [''] if op[5] == 'directory' else [f'shuf {shuf[i % 3]}', f'export {t(op[1])}', f'import {t(op[2])} 0', f'shuf {shuf[(i + 1) % 3]}',
                                                           f'export {t(op[2])}', 'list']
            elif k == 'refuse':
                out += [f'export {t(op[1])}', f'import {t(op[2])} 0', 'list']
            elif k == 'repeat':
                out += [f'shuf {shuf[(i + 2) % 3]}', f'export {t(op[1])}']
        return out

    def canon_export(self, text, fmt, strict):
        """real export text -> the driver's schema line (json only; yaml exports are compared through the oracle)"""
        if text is None:
            return 'err'
        try:
            j = json.loads(text)
        except ValueError:
            return 'unparsable'
        steps = []
        for s in j.get('steps', []):
            ds = []
            for dj in s['dependencies']:
                m = [d for d in self.deps if d.matches(dj)]
                if not m or (strict and dj != m[0].fresh_json(self.order)):
                    ds.append('?' + json.dumps(dj, ensure_ascii=False)[:200])
                else:
                    ds.append(str(self.rank_d(m[0])))
            os_ = []
            for oj in s['outputs']:
                m = [o for o in self.outs if o.fresh_json(self.order) == oj]
                os_.append(str(self.rank_o(m[0])) if m else '?' + json.dumps(oj, ensure_ascii=False)[:200])
            k = self.tok.known
            steps.append(f"{k(s['name']) or '?' + s['name']}|{k(s['command']) or '?' + s['command']}|{INV_JSON.get(s['invalidate'], '?')}|"
                         f"{','.join(ds) or '-'}|{','.join(os_) or '-'}")
        wd = j.get('workdir', '')
        return (f"v={j.get('version')} name={self.tok.known(j.get('name')) or '?'} wd={(self.tok.known(wd) or '?' + wd) if wd else '-'} "
                f"steps={';'.join(steps) or '-'}")

    def canon_list(self, rows):
        return '[' + ','.join(f"{self.tok.known(n) or '?' + n}:{(self.tok.known(w) or '?' + w) if w else '-'}"
                              for n, w in rows) + ']'

    def expected(self, real):
        """the real side rendered as driver answers, aligned with `lines()`"""
        out, ti, ran = ['ok'], 0, False
        tr = real.trace
        for i, op in enumerate(self.sc['ops']):
            k = op[0]
            ob = tr[ti] if ti < len(tr) else ('missing',)
            ti += 1
            if k in ('new', 'step', 'update', 'dep', 'out', 'rmstep'):
                out.append('ok' if ob[1] else 'err')
            elif k == 'delete':
                out.append('ok')          # the model deletes unconditionally; refusals (default / last pipeline) are not generated
            elif k == 'run':
                ran = True
                out.append('')
            elif k == 'write':
                out.append('')
            elif k == 'xfile' and op[5] == 'directory':
                out.append('')
            elif k in ('roundtrip', 'xfile'):
                o = ob[1]
                if o is None:
                    out += [None] * 6
                else:
                    # the json text of a yaml round trip is compared through the oracle; here: json only
                    e1 = self.canon_export(json_of(o, 'export1'), 'json', not ran)
                    e2 = self.canon_export(json_of(o, 'export2'), 'json', not ran) if o['import_ok'] else None
                    out += ['ok', e1, 'ok' if o['import_ok'] else 'err', 'ok', e2 if e2 is not None else None, self.canon_list(o['list'])]
            elif k == 'refuse':
                o = ob[1]
                out += [None, None, None] if o is None else [None, 'ok' if o['rc_ok'] else 'err', self.canon_list(o['list'])]
            elif k == 'repeat':
                o = ob[1]
                out += ['ok', self.canon_export(o['json'], 'json', not ran) if o and o['json'] is not None else None]
        return out


def json_of(o, key):
    return o.get(key + '_json') if o['fmt'] != 'json' else o.get(key)


def run_scenarios(chk, xvc, model, scs, order, base):
    def one(sc):
        t = time.time()
        r = RealJ(chk, xvc, sc, base).run()
        r.wall = time.time() - t
        r.sb.cleanup()
        return r
    reals = pc.pmap(one, scs)
    mirrors = [Mirror(sc, order) for sc in scs]
    lines = []
    for m in mirrors:
        lines += m.lines() + ['reset']
    if model:
        rc, ans, err = run_lines(model, ['schema'], lines)
        if rc != 0:
            chk.disagreement('schema', [], f'model driver rc={rc}', err[-500:], 'process failure')
            ans = []
    else:
        ans = None
    res, ai = [], 0
    for sc, r, m in zip(scs, reals, mirrors):
        n = len(m.lines())
        got = ans[ai:ai + n] if ans is not None else None
        ai += n + 1
        res.append((sc, r, m, got))
    return res


class RealJ(Real):
    """Real + keeps the JSON text of both exports of a round trip also when the imported format was yaml."""

    def roundtrip(self, src, dst, fmt, via, ow):
        j1 = self.export(src, 'json')[1] if fmt != 'json' else None
        super().roundtrip(src, dst, fmt, via, ow)
        k, o = self.trace[-1]
        if o is not None and fmt != 'json':
            o['export1_json'] = j1
            o['export2_json'] = self.export(dst, 'json')[1] if o['import_ok'] else None


def judge(chk, results):
    st = chk.tie['streams'].setdefault('schema', {'cases': 0, 'lines': 0, 'disagreements': 0, 'oracle_failures': 0, 'xvc_processes': 0})
    bad = []
    for sc, r, m, got in results:
        st['cases'] += 1
        st['xvc_processes'] += len(r.sb.log)
        chk.evaluations += 1
        exp = m.expected(r)
        st['lines'] += len(exp)
        for op in sc['ops']:
            chk.count('op:' + op[0])
            if op[0] == 'dep':
                for d in op[3]: chk.count('dep:' + d.variant)
            if op[0] == 'out':
                for o in op[3]: chk.count('out:' + o.variant)
            if op[0] == 'step': chk.count('when:' + str(op[4]))
            if op[0] == 'roundtrip': chk.count(f'roundtrip:{op[3]}:{op[4]}:{"overwrite" if op[5] else "new"}')
        WRITES.extend(r.writes)
        count_same_file(chk, sc)
        chk.count('scenario:' + ('run' if sc['runnable'] else 'static') + (':git' if sc['git'] else ''))
        chk.count('family:' + sc.get('family', 'pools'))
        cs.count_strings(chk, scenario_strings(sc))
        for k_, n_ in r.counts.items():
            chk.count(k_, n_)
        count_blank_roundtrips(chk, sc, r)
        for k, *o in r.trace:
            if k == 'run':
                chk.count('run:rc=%d' % o[0])
        rts = [o for k, *o in r.trace if k in ('roundtrip', 'xfile') and o[0] and o[0]['import_ok']]
        if rts and any(len(json.loads(json_of(o[0], 'export1') or '{"steps":[]}')['steps']) > 0 for o in rts):
            chk.nontrivial.add(hashlib.sha1(json.dumps([enc_op(o) for o in sc['ops']], sort_keys=True).encode()).hexdigest())
        if r.oracle:
            st['oracle_failures'] += 1
            bad.append(('oracle', sc, r.oracle))
        if got is not None:
            diffs = [(i, e, g) for i, (e, g) in enumerate(zip(exp, got)) if e is not None and e != g]
            if len(got) != len(exp):
                diffs.append((min(len(got), len(exp)), 'length %d' % len(exp), 'length %d' % len(got)))
            if diffs:
                st['disagreements'] += 1
                bad.append(('tie', sc, {'line': m.lines()[diffs[0][0]] if diffs[0][0] < len(m.lines()) else '', 'implementation': diffs[0][1],
                                        'model': diffs[0][2], 'tokens': m.tok.back[:40]}))
        if len(chk.samples) < 5 and rts and st['cases'] % 5 == 1:
            chk.samples.append({'ops': [enc_op(o) for o in sc['ops']][:12], 'model_lines': m.lines()[:16], 'model_answers': (got or [])[:16],
                                'implementation_as_answers': exp[:16]})
    return bad


def count_same_file(chk, sc):
    """distribution of the dimension "several dependencies of one step on one file": groups per kind and size, and per probe whether the
    probed pipeline has such a group and whether it was run before the probe (recorded state)"""
    groups = same_file_groups(sc)
    for v, n, equal in groups:
        chk.count(f'same-file:{v}:{"same-dependency-again" if equal else "differ-in-secondary-field"}:{min(n, 4)}{"+" if n > 4 else ""}')
    chk.count('scenario-with-same-file-group' if groups else 'scenario-without-same-file-group')
    if not groups:
        return
    ran, dep_after_run = False, False
    for op in sc['ops']:
        if op[0] == 'run': ran = True
        elif op[0] == 'dep' and ran: dep_after_run = True
        elif op[0] in ('roundtrip', 'repeat', 'xfile'):
            chk.count(f'same-file-probe:{op[0]}:{op[3] if op[0] != "repeat" else op[2]}:' +
                      ('dependency-added-after-run' if dep_after_run else 'after-run' if ran else 'before-run'))


def count_blank_roundtrips(chk, sc, r):
    """per accepted round trip: does the exported pipeline contain a string with a genuinely empty line (per field kind, format, channel)?"""
    rops = [op for op in sc['ops'] if op[0] == 'roundtrip']
    robs = [o for k, *o in r.trace if k == 'roundtrip']
    for op, o in zip(rops, robs):
        o = o[0]
        if not o or not o['import_ok']:
            continue
        try:
            doc = json.loads(json_of(o, 'export1'))
        except (TypeError, ValueError):
            continue
        kinds = sorted({k for k, x in cs.doc_strings(doc) if cs.has_blank(x)})
        chan = f'{op[3]}:{op[4]}'
        chk.count(f'roundtrip-strings:{chan}:' + ('with-blank-line' if kinds else 'no-blank-line'))
        for k in kinds:
            chk.count(f'blank-line:{k}:{chan}')


def judge_docs(chk, results):
    """document scenarios: oracle as for every round trip; plus `export(import(V)) = V` modulo name and list order (C14_import_export)"""
    st = chk.tie['streams'].setdefault('documents', {'cases': 0, 'xvc_processes': 0, 'inject_rejected': 0, 'inject_mismatch': 0, 'oracle_failures': 0})
    bad = []
    for sc, r, m, got in results:
        st['cases'] += 1
        st['xvc_processes'] += len(r.sb.log)
        chk.evaluations += 1
        chk.count('family:' + sc.get('family', 'document'))
        doc = sc['ops'][0][2]
        cs.count_strings(chk, cs.doc_strings(doc), 'docstr')
        for s_ in doc['steps']:
            for d in s_['dependencies']: chk.count('docdep:' + next(iter(d)))
            for o in s_['outputs']: chk.count('docout:' + next(iter(o)))
        for op in sc['ops']:
            chk.count('op:' + op[0])
            if op[0] == 'roundtrip': chk.count(f'roundtrip:{op[3]}:{op[4]}:{"overwrite" if op[5] else "new"}')
        for k_, n_ in r.counts.items():
            chk.count(k_, n_)
        WRITES.extend(r.writes)
        count_blank_roundtrips(chk, sc, r)
        inj = next((o for k, *o in r.trace if k == 'inject'), None)
        if inj is None or inj[0] != 0:
            st['inject_rejected'] += 1
            chk.count('inject:rejected')
            if len([n for n in chk.notes if n.startswith('inject rejected')]) < 3:
                chk.notes.append(f'inject rejected (generated document not accepted by `import`, scenario skipped): {(inj or [0, 0, ""])[2][-200:]!r}')
            continue
        try:
            same = cs.canon_doc(json.loads(inj[1])) == cs.canon_doc(doc)
        except (TypeError, ValueError):
            same = False
        if not same:
            st['inject_mismatch'] += 1
            bad.append(('inject', sc, {'implementation': (inj[1] or '')[:3000], 'model': json.dumps(cs.canon_doc(doc), ensure_ascii=False)[:3000]}))
        if any(o[0] and o[0]['import_ok'] for k, *o in r.trace if k == 'roundtrip'):
            chk.nontrivial.add(hashlib.sha1(json.dumps([enc_op(o) for o in sc['ops']], sort_keys=True).encode()).hexdigest())
        if r.oracle:
            st['oracle_failures'] += 1
            bad.append(('oracle', sc, r.oracle))
    return bad


def _doc_leaves(doc):
    """paths to the string leaves a shrink may simplify"""
    out = [('workdir',)] if doc.get('workdir') else []
    for i, s_ in enumerate(doc['steps']):
        out.append(('steps', i, 'command'))
        out.append(('steps', i, 'name'))
        for j, d in enumerate(s_['dependencies']):
            (v, b), = d.items()
            for f, x in b.items():
                if isinstance(x, str) and f not in ('format', 'url'):
                    out.append(('steps', i, 'dependencies', j, v, f))
                elif f == 'lines':
                    out += [('steps', i, 'dependencies', j, v, f, k) for k in range(len(x))]
        for j, o in enumerate(s_['outputs']):
            (v, b), = o.items()
            out.append(('steps', i, 'outputs', j, v, 'path'))
    return out


def _get(doc, path):
    for k in path:
        doc = doc[k]
    return doc


def _set(doc, path, val):
    doc = json.loads(json.dumps(doc))
    x = doc
    for k in path[:-1]:
        x = x[k]
    x[path[-1]] = val
    return doc


def doc_candidates(sc):
    """smaller variants of a document scenario, most drastic first"""
    ops = sc['ops']
    inj, rts = ops[0], ops[1:]
    doc = inj[2]
    out = []
    if len(rts) > 1:
        out += [[inj, rt] for rt in rts]
    D = lambda d: [('inject', inj[1], d)] + list(rts)        # noqa: E731
    steps = doc['steps']
    if len(steps) > 1:
        out += [D(dict(doc, steps=steps[:i] + steps[i + 1:])) for i in range(len(steps))]
    for i, s_ in enumerate(steps):
        for key in ('dependencies', 'outputs'):
            if len(s_[key]) > 0:
                out.append(D(_set(doc, ('steps', i, key), [])))
            if len(s_[key]) > 1:
                out += [D(_set(doc, ('steps', i, key), s_[key][:j] + s_[key][j + 1:])) for j in range(len(s_[key]))]
    for path in _doc_leaves(doc):
        x = _get(doc, path)
        cands = []
        if path[-1] == 'path' or path == ('workdir',):
            if x != 'p': cands.append('p')
        elif x not in ('', 'x'):
            cands += ['x']
        ls = x.split('\n')
        if len(ls) > 2:
            cands += ['\n'.join(ls[:k] + ls[k + 1:]) for k in range(len(ls))]
        elif len(x) > 3:
            cands += [x[:len(x) // 2], x[len(x) // 2:]]
        for ls_i, l in enumerate(ls):
            if len(l) > 1:
                cands.append('\n'.join(ls[:ls_i] + ['y'] + ls[ls_i + 1:]))
        seen = set()
        if path[-1] == 'name' and len(path) == 3:
            others = {s_['name'] for k_, s_ in enumerate(doc['steps']) if k_ != path[1]}
            cands = [c for c in cands if c != '' and c not in others]
        for c in cands:
            if c != x and c not in seen and (path[-1] != 'path' or cs.path_ok(c)):
                seen.add(c)
                out.append(D(_set(doc, path, c)))
    return out


def minimise_doc(chk, xvc, order, base, sc, fails_many, budget=80):
    """greedy parallel shrinking: evaluate a batch of candidates, take the first that still fails"""
    t0, rounds = time.time(), 0
    while time.time() - t0 < budget and rounds < 60:
        rounds += 1
        cands = doc_candidates(sc)
        hit = None
        for i in range(0, len(cands), 16):
            batch = cands[i:i + 16]
            res = fails_many([dict(sc, id=f'{sc["id"]}d{rounds}_{i + j}', ops=ops) for j, ops in enumerate(batch)])
            hit = next((ops for ops, f in zip(batch, res) if f), None)
            if hit is not None or time.time() - t0 > budget:
                break
        if hit is None:
            break
        sc = dict(sc, ops=hit)
    return sc


def signature(failure_texts, sc):
    """decidable facts about a failing scenario, for matching known findings"""
    ops = sc['ops']
    txt = ' '.join(failure_texts)
    sig = {'kind': 'other'}
    if 'export is not a function of the pipeline' in txt: sig['kind'] = 'export-not-a-function'
    elif 'without --overwrite was accepted' in txt: sig['kind'] = 'overwrite-not-refused'
    elif 'changed the export of pipeline' in txt: sig['kind'] = 'other-pipeline-changed'
    elif 'is not the document' in txt: sig['kind'] = 'export-file-is-not-the-document'
    elif 'onto a directory' in txt: sig['kind'] = 'export-onto-directory'
    elif 'differs from the export' in txt: sig['kind'] = 'roundtrip-differs'
    elif 'failed' in txt: sig['kind'] = 'command-failed'
    sig['formats'] = sorted({op[3] for op in ops if op[0] == 'roundtrip'} | {op[2] for op in ops if op[0] == 'repeat'})
    sig['channels'] = sorted({op[4] for op in ops if op[0] == 'roundtrip'})
    sig['after_run'] = any(op[0] == 'run' for op in ops)
    if any(op[0] == 'xfile' for op in ops):
        sig['export_path_states'] = sorted({op[5] or 'as-left' for op in ops if op[0] == 'xfile'})
    if sc.get('keep_region') and sig['kind'] == 'roundtrip-differs' and sig['formats'] == ['yaml'] and sig['channels'] == ['pipe']:
        sig['region'] = 'yaml-stdout-ends-in-keep-scalar'
    return sig


def minimise(chk, xvc, order, base, sc, kind, want):
    """parallel delta debugging over the op list: drop chunks of ops while the scenario still fails the same way
    (`want`: the signature kind of the oracle failure, or the first word of the disagreeing driver line)"""
    t0 = time.time()

    def fails_many(cands):
        scs = [dict(sc, id=f'{sc["id"]}m{i}', ops=ops) for i, ops in enumerate(cands)]
        try:
            res = run_scenarios(chk, xvc, MODEL[0] if kind == 'tie' else None, scs, order, base)
        except Exception:
            return [False] * len(cands)
        out = []
        for sc_, r, m, got in res:
            if kind == 'oracle':
                out.append(bool(r.oracle) and signature([f['what'] for f in r.oracle], sc_)['kind'] == want)
            else:
                exp, ls = m.expected(r), m.lines()
                out.append(got is not None and any(e is not None and e != g and ls[i].split(' ')[0] == want
                                                   for i, (e, g) in enumerate(zip(exp, got))))
        return out
    ops, n, rounds = list(sc['ops']), 2, 0
    while len(ops) >= 2 and rounds < 10 and time.time() - t0 < 90:
        rounds += 1
        chunk = -(-len(ops) // n)
        cands = [ops[:i] + ops[i + chunk:] for i in range(0, len(ops), chunk)]
        cands = [c for c in cands if c]
        res = fails_many(cands)
        hit = next((c for c, f in zip(cands, res) if f), None)
        if hit is not None:
            ops, n = hit, max(n - 1, 2)
        elif chunk == 1:
            break
        else:
            n = min(len(ops), n * 2)
    # second phase: single dependencies / outputs out of the `dep` / `out` commands that are left (all candidates of a round in parallel;
    # a failure that needs luck - HashMap order - may survive a round by chance, hence the candidates are tried twice)
    rounds = 0
    while rounds < 12 and time.time() - t0 < 150:
        rounds += 1
        cands = [ops[:i] + [op[:3] + (op[3][:j] + op[3][j + 1:],)] + ops[i + 1:] for i, op in enumerate(ops) if op[0] in ('dep', 'out') and len(op[3]) > 1
                 for j in range(len(op[3]))]
        if not cands:
            break
        res = fails_many(cands)
        hit = next((c for c, f in zip(cands, res) if f), None)
        if hit is None:
            res = fails_many(cands)
            hit = next((c for c, f in zip(cands, res) if f), None)
        if hit is None:
            break
        ops = hit
    return dict(sc, ops=ops)


MODEL = [None]
WRITES = []          # `export --file` observations of the current run (stream export-file)
PROPOSED_FINDINGS = os.path.join(VERIF, 'lib', 'c14_known_findings.json')


def corpus_nonfinite(chk, xvc, base):
    """K-C14-toml-nonfinite: a TOML parameter `inf`/`nan` recorded by a successful run is written to the dependency store as
    JSON `null` (serde_json has no non-finite numbers) which cannot be read back: export (and every other command that
    loads the dependency store) panics.  Kept out of the generated stream, judged here by the oracle alone."""
    sb = Sandbox(base, 'corpus_nonfinite', xvc)
    sb.init(git=False)
    sb.write('w.toml', 'lr = inf\n')
    case = ['write w.toml "lr = inf"', 'pipeline -p p new', 'pipeline -p p step new -s s -c true', 'pipeline -p p step dependency -s s --param w.toml::lr',
            'pipeline -p p run', 'pipeline -p p export']
    sb.x('pipeline', '-p', 'p', 'new'); sb.x('pipeline', '-p', 'p', 'step', 'new', '-s', 's', '-c', 'true')
    sb.x('pipeline', '-p', 'p', 'step', 'dependency', '-s', 's', '--param', 'w.toml::lr')
    rc, out, err = sb.x('pipeline', '-p', 'p', 'run', timeout=40)
    rc2, out2, err2 = sb.x('pipeline', '-p', 'p', 'export')
    chk.evaluations += 1
    chk.count('corpus:toml-nonfinite')
    if rc == 0 and rc2 != 0:
        chk.oracle_failure('export of a pipeline fails after a successful run recorded a non-finite TOML parameter value', case,
                           {'run_rc': rc, 'export_rc': rc2, 'stderr': err2[-400:]},
                           signature={'kind': 'export-fails-after-run', 'param': 'toml-nonfinite-float'})
    sb.cleanup()


def corpus_scenarios():
    """fixed scenarios that run before the generated stream (same runner, same oracle, same tie)"""
    D, O = pc.Dep, pc.Out
    rts = lambda src, tag, combos: [('roundtrip', src, f'{tag}{i}', f, v, False) for i, (f, v) in enumerate(combos)]     # noqa: E731
    c = []
    # seeded C14-4, demo scenario 1 (YAML): export, remove the last step, export again to the same path, import that file
    demo = [('new', 'p', None), ('step', 'p', 'prepare', 'cat data.txt > prepared.txt', None), ('dep', 'p', 'prepare', [D('File', path='data.txt')]),
            ('out', 'p', 'prepare', [O('File', 'prepared.txt')]), ('step', 'p', 'train', 'echo training', 'always'), ('dep', 'p', 'train', [D('Step', name='prepare')])]
    c.append({'id': 'corpus-export-again-after-step-remove-yaml', 'runnable': False, 'git': False, 'family': 'corpus', 'ops': demo + [
        ('xfile', 'p', 'q0', 'yaml', 'p.yaml', 'absent'), ('rmstep', 'p', 'train'), ('xfile', 'p', 'q', 'yaml', 'p.yaml', None)]})
    # demo scenario 2 (JSON): the path holds the export of another, larger pipeline
    c.append({'id': 'corpus-export-over-a-larger-pipeline-json', 'runnable': False, 'git': False, 'family': 'corpus', 'ops': demo + [
        ('new', 'big', None)] + [('step', 'big', f's{i}', f'echo {i}', None) for i in (1, 2, 3)] + [
        ('xfile', 'big', 'r0', 'json', 'shared.json', 'absent'), ('xfile', 'p', 'r', 'json', 'shared.json', None)]})
    states = [x for x in PRE_STATES if x != 'readonly' or os.geteuid() == 0]      # without root a read-only file refuses the export
    # every state of the export path once, both formats; remove the first step / shorten a command between two exports to one path; YAML over JSON
    for fmt in ('yaml', 'json'):
        for k in range(0, len(states), 4):
            c.append({'id': f'corpus-export-path-states-{fmt}-{k // 4}', 'runnable': False, 'git': False, 'family': 'corpus', 'ops': demo + [
                ('xfile', 'p', f'{fmt[0]}{k + i}', fmt, f'st{k + i}.{fmt}', pre) for i, pre in enumerate(states[k:k + 4])]})
    c.append({'id': 'corpus-export-path-edits', 'runnable': False, 'git': False, 'family': 'corpus', 'ops': demo + [
        ('xfile', 'p', 'x0', 'json', 'x.txt', 'absent'), ('xfile', 'p', 'x1', 'yaml', 'x.txt', None), ('update', 'p', 'train', ':', None),
        ('xfile', 'p', 'x2', 'yaml', 'x.txt', None), ('rmstep', 'p', 'prepare'), ('xfile', 'p', 'x3', 'yaml', 'x.txt', None), ('xfile', 'p', 'x4', 'json', 'x.txt', None)]})
    # seeded C14-1, minimised: a step command and a generic command with an empty line (literal block scalar `|-` with a blank line)
    c.append({'id': 'corpus-blank-line-in-command', 'runnable': False, 'git': False, 'family': 'corpus', 'ops': [
        ('new', 'src', None), ('step', 'src', 'report', 'echo a\n\necho b', None),
        ('dep', 'src', 'report', [D('Generic', generic_command='date +%Y\n\nuname -s')])] + rts('src', 'c', RT_COMBOS)})
    # trailing blank line (`|+`), leading blank lines (`|2-`), whitespace-only line, only newlines, a query with a blank line, output paths
    c.append({'id': 'corpus-blank-lines-at-the-ends', 'runnable': False, 'git': False, 'family': 'corpus', 'ops': [
        ('new', 'src', None), ('step', 'src', 'keep', 'echo a\n\n', None), ('step', 'src', 'lead', '\n\necho b', 'always'),
        ('step', 'src', 'ws', 'echo a\n  \n\techo b \n', None), ('step', 'src', 'nl', '\n\n', 'never'), ('step', 'src', 'a\n\nb', '', None),
        ('dep', 'src', 'keep', [D('SqliteQueryDigest', path='db.sqlite', query='select a\n\nfrom t\n\n'), D('File', path='dir\n\nx/f\n'), D('Step', name='a\n\nb')]),
        ('out', 'src', 'keep', [O('File', 'o\n\nx'), O('Metric', 'm\n\n.json')]), ('out', 'src', 'a\n\nb', [O('Image', '\n\ni.png')])]
        + rts('src', 'e', RT_COMBOS[:3] + RT_COMBOS[3:4])})
    # seeded C14-5: one step watches several things in one file - three regex-items dependencies on one path (equal `Display` strings), and
    # the other kinds with a secondary field; exported repeatedly and round-tripped before and after a run, both formats
    many = [D('RegexItems', path='lines.txt', regex='^l1'), D('RegexItems', path='lines.txt', regex='^x'), D('RegexItems', path='lines.txt', regex='\\d+'),
            D('Regex', path='lines.txt', regex='^l'), D('Regex', path='lines.txt', regex='x$'), D('LineItems', path='lines.txt', begin=0, end=1),
            D('LineItems', path='lines.txt', begin=1, end=3), D('Lines', path='lines.txt', begin=0, end=1), D('Lines', path='lines.txt', begin=0, end=100),
            D('Param', path='params.yaml', key='k'), D('Param', path='params.yaml', key='f'), D('Generic', generic_command='echo gen'),
            D('Generic', generic_command='echo gen # again'), D('File', path='lines.txt')]
    c.append({'id': 'corpus-several-dependencies-on-one-file', 'runnable': True, 'git': False, 'family': 'corpus', 'ops': [
        ('new', 'src', None), ('step', 'src', 'watch', 'true', None), ('dep', 'src', 'watch', many),
        ('repeat', 'src', 'json', 4), ('repeat', 'src', 'yaml', 4), ('roundtrip', 'src', 'b0', 'json', 'file', False), ('roundtrip', 'src', 'b1', 'yaml', 'stdin', False),
        ('run', 'src'),
        ('repeat', 'src', 'yaml', 4), ('repeat', 'src', 'json', 4), ('roundtrip', 'src', 'a0', 'yaml', 'file', False), ('roundtrip', 'src', 'a1', 'json', 'pipe', False),
        ('dep', 'src', 'watch', [D('File', path='lines.txt'), D('RegexItems', path='lines.txt', regex='^l1')]),       # again, without recorded state
        ('repeat', 'src', 'json', 4), ('roundtrip', 'src', 'a2', 'yaml', 'file', False)]})
    return c


def corpus_doc_scenarios(order):
    meta = {'file_type': 'File', 'modified': {'nanos_since_epoch': 1, 'secs_since_epoch': 1790420429}, 'size': 6}
    dig = {'algorithm': 'Blake3', 'digest': list(range(32))}
    doc = {'version': 1, 'name': 'src', 'workdir': '', 'steps': [
        {'name': 'a\n\nb', 'command': 'echo a\n\necho b\n\n', 'invalidate': 'Always', 'dependencies': [
            {'LineItems': {'path': 'l.txt', 'begin': 0, 'end': 9, 'xvc_metadata': meta, 'lines': ['', '  ', 'x', 'a\n\nb', '\n', 'true', '~', ' # c', 'k: v ']}},
            {'RegexItems': {'path': 'l.txt', 'regex': '^a\n\nb$', 'lines': ['', '', '- x', '\n\n'], 'xvc_metadata': None}},
            {'Param': {'format': 'YAML', 'path': 'p.yaml', 'key': 'k\n\nk', 'value': {'Yaml': 'l1\n\nl2\n\n'}, 'xvc_metadata': meta}},
            {'Param': {'format': 'JSON', 'path': 'p.json', 'key': 'j', 'value': {'Json': {'m': ['\n\n', 'a\n\nb']}}, 'xvc_metadata': None}},
            {'GlobItems': {'glob': 'g/*', 'xvc_path_metadata_map': {'g/k\n\ny': meta, 'g/z\n\n': meta}, 'xvc_path_content_digest_map': {'g/k\n\ny': dig}}},
            {'UrlDigest': {'url': 'https://example.com/x', 'etag': 'W/"x"\n\n', 'last_modified': '\n\nMon', 'url_content_digest': dig}},
            {'Generic': {'generic_command': '\n\n', 'output_digest': dig}}],
         'outputs': [{'File': {'path': 'o\n\n/p'}}]},
        {'name': 'z', 'command': '', 'invalidate': 'Never', 'dependencies': [{'Step': {'name': 'a\n\nb'}}], 'outputs': []}]}
    # keep only the fields this source tree declares, in its order (a new field is a translator failure elsewhere)
    for s_ in doc['steps']:
        for d in s_['dependencies']:
            (v, b), = d.items()
            d[v] = {f: b.get(f) for f in order['dep_fields'][v]}
    return [{'id': 'corpus-document-blank-lines', 'runnable': False, 'git': False, 'family': 'corpus-document',
             'ops': [('inject', 'src', doc)] + [('roundtrip', 'src', f'd{i}', f, v, False) for i, (f, v) in enumerate(RT_COMBOS[:4])]}]


def corpus_stdout_keep(chk, xvc, base):
    """proposed known finding K-C14-stdout-keep-scalar: `xvc pipeline export --format yaml | xvc pipeline import --format yaml` when the last
    node of the document is a `|+` block scalar (a File/Image output path of the last step that ends with two newlines): `output!` prints the
    document followed by a newline, which becomes part of that scalar.  The generated stream leaves exactly this region out
    (`yaml_stdout_ends_in_keep_scalar`); it is judged here."""
    sc = {'id': 'corpus-stdout-keep-scalar', 'runnable': False, 'git': False, 'keep_region': True, 'family': 'corpus', 'ops': [
        ('new', 'src', None), ('step', 'src', 's', 'true', None), ('out', 'src', 's', [pc.Out('File', 'o\n\n')]),
        ('roundtrip', 'src', 'k0', 'yaml', 'pipe', False)]}
    r = RealJ(chk, xvc, sc, base).run()
    r.sb.cleanup()
    chk.evaluations += 1
    chk.count('corpus:stdout-keep-scalar')
    if r.oracle:
        case = {'id': sc['id'], 'runnable': False, 'git': False, 'keep_region': True, 'ops': [enc_op(o) for o in sc['ops']]}
        chk.oracle_failure(r.oracle[0]['what'], case, {'all': r.oracle[:2]}, signature=signature([f['what'] for f in r.oracle], sc))


# ------------------------------------------------------------------------------------------------
# the reader correspondence: document texts -> (model reader | real reader behind the parser)

YAML_HEAD = 'version: 1\nname: x\nworkdir: ""\nsteps:\n- name: s\n  invalidate: ByDependencies\n  dependencies: []\n  outputs: []\n  command: '
READER_CORPUS = [   # the witnesses of the C14_reader_*_counterexample theorems, as documents
    ('cr-cr-lf', 'yaml', (YAML_HEAD + '|-\n    echo a\r\r\n    echo b\n').encode()),
    ('no-final-newline-clip', 'yaml', (YAML_HEAD + '|\n    echo a').encode()),
    ('unreadable-comment-line', 'yaml', (YAML_HEAD + '|-\n    echo a\n').encode() + b'# \xff\xfe comment\n'),
    ('unreadable-line-in-block', 'yaml', (YAML_HEAD + '|-\n    echo a\n').encode() + b'    \xff\n    echo c\n'),
    ('keep-scalar-at-end', 'yaml', (YAML_HEAD + '|+\n    echo a\n\n\n').encode()),
    ('crlf-document', 'yaml', (YAML_HEAD + '|-\n    echo a\n\n    echo b\n').replace('\n', '\r\n').encode()),
    ('lone-cr-at-end', 'yaml', (YAML_HEAD + '|-\n    echo a\r').encode()),
    ('json-unreadable-line', 'json', b'{"version": 1, "name": "x", "workdir": "",\n\xff\xfe\n "steps": []}'),
    ('json-crlf', 'json', b'{"version": 1,\r\n "name": "x",\r\n "workdir": "", "steps": []}\r\n'),
    ('empty-input', 'json', b''),
]


def reader_variants(rng, doc):
    """document texts for one schema value: (variant, format, channel, bytes, clean text or None)"""
    out = []
    ty = cs.emit_yaml(doc, rng)
    tj = cs.emit_json(doc, rng)
    out.append(('clean', 'yaml', 'file', ty.encode(), ty))
    out.append(('clean', 'yaml', 'stdin', ty.encode(), ty))
    out.append(('clean', 'json', rng.choice(['file', 'stdin']), tj.encode(), tj))
    v = rng.choice(['crlf', 'crlf', 'no-final-newline', 'unreadable-line', 'unreadable-line'])
    if v == 'crlf':          # a document saved with Windows line ends
        f, t = rng.choice([('yaml', ty), ('yaml', ty), ('json', tj)])
        out.append((v, f, rng.choice(['stdin', 'stdin', 'file']), t.replace('\n', '\r\n').encode(), t))
    elif v == 'no-final-newline':
        f, t = rng.choice([('yaml', ty), ('json', tj)])
        out.append((v, f, rng.choice(['stdin', 'file']), t.rstrip('\n').encode(), t))
    else:                    # a line that is not valid UTF-8: a YAML comment / between two JSON tokens
        if rng.random() < 0.6:
            out.append((v, 'yaml', rng.choice(['stdin', 'stdin', 'file']), b'# \xe9t\xe9 \xff\n' + ty.encode(), ty))
        else:
            tj2 = json.dumps(doc, indent=1, ensure_ascii=True)
            i = tj2.index('\n') + 1
            out.append((v, 'json', rng.choice(['stdin', 'stdin', 'file']), tj2[:i].encode() + b' \xc3\x28\n' + tj2[i:].encode(), tj2))
    return out


class ReaderCase:
    def __init__(self, cid, variant, fmt, chan, data, clean, doc):
        self.cid, self.variant, self.fmt, self.chan, self.data, self.clean, self.doc = cid, variant, fmt, chan, data, clean, doc
        self.model = None        # the string the model hands to the parser (None: the read fails)

    def enc(self):
        return {'id': self.cid, 'variant': self.variant, 'format': self.fmt, 'channel': self.chan, 'text': self.data.decode('utf-8', 'backslashreplace'),
                'bytes_hex': self.data.hex(), 'doc': self.doc}


def reader_import(sb, name, fmt, chan, data, nfile):
    """the real reader behind the parser: import `data`, return (accepted, canonical schema value of what was imported)"""
    if chan == 'file':
        f = os.path.join(sb.base, f'r{nfile}.{fmt}')
        with open(f, 'wb') as h:
            h.write(data)
        rc, out, err = sb.x('pipeline', '-p', name, 'import', '--file', f, timeout=30)
    else:
        rc, out, err = sb.run([sb.xvc, 'pipeline', '-p', name, 'import', '--format', fmt], input=data, timeout=30)
    if rc != 0:
        return False, err[-200:]
    j = sb.x('pipeline', '-p', name, 'export', '--format', 'json')[1]
    try:
        return True, cs.canon_doc(json.loads(j))
    except ValueError:
        return True, {'unparsable export': j[:200]}


def reader_eval(xvc, base, cases, tag):
    """run the cases of one sandbox; -> list of (case, implementation, expected, how) that disagree, and counters"""
    sb = Sandbox(base, f'reader{tag}', xvc)
    sb.init(git=False)
    bad, n = [], 0
    for i, c in enumerate(cases):
        n += 1
        ok, got = reader_import(sb, f'r{i}', c.fmt, c.chan, c.data, i)
        if c.model is None:
            if ok:
                bad.append((c, {'accepted': True, 'imported': got}, 'the read fails, nothing is imported', 'reject'))
            continue
        anchored = c.clean is not None and c.model in (c.clean, c.clean + '\n')
        if anchored:            # the parser receives the clean text (up to a final newline): the value it was emitted from
            exp, how = cs.canon_doc(c.doc), 'value the text was emitted from'
        else:                   # otherwise: whatever the parser makes of the model's string, handed over verbatim through --file
            ok2, exp = reader_import(sb, f'm{i}', c.fmt, 'file', c.model.encode('utf-8'), f'{i}m')
            how = 'import --file of the string the model hands to the parser'
            if not ok2:
                exp = 'rejected'
        imp = got if ok else 'rejected'
        if imp != exp:
            bad.append((c, imp, exp, how))
    nproc = len(sb.log)
    sb.cleanup()
    return bad, n, nproc


def reader_stream(chk, xvc, model, rinfo, docs, base, shrinkable=True):
    """the same document texts to the model reader (`pipedata reader`) and to the real one (behind the real parser)"""
    st = chk.tie['streams'].setdefault('reader', {'cases': 0, 'lines': 0, 'disagreements': 0, 'xvc_processes': 0, 'anchored': 0, 'metamorphic': 0,
                                                   'model_rejects': 0})
    groups = []
    for gi, doc in enumerate(docs):
        groups.append([ReaderCase(f'g{gi}v{vi}', v, f, ch, data, clean, doc) for vi, (v, f, ch, data, clean) in enumerate(reader_variants(chk.rng, doc))])
    corpus = [ReaderCase(f'corpus-{n}-{ch}', n, f, ch, data, None, None) for n, f, data in READER_CORPUS for ch in ('stdin', 'file')]
    groups.append(corpus)
    allc = [c for g in groups for c in g]
    lines = [f"{rinfo[c.chan]} {cs.to_stream(c.data)}" for c in allc]
    rc, ans, err = run_lines(model, ['reader'], lines)
    if rc != 0 or len(ans) != len(lines):
        chk.disagreement('reader', [], f'model driver rc={rc}, {len(ans)} answers for {len(lines)} requests', err[-500:], 'process failure')
        return
    for c, a in zip(allc, ans):
        c.model = cs.from_stream(a)
        st['lines'] += 1
        chk.count(f'reader:{c.variant}:{c.fmt}:{c.chan}')
        if c.model is None: st['model_rejects'] += 1
        elif c.clean is not None and c.model in (c.clean, c.clean + '\n'): st['anchored'] += 1
        else: st['metamorphic'] += 1
        if c.doc is not None and any(cs.has_blank(x) for k, x in cs.doc_strings(c.doc)):
            chk.count(f'reader-doc-with-blank-line:{c.fmt}:{c.chan}')
    res = pc.pmap(lambda g: reader_eval(xvc, base, g[1], g[0]), list(enumerate(groups)))
    first = None
    for bad, n, nproc in res:
        st['cases'] += n
        chk.evaluations += n
        st['xvc_processes'] += nproc
        st['disagreements'] += len(bad)
        if bad and first is None:
            first = bad[0]
    if first is None:
        return
    c, imp, exp, how = first
    if shrinkable and c.doc is not None and c.variant == 'clean':
        c, imp, exp, how = shrink_reader_case(chk, xvc, model, rinfo, base, c, (imp, exp, how))
    chk.disagreement('reader', c.enc(), imp, {'string handed to the parser': c.model, 'expected import': exp, 'expectation from': how},
                     f'channel {c.chan} ({rinfo[c.chan]} in the model), variant {c.variant}')


def shrink_reader_case(chk, xvc, model, rinfo, base, c, info):
    """smaller schema value whose emitted text still disagrees (block scalars forced, so the text keeps its line structure)"""
    import random
    t0, rounds, cur = time.time(), 0, c.doc
    while time.time() - t0 < 45 and rounds < 40:
        rounds += 1
        sc = {'id': 'r', 'ops': [('inject', 'x', cur)]}
        cands = [ops[0][2] for ops in doc_candidates(sc)][:48]
        cases = []
        for i, d in enumerate(cands):
            t = cs.emit_yaml(d, random.Random(i), block=1.0) if c.fmt == 'yaml' else json.dumps(d, indent=1)
            cases.append(ReaderCase(f'{c.cid}s{rounds}_{i}', 'clean', c.fmt, c.chan, t.encode(), t, d))
        if not cases:
            break
        rc, ans, err = run_lines(model, ['reader'], [f"{rinfo[x.chan]} {cs.to_stream(x.data)}" for x in cases])
        if rc != 0 or len(ans) != len(cases):
            break
        for x, a in zip(cases, ans):
            x.model = cs.from_stream(a)
        chunks = [cases[i::8] for i in range(8) if cases[i::8]]
        res = pc.pmap(lambda g: reader_eval(xvc, base, g[1], f's{rounds}_{g[0]}'), list(enumerate(chunks)))
        hits = [b for bad, n, nproc in res for b in bad]
        if not hits:
            break
        hits.sort(key=lambda b: len(b[0].data))
        c, info = hits[0][0], hits[0][1:]
        cur = c.doc
    return (c,) + tuple(info)


# ------------------------------------------------------------------------------------------------
# the export-file correspondence: (what the path held, the document) -> what the path holds afterwards

OPEN_RE = re.compile(r'\b(openat|open|creat)\((?:AT_FDCWD(?:<[^>]*>)?, )?"([^"]*)"(?:, ([A-Z_|0-9a-z]+))?')


def observe_export_open(chk, xvc, base):
    """one traced `xvc pipeline export --file P` over an existing longer file: with which flags is P opened, is it truncated otherwise?
    -> {'create': bool, 'truncate': bool, 'calls': [...]} or None when strace is not usable"""
    if not shutil.which('strace'):
        return None
    sb = Sandbox(base, 'openflags', xvc)
    try:
        if sb.init(git=False)[0] != 0:
            return None
        target = os.path.join(sb.base, 'traced-export.yaml')
        with open(target, 'w') as h:
            h.write('# an older, longer file\n' * 40)
        tr = os.path.join(sb.base, 'trace.txt')
        rc, out, err = sb.run(['strace', '-f', '-o', tr, '-e', 'trace=openat,open,creat,truncate,ftruncate', sb.xvc, 'pipeline', 'export', '--file', target])
        if rc != 0 or not os.path.exists(tr):
            return None
        calls, flags, trunc_call = [], set(), False
        for line in open(tr, errors='replace'):
            if 'traced-export.yaml' in line:
                m = OPEN_RE.search(line)
                if m:
                    f = set((m.group(3) or '').split('|')) | ({'O_WRONLY', 'O_CREAT', 'O_TRUNC'} if m.group(1) == 'creat' else set())
                    if f & {'O_WRONLY', 'O_RDWR'}:
                        flags |= f
                        calls.append(f'{m.group(1)}(.., {"|".join(sorted(f - {"O_CLOEXEC"}))})')
                elif re.search(r'\btruncate\(', line):
                    trunc_call = True; calls.append('truncate(..)')
            elif re.search(r'\bftruncate\(', line) and calls:
                calls.append('ftruncate(..)?')
        if not calls:
            return None
        return {'create': 'O_CREAT' in flags, 'truncate': 'O_TRUNC' in flags or trunc_call, 'calls': calls[:6]}
    finally:
        sb.cleanup()


def bytes_tok(b):
    return 'A' if b is None else ('.'.join(map(str, b)) or '-')


def export_file_stream(chk, xvc, model, base, winfo):
    """every `export --file` of the run: the content the model of the code predicts (`ExportFile.writeFile old doc`, i.e. the document)
    and the content open(2)+write_all with the OBSERVED flags gives (`ExportFile.openWrite`) against the bytes found in the file"""
    st = chk.tie['streams'].setdefault('export-file', {'cases': 0, 'lines': 0, 'disagreements': 0, 'old_longer': 0, 'observed_open': None})
    obs = observe_export_open(chk, xvc, base)
    st['observed_open'] = obs
    if obs is None:
        chk.notes.append('strace is not usable here: the open(2) flags of `export --file` were not observed (the translator and the content comparison remain)')
    elif (obs['create'], obs['truncate']) != (True, True):
        st['disagreements'] += 1
        chk.disagreement('export-file', {'traced': 'xvc pipeline export --file <existing longer file>'}, obs,
                         {'create': True, 'truncate': True, 'model': 'ExportFile.fsWrite (std::fs::write)'},
                         'the flags the export path is opened with are not those of fs::write, which ExportFile.writeFile assumes')
    if not WRITES:
        return
    lines = []
    for w in WRITES:
        lines.append(f"code {bytes_tok(w['old'])} {bytes_tok(w['doc'])}")
        if obs:
            lines.append(f"{int(obs['create'])} {int(obs['truncate'])} {bytes_tok(w['old'])} {bytes_tok(w['doc'])}")
    rc, ans, err = run_lines(model, ['writefile'], lines)
    if rc != 0 or len(ans) != len(lines):
        chk.disagreement('export-file', [], f'model driver rc={rc}, {len(ans)} answers for {len(lines)} requests', err[-500:], 'process failure')
        return
    per = 2 if obs else 1
    worst = None
    for i, w in enumerate(WRITES):
        st['cases'] += 1
        st['lines'] += per
        if w['old'] is not None and len(w['old']) > len(w['doc']):
            st['old_longer'] += 1
        real = bytes_tok(w['new'])
        for j in range(per):
            if ans[i * per + j] != real:
                st['disagreements'] += 1
                cand = (len(w['doc']) + len(w['old'] or b''), j, w, ans[i * per + j])
                if worst is None or cand[:2] < worst[:2]:
                    worst = cand
                break
    if worst:
        _, j, w, a = worst
        dec = lambda t: None if t in ('A', 'enoent') else bytes(int(x) for x in t.split('.')).decode('utf-8', 'backslashreplace') if t != '-' else ''   # noqa: E731
        chk.disagreement('export-file', {'scenario': w['scenario'], 'slot': w['slot'], 'format': w['fmt'], 'path_held_before': w['pre'],
                                          'old_content': None if w['old'] is None else w['old'].decode('utf-8', 'backslashreplace')[:3000],
                                          'document': w['doc'].decode('utf-8', 'backslashreplace')[:3000]},
                         (w['new'] or b'').decode('utf-8', 'backslashreplace')[:3000], (dec(a) or '')[:3000],
                         'model of the code: the file is the document (C14_export_file_is_the_document)' if j == 0 else
                         'model of open+write_all with the observed flags (ExportFile.openWrite)')


def run(chk: Check):
    quick = chk.tier == 'quick'
    # (O) the orderings cmd_export applies to steps / dependencies / outputs -> Gen/ExportOrder.lean, BEFORE the package is built: the obligations
    # C14_export_dependency_order_canonical, C14_export_output_order_canonical, C14_export_order_as_modelled are stated over that table
    try:
        oinfo = cs.extract_export_order(REPO)
        oinfo['gen_file_rewritten'] = cs.write_export_order(oinfo)
    except cs.ReaderTieBroken as e:
        chk.proof['broken'].append({'stage': 'translator', 'errors': [str(e)]})
        oinfo = None
    chk.extra['export_order'] = oinfo
    if oinfo and any(oinfo[k] != 'derivedOrd' for k in ('steps', 'dependencies', 'outputs')):
        chk.notes.append('export.rs orders ' + ', '.join(f'{k} by {oinfo[k]} (`{oinfo["source"][k]}`)' for k in ('steps', 'dependencies', 'outputs') if oinfo[k] != 'derivedOrd') +
                         ': not the derived total order the model transcribes; see C14_export_order_as_modelled / C14_export_dependency_order_canonical and, for a '
                         'sort by the Display string, C14_sort_by_display_counterexample (fields the Display string of each dependency kind shows: ' +
                         json.dumps(oinfo.get('display', {}), sort_keys=True) + ')')
    model = chk.lean('XvcPipeData', 'XvcPipeData.Props.C14', exe='pipedata',
                     extra_modules=['XvcPipeData.Schema', 'XvcPipeData.SchemaLemmas', 'XvcPipeData.SchemaReach', 'XvcPipeData.Reader',
                                    'XvcPipeData.ReaderLemmas', 'XvcPipeData.ExportFile', 'XvcPipeData.ExportOrder', 'XvcPipeData.Gen.ExportOrder'])
    MODEL[0] = model if model and os.path.exists(model) else None
    xvc = chk.build_xvc()
    chk.trusted_base += [
        'lib/pipe_common.py: anchored reader of enum-variant / struct-field declaration order (the derive(Ord) the model abstracts as `TotalOrd`) and the rank it computes for each dependency',
        'lib/c14.py: scenario generator, canonicaliser of `xvc pipeline export` JSON into the driver\'s schema line, raw-text comparison modulo the name line',
        'lib/c14_strings.py: extract_export_order - anchored reader of the expressions that fill `dependencies:` / `outputs:` of XvcStepSchema and of the `for (e, s) in steps.iter()…` loop in export.rs; `.sorted()` is read as the derived Ord, `.sorted_by[_cached]_key(|d| d.to_string())` as a stable sort by the Display string, no sort as HashMap order, anything else is a broken tie',
        'lib/c14_strings.py: string / document generators, the independent JSON and YAML emitters of the reader stream (literal block scalars with explicit indentation indicator, double-quoted scalars), bytes <-> `Sym` stream (Python\'s UTF-8 decoder), anchored reader of cmd_import\'s input handling',
        'modelled, not verified: serde / serde_json / serde_yaml encoders and decoders applied to ONE string (exercised differentially only: level partial) - what xvc does to the document text before the parser is modelled (Reader.lean) and tied; derive(Ord) on XvcDependency/XvcOutput assumed a total order consistent with Eq; XvcEntity order = counter order (C08_gen_unique); HashMap iteration order = arbitrary permutation',
    ]
    chk.assumptions += [
        'entities of one repository are ordered by their counter and every key in use is below the counter (hypothesis GenFresh; C08)',
        'pipeline names are unique (hypothesis UniqueNames, an invariant of new/import/step commands: C14_reachable_invariants; `pipeline update --rename` onto an existing name is outside the property and not generated)',
        'pipeline names in the generated cases contain no newline; step names, commands, paths, globs, regexes, queries, parameter keys and values, recorded lines are arbitrary UTF-8 (NUL only in injected documents)',
        'reader theorems: the input is a sequence of well-formed UTF-8 scalars and ill-formed bytes, 0x0A is never part of either kind of multi-byte unit; I/O errors other than InvalidData are not modelled (observed: a persistent read error on stdin, e.g. a directory, makes the `input.lines()` loop spin forever)',
        'export --file: the path holds a regular file or nothing (ExportFile.writeFile); a symbolic link is followed, a directory refused by open(2) - both observed by the oracle, not modelled; write errors (ENOSPC, EIO) are outside the model',
        'every text `xvc pipeline export` writes is free of "\\r\\n" (both encoders escape CR; counted on every export of the run as export-text:*), YAML exports end with a newline',
    ]
    try:
        order = pc.extract_order(REPO)
    except pc.TieBroken as e:
        chk.proof['broken'].append({'stage': 'translator', 'errors': [str(e)]})
        order = None
    if order:
        chk.extra['extract'] = {'read': order['read'], 'dep_variants': order['dep_variants'], 'out_variants': order['out_variants'],
                                'export_sorts': order['export_sorts']}
        if not all(order['export_sorts'].values()):
            chk.proof['broken'].append({'stage': 'translator', 'errors': [f'export.rs no longer contains the sorts the model transcribes: {order["export_sorts"]}']})
    else:
        order = FALLBACK_ORDER
    try:
        rinfo = cs.extract_reader(REPO)
    except cs.ReaderTieBroken as e:
        chk.proof['broken'].append({'stage': 'translator', 'errors': [str(e)]})
        rinfo = {'file': 'file', 'stdin': 'stdin', 'read': {}}
    chk.extra['reader'] = rinfo
    try:
        winfo = cs.extract_export_write(REPO)
    except cs.ReaderTieBroken as e:
        chk.proof['broken'].append({'stage': 'translator', 'errors': [str(e)]})
        winfo = {'write': None, 'read': {}}
    chk.extra['export_write'] = winfo
    del WRITES[:]
    nstatic, nrun, ncli, nlines, ndoc, nreader, npath, nsame = (32, 20, 24, 8, 28, 24, 16, 12) if quick else (300, 160, 120, 40, 160, 120, 160, 120)
    chk.extra['rule'] = (f'corpus (seeded C14-4 demos: export again to the same path after `step remove`, export over the export of a larger pipeline, every path state once; seeded C14-1 minimised: blank line in a step / generic command; blank lines at the ends; a document with blank lines in every '
                         f'string field; stdout-keep-scalar; non-finite TOML) first; then {nstatic} generated repositories that are never run (1-3 pipelines incl. `default`, '
                         '0-4 steps each, names/commands/paths from pools with quotes, newlines, CR, tabs, non-ASCII, YAML-significant tokens; all 11 offline dependency '
                         f'kinds, 3 output kinds, 3 --when modes; step update / remove / re-create; refused commands) + {nrun} repositories whose pipelines are executed '
                         f'first (recorded metadata, digests, item maps, param values from yaml/json/toml, sqlite query digests) + {ncli} pipelines built on the command '
                         f'line with every string field from the structured string generator + {nlines} executed pipelines recording generated lines + {ndoc} repositories '
                         'brought into a generated state by importing a generated JSON document (all 12 dependency kinds with all fields, strings of arbitrary content in '
                         'every string field); in each 1-5 export->import->export round trips (json|yaml, --file|stdin|stdout-to-stdin pipe), refusal probes and '
                         f'--overwrite imports (also onto the exported pipeline itself), pipeline delete; reader stream: {nreader} generated values emitted as YAML / JSON '
                         f'texts (clean, CRLF, no final newline, a line that is not UTF-8) to the model reader and to the real import; {npath} export-path scenarios '
                         '(+ one probe in 40 % of the command-line-string and document scenarios): `export --file P` with P absent / empty / holding a shorter, equally long or '
                         'longer document (bigger pipeline, same pipeline before remove-last-step / remove-first-step / shortened command, the other format) / garbage / '
                         'read-only / a symbolic link (also dangling) / a directory, sequences export -> edit -> export to the SAME path -> import -> export; the bytes of P '
                         f'must be the document `export` prints to stdout; {nsame} same-file scenarios (+ sibling dependencies with probability 0.3 in the pool, command-line-string '
                         'families): steps with 2-4 dependencies of ONE kind on ONE file that differ only in the regex / line range / parameter key / argument of the '
                         'generic command, or the same dependency given again, in one `step dependency` command or two; `repeat` probes (the same pipeline exported 3-4 times by fresh '
                         'processes, to stdout and to a file: one document) and round trips in json and yaml before the run, after it, and after a dependency was added again '
                         'to a step with recorded state. Non-trivial: a scenario with an '
                         'accepted round trip of a pipeline that has steps; distinct by op list.')
    base = os.path.join(chk.scratch, 'repos')
    os.makedirs(base, exist_ok=True)
    pc.load_proposed(chk, PROPOSED_FINDINGS)
    # ---- corpus first
    corpus_nonfinite(chk, xvc, base)
    corpus_stdout_keep(chk, xvc, base)
    bad = judge(chk, run_scenarios(chk, xvc, MODEL[0], corpus_scenarios(), order, base))
    bad += judge_docs(chk, run_scenarios(chk, xvc, None, corpus_doc_scenarios(order), order, base))
    # ---- generated
    n0 = 0
    scs = [gen_scenario(chk.rng, n0 + i, False) for i in range(nstatic)]; n0 += nstatic
    scs += [gen_scenario(chk.rng, n0 + i, True) for i in range(nrun)]; n0 += nrun
    scs += [gen_cli_strings(chk.rng, n0 + i) for i in range(ncli)]; n0 += ncli
    scs += [gen_lines_run(chk.rng, n0 + i) for i in range(nlines)]; n0 += nlines
    scs += [gen_export_path(chk.rng, n0 + i) for i in range(npath)]; n0 += npath
    scs += [gen_same_file(chk.rng, n0 + i) for i in range(nsame)]; n0 += nsame
    docs = [gen_doc_scenario(chk.rng, n0 + i, order) for i in range(ndoc)]
    if not any(kind == 'oracle' for kind, *_ in bad):          # a failing INPUT in the corpus is the answer (the generated stream would only repeat it); a
        # corpus scenario on which only the model and the code disagree is not: the search for a failing input goes on
        for i in range(0, len(scs), 64):
            bad += judge(chk, run_scenarios(chk, xvc, MODEL[0], scs[i:i + 64], order, base))
        for i in range(0, len(docs), 64):
            bad += judge_docs(chk, run_scenarios(chk, xvc, None, docs[i:i + 64], order, base))
    if chk.distribution.get('export-text:yaml:no-final-newline') or any(k.endswith(':contains-crlf') for k in chk.distribution):
        chk.notes.append('an export text is outside the hypotheses of C14_reader_preserves_document (raw CRLF, or a YAML export without final newline): '
                         'the reader theorems no longer say that stdin hands it to the parser unchanged; see export-text:* in the distribution')
    if MODEL[0] is None:
        chk.notes.append('model driver did not build; only the implementation-side oracle ran')
    else:
        rdocs = [sc['ops'][0][2] for sc in docs[:nreader]]
        rdocs += [cs.gen_doc(chk.rng, order, 'x') for _ in range(nreader - len(rdocs))]
        reader_stream(chk, xvc, MODEL[0], rinfo, rdocs, base)
        export_file_stream(chk, xvc, MODEL[0], base, winfo)
    report(chk, xvc, order, base, bad)
    return chk.finish()


def report(chk, xvc, order, base, bad):
    """minimise and record at most one failure per (kind, signature kind)"""
    seen = set()
    for kind, sc, info in bad:
        want = signature([f['what'] for f in info], sc)['kind'] if kind == 'oracle' else ('inject' if kind == 'inject' else info['line'].split(' ')[0])
        key = (kind, want)
        if key in seen or len(seen) >= 4:
            continue
        seen.add(key)
        is_doc = sc['ops'] and sc['ops'][0][0] == 'inject'
        if is_doc:
            def fails_many(cands, kind=kind, want=want):
                try:
                    res = run_scenarios(chk, xvc, None, cands, order, base)
                except Exception:
                    return [False] * len(cands)
                out = []
                for sc_, r, m, got in res:
                    if kind == 'oracle':
                        out.append(bool(r.oracle) and signature([f['what'] for f in r.oracle], sc_)['kind'] == want)
                    else:
                        inj = next((o for k, *o in r.trace if k == 'inject'), None)
                        try:
                            out.append(inj is not None and inj[0] == 0 and cs.canon_doc(json.loads(inj[1])) != cs.canon_doc(sc_['ops'][0][2]))
                        except (TypeError, ValueError):
                            out.append(False)
                return out
            small = minimise_doc(chk, xvc, order, base, sc, fails_many)
        else:
            small = minimise(chk, xvc, order, base, sc, kind, want)
        res = run_scenarios(chk, xvc, MODEL[0] if kind == 'tie' else None, [small], order, base)[0]
        case = {'id': small['id'], 'runnable': small['runnable'], 'git': small['git'], 'ops': [enc_op(o) for o in small['ops']]}
        if small.get('keep_region'):
            case['keep_region'] = True
        if kind == 'oracle':
            fl = res[1].oracle or info
            chk.oracle_failure(fl[0]['what'], case, {'all': fl[:4]}, signature=signature([f['what'] for f in fl], small))
        elif kind == 'inject':
            inj = next((o for k, *o in res[1].trace if k == 'inject'), [None, None])
            chk.disagreement('inject', case, (inj[1] or '')[:3000], json.dumps(cs.canon_doc(small['ops'][0][2]), ensure_ascii=False)[:3000],
                             'minimised; exporting a freshly imported document does not give the document back (C14_import_export), modulo name and list order')
        else:
            exp = res[2].expected(res[1])
            d = next(((i, e, g) for i, (e, g) in enumerate(zip(exp, res[3] or [])) if e is not None and e != g), None)
            chk.disagreement('schema', case, d[1] if d else info['implementation'], d[2] if d else info['model'],
                             f"minimised; driver line: {res[2].lines()[d[0]] if d else info['line']}")


FALLBACK_ORDER = {'dep_variants': list(pc.DEP_STRUCTS), 'dep_fields': {k: v[2] for k, v in pc.DEP_STRUCTS.items()},
                  'out_variants': ['File', 'Metric', 'Image'], 'out_fields': {'File': ['path'], 'Metric': ['path', 'format'], 'Image': ['path']},
                  'metric_formats': ['Unknown', 'CSV', 'JSON', 'TSV'], 'param_formats': ['Unknown', 'YAML', 'JSON', 'TOML']}


def replay(chk: Check, data):
    xvc = chk.build_xvc()
    try:
        order = pc.extract_order(REPO)
    except pc.TieBroken:
        order = FALLBACK_ORDER
    base = os.path.join(chk.scratch, 'repos')
    os.makedirs(base, exist_ok=True)
    pc.load_proposed(chk, PROPOSED_FINDINGS)
    for f in data.get('failures', []):
        c = f['case']
        if isinstance(c, list):            # corpus case
            corpus_nonfinite(chk, xvc, base)
            continue
        sc = {'id': c['id'], 'runnable': c['runnable'], 'git': c['git'], 'ops': [dec_op(o) for o in c['ops']], 'keep_region': c.get('keep_region', False)}
        sc_, r, m, got = run_scenarios(chk, xvc, None, [sc], order, base)[0]
        chk.evaluations += 1
        print('ops:'); [print('  ', json.dumps(enc_op(o), ensure_ascii=False)[:2000]) for o in sc['ops']]
        print('oracle:', [x['what'] for x in r.oracle] or 'property holds on this input')
        if r.oracle:
            chk.oracle_failure(r.oracle[0]['what'], c, {'all': r.oracle[:4]}, signature=signature([x['what'] for x in r.oracle], sc))
    return chk.finish()
