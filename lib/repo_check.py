"""Shared driver of the repository-model properties (C01 C02 C03 C04 C05 C17 C19):
proof stage, correspondence with the Lean driver, and the model-independent oracles O1..O7."""
import os, shutil, subprocess, hashlib, json
import hashref
import repo_harness as rh
from repo_harness import Runner, Obs, ext_of, addr_parts, fp, gen_history, show_cmd, compare_step
from xvcbin import cache_rel

KIND_OF = {'copy': 'copy', 'reflink': 'copy', 'hardlink': 'hardlink', 'symlink': 'symlink'}


import functools


@functools.lru_cache(maxsize=8192)
def ref_digest(algo, b):
    """digest of `b` by the hashers that are independent of xvc (memoised: the same object is judged after every command)"""
    return hashref.digest(algo, b)


def read_through(obs, p):
    k = obs.ws.get(p)
    if not k:
        return None
    if k['kind'] == 'file':
        return k['bytes']
    if k['kind'] == 'symlink':
        o = obs.cache.get(k.get('addr')) if k.get('addr') else None
        return o['bytes'] if o and o['kind'] == 'file' else None
    return None


def rec_addr(rec, path, d=None):
    d = d or rec['cur']
    if d is None:
        return None
    hexd = ''.join(f'{b:02x}' for b in d['digest'])
    return cache_rel(d['algorithm'], hexd, ext_of(path))


def entry_kind(obs, p):
    k = obs.ws.get(p)
    if not k:
        return 'absent', None
    if k['kind'] == 'symlink':
        return 'symlink', k.get('addr')
    if k['kind'] == 'file':
        return ('hardlink', k['addr']) if k.get('addr') else ('copy' if k['writable'] else 'readonly-file', None)
    return k['kind'], None


def is_force(c):
    return bool(c.get('force'))


def gentle(c):
    return c['op'] not in ('remove', 'untrack') and not (c['op'] in ('track', 'carryin') and c.get('force'))


# ------------------------------------------------------------------------------------------------ oracles
# each oracle: f(steps, cfg, history) -> list of (message, signature dict)

def o1_content_addressed(steps, cfg, history):
    """C02: every object at the address of its own bytes (independent hashers), read-only, in a read-only directory,
    never altered by a gentle command."""
    out = []
    for st in steps:
        post = st['post']
        if post is None: continue
        for rel, o in post.cache.items():
            pfx, hexd, ext = addr_parts(rel)
            parts = rel.split('/')
            if not (len(parts) == 5 and parts[0] in ('b3', 'b2', 's2', 's3') and [len(x) for x in parts[1:4]] == [3, 3, 58]
                    and all(c in '0123456789abcdef' for x in parts[1:4] for c in x) and parts[4].startswith('0.')):
                out.append((f"step {st['i']} {show_cmd(st['cmd'])}: cache path {rel} is not <b3|b2|s2|s3>/<3 hex>/<3 hex>/<58 hex>/0.<ext>", {'kind': 'address-format'}))
                continue
            if o['kind'] != 'file':
                out.append((f"step {st['i']} {show_cmd(st['cmd'])}: cache object {rel} is a {o['kind']}, not a regular file", {'kind': 'object-is-symlink'}))
                continue
            algo = {v: k for k, v in hashref.PREFIX.items()}.get(pfx)
            ok = algo and hexd in (ref_digest(algo, o['bytes']), ref_digest(algo, hashref.strip_crlf(o['bytes'])))
            if not ok:
                out.append((f"step {st['i']} {show_cmd(st['cmd'])}: object {rel} does not hash to its address (neither raw nor CR/LF-stripped, {algo})", {'kind': 'address-mismatch'}))
            if o['mode'] & 0o222:
                out.append((f"step {st['i']} {show_cmd(st['cmd'])}: object {rel} is writable (mode {oct(o['mode'])})", {'kind': 'object-writable'}))
            if o['dirmode'] & 0o222:
                out.append((f"step {st['i']} {show_cmd(st['cmd'])}: directory of object {rel} is writable (mode {oct(o['dirmode'])})", {'kind': 'dir-writable'}))
        out += address_under_recorded_mode(st)
        pre = st['pre']
        if pre is not None and gentle(st['cmd']) and st['rc'] in (0, 1):
            for rel, o in pre.cache.items():
                n = post.cache.get(rel)
                if n is None:
                    out.append((f"step {st['i']} {show_cmd(st['cmd'])}: object {rel} was deleted by a command that is neither remove nor untrack nor --force", {'kind': 'object-deleted'}))
                elif n['bytes'] != o['bytes'] or n['ino'] != o['ino']:
                    out.append((f"step {st['i']} {show_cmd(st['cmd'])}: object {rel} was rewritten (bytes or inode changed)", {'kind': 'object-rewritten'}))
        elif pre is not None and st['cmd']['op'] in ('track', 'carryin') and st['cmd'].get('force'):
            # `--force` re-commits: it may replace an object by a new file with the same bytes, whatever its exit status;
            # it is no licence to take content out of the cache (C01/C04: only remove and untrack do that)
            for rel, o in pre.cache.items():
                n = post.cache.get(rel)
                if o['kind'] == 'file' and (n is None or n['bytes'] != o['bytes']) and o['bytes'] is not None:
                    out.append((f"step {st['i']} {show_cmd(st['cmd'])} (exit {st['rc']}): object {rel} is {'gone' if n is None else 'changed'} after a --force commit",
                                {'kind': 'object-lost-by-force', 'op': st['cmd']['op']}))
    return out


def mode_is_text(tob, b):
    """the documented choice: text / binary as recorded; auto = text iff there is no NUL among the first 8000 bytes"""
    return tob == 'text' or (tob == 'auto' and hashref.is_text(b))


def address_under_recorded_mode(st):
    """C02: "the cache path of an object is exactly the digest of its contents under the CONFIGURED algorithm and text-or-binary
    mode".  The mode configured for a path is the one on record for it (file-text-or-binary store, replayed independently).
    For the CURRENT version of every recorded path whose object is in the cache, after every command that ended normally: the
    recorded digest is the digest (independent hashers) of the object's bytes without CR/LF when the recorded mode says text
    (`text`, or `auto` and no NUL in the first 8000 bytes), of the raw bytes otherwise.  Not judged: paths without a recorded
    mode or version, objects that are absent, and addresses that recorded paths with DIFFERENT modes share (region of the
    open finding K1: contents that collide after CR/LF stripping)."""
    out = []
    post = st['post']
    if post is None or st['rc'] not in (0, 1):
        return out
    by_addr = {}
    for p, r in post.recs.items():
        if r.get('cur'):
            by_addr.setdefault(rec_addr(r, p), set()).add(r.get('tob'))
    for p, r in post.recs.items():
        if not r.get('cur') or r.get('tob') is None:
            continue
        rel = rec_addr(r, p)
        o = post.cache.get(rel)
        if not o or o['kind'] != 'file' or o['bytes'] is None or len(by_addr[rel]) > 1:
            continue
        b = o['bytes']
        text = mode_is_text(r['tob'], b)
        want = ref_digest(r['cur']['algorithm'], hashref.strip_crlf(b) if text else b)
        have = ''.join(f'{x:02x}' for x in r['cur']['digest'])
        if want != have:
            other = ref_digest(r['cur']['algorithm'], b if text else hashref.strip_crlf(b))
            out.append((f"step {st['i']} {show_cmd(st['cmd'])}: {p} is recorded in mode '{r['tob']}' ({'text' if text else 'binary'} for these bytes), but the object of "
                        f"its current version, {rel}, is not at the digest of its {'bytes without CR/LF' if text else 'raw bytes'}"
                        + (f" - it is at the digest of its {'raw bytes' if text else 'bytes without CR/LF'} (the other mode)" if other == have else ''),
                        {'kind': 'address-not-under-recorded-mode', 'recorded': r['tob']}))
    return out


def o1r_recheck_restores(steps, cfg, history):
    """C01, first sentence, judged on the history itself: after a successful `recheck` a tracked target that was absent
    before the command (or any target, with --force) yields exactly the bytes of the cache object of its recorded digest"""
    out = []
    for st in steps:
        c = st['cmd']
        pre, post = st['pre'], st['post']
        # a path recorded as a tracked file stays one unless it is untracked or moved away: a command that makes the record
        # vanish (e.g. by recording the file as "missing", seeded change C01-5) makes its committed versions unreachable for recheck
        if pre is not None and post is not None and st['rc'] == 0 and c['op'] not in ('untrack', 'move', 'movem', 'write', 'delete', 'emptydir', 'link', 'relink'):
            for t in pre.recs:
                if t not in post.recs and pre.recs[t].get('cur'):
                    out.append((f"step {st['i']} {show_cmd(c)}: {t} was recorded as a tracked file with a committed version before the command and is not afterwards",
                                {'kind': 'record-vanished'}))
        if c['op'] != 'recheck' or st['rc'] != 0 or pre is None or post is None:
            continue
        for t in c['targets']:
            r = post.recs.get(t)
            if not r or not r['cur'] or t not in pre.recs:
                continue
            o = post.cache.get(rec_addr(r, t))
            if not o or o['bytes'] is None:
                continue                    # nothing to restore from: recheck reports it, C01 does not apply
            if not (c.get('force') or read_through(pre, t) is None):
                continue
            got = read_through(post, t)
            if got != o['bytes']:
                strip_coll = got is not None and hashref.strip_crlf(got) == hashref.strip_crlf(o['bytes'])
                out.append((f"step {st['i']} {show_cmd(c)}: {t} {'is absent' if got is None else f'has {len(got)} other bytes'} after recheck "
                            f"(the object of its recorded version has {len(o['bytes'])} bytes)", {'kind': 'strip-collision'} if strip_coll else {'kind': 'recheck-did-not-restore'}))
    return out


def o3_no_unsaved_loss(steps, cfg, history, include_failed=False):
    """C03: after any command other than remove (and without --force) every file that existed before still has its
    bytes at the path, at the requested move destination, or in the cache under the digest recorded for the path."""
    out = []
    for st in steps:
        c = st['cmd']
        pre, post = st['pre'], st['post']
        if pre is None or post is None or c['op'] in ('write', 'delete', 'remove', 'emptydir', 'relink') or is_force(c) or (st['rc'] not in (0, 1) and not include_failed):
            continue
        for p, k in pre.ws.items():
            b = read_through(pre, p)
            if b is None:
                continue
            if read_through(post, p) == b:
                continue
            if c['op'] == 'move' and read_through(post, c['dst']) == b:
                continue
            r = post.recs.get(p) or (post.recs.get(c.get('dst')) if c['op'] == 'move' else None)
            ok = False
            if r and r['cur']:
                a = rec_addr(r, p)
                o = post.cache.get(a)
                ok = bool(o and o['bytes'] == b)
            if not ok and include_failed and st['rc'] not in (0, 1):
                # The process died (a panic after an I/O error) like a killed one: with several targets a sibling of the
                # failing file may have been moved into the cache already while the records - saved at the end - still name
                # the previous version (the state C07 knows as K3d).  The bytes are not destroyed when some object holds them.
                ok = any(x['bytes'] == b for x in post.cache.values())
            if not ok:
                strip_coll = bool(r and r['cur'] and post.cache.get(rec_addr(r, p)) and
                                  hashref.strip_crlf(post.cache[rec_addr(r, p)]['bytes'] or b'') == hashref.strip_crlf(b))
                sig = {'kind': 'strip-collision'} if strip_coll else {'kind': 'bytes-lost', 'op': c['op']}
                if r and r['cur'] and post.cache.get(rec_addr(r, p), {}).get('kind') == 'symlink':
                    sig = {'kind': 'object-is-symlink'}
                out.append((f"step {st['i']} {show_cmd(c)}: the {len(b)} bytes that were at {p} are neither at the path, nor at the destination, nor in the cache under the recorded digest", sig))
    return out


def o4_restore_versions(steps, cfg, history):
    """C04, third clause: `untrack --restore-versions` writes out every recorded version byte-for-byte before deleting it.
    Whatever the exit status and whichever copy failed: a version whose object was in the cache before the command is
    still in the cache afterwards or is in the restore directory with exactly the object's bytes."""
    from repo_harness import restore_items
    out = []
    for st in steps:
        c = st['cmd']
        if c['op'] != 'untrack' or not c.get('restore_versions') or st['pre'] is None or st['post'] is None:
            continue
        pre, post, written = st['pre'], st['post'], st.get('restored', {})
        for p, k, d, rel in restore_items(pre):
            if p not in c['targets'] or rel not in pre.cache or pre.cache[rel]['bytes'] is None:
                continue
            want = pre.cache[rel]['bytes']
            got = written.get((p, k))
            if got is not None and got != want:
                out.append((f"step {st['i']} {show_cmd(c)}: version {k} of {p} was written out with other bytes than its cache object {rel}",
                            {'kind': 'restored-bytes-differ'}))
            kept = rel in post.cache and post.cache[rel]['bytes'] == want
            if not kept and got != want:
                out.append((f"step {st['i']} {show_cmd(c)} (exit {st['rc']}): version {k} of {p} (object {rel}) was deleted without having been written out",
                            {'kind': 'version-deleted-without-restore'}))
            if st['rc'] == 0 and got is None:
                out.append((f"step {st['i']} {show_cmd(c)}: succeeded but version {k} of {p} was not written out", {'kind': 'version-not-restored'}))
    return out


def o5_removal(steps, cfg, history):
    """C05"""
    out = []
    for st in steps:
        c = st['cmd']
        pre, post = st['pre'], st['post']
        if pre is None or post is None or c['op'] not in ('remove', 'untrack') or st['rc'] not in (0, 1):
            continue
        targets = set(c['targets'])
        if not is_force(c):
            needed = {}
            for q, r in pre.recs.items():
                if q in targets: continue
                for d in r['hist']:
                    needed[rec_addr(r, q, d)] = q
            for rel in pre.cache:
                if rel not in post.cache and rel in needed:
                    out.append((f"step {st['i']} {show_cmd(c)}: deleted object {rel}, still referred to by tracked path {needed[rel]} (not a target)", {'kind': 'deleted-referenced-object'}))
        if c['op'] == 'remove' and c.get('only_version') and c.get('_only_hex'):
            # --only-version: nothing but objects of the designated version is deleted
            for rel in pre.cache:
                if rel not in post.cache and not addr_parts(rel)[1].startswith(c['_only_hex']):
                    out.append((f"step {st['i']} {show_cmd(c)}: deleted object {rel}, which is not the designated version {c['_only_hex']}",
                                {'kind': 'only-version-deleted-other'}))
        if c['op'] == 'untrack' and st['rc'] == 0:
            for t in targets:
                if t not in pre.recs: continue
                if t in post.recs:
                    out.append((f"step {st['i']} {show_cmd(c)}: {t} is still recorded as tracked", {'kind': 'untrack-still-listed'}))
                b = read_through(pre, t)
                if b is None: continue
                kind, addr = entry_kind(post, t)
                pk, paddr = entry_kind(pre, t)
                if read_through(post, t) != b:
                    out.append((f"step {st['i']} {show_cmd(c)}: bytes of untracked {t} changed", {'kind': 'untrack-bytes-changed'}))
                elif kind != 'copy':
                    sig = {'kind': 'untrack-hardlink-shared'} if pk == 'hardlink' else {'kind': 'untrack-not-regular-writable', 'was': pk}
                    out.append((f"step {st['i']} {show_cmd(c)}: untracked {t} is '{kind}' (was '{pk}'), not an independent writable regular file", sig))
    return out


def unmodified(obs, p):
    """p tracked and its workspace content equals the object of its current digest, or it is absent"""
    r = obs.recs.get(p)
    if not r or not r['cur']: return False
    o = obs.cache.get(rec_addr(r, p))
    if not o or o['kind'] != 'file': return False
    b = read_through(obs, p)
    return b is None or b == o['bytes']


def o6_methods(steps, cfg, history):
    """C17"""
    out = []
    for st in steps:
        c = st['cmd']
        pre, post = st['pre'], st['post']
        if pre is None or post is None or st['rc'] != 0: continue
        # links always point at the object of the recorded current digest
        for p, r in post.recs.items():
            kind, addr = entry_kind(post, p)
            if kind in ('symlink', 'hardlink') and r['cur'] and addr != rec_addr(r, p):
                # a link to an older version is legitimate only if no command acted on p since; judged on acting commands below
                pass
        # a link never leads to an object that anybody may write to (mode & 0222 == 0): the object is shared by every path and
        # version with that content (seeded change C17-4: only the owner's write bit was cleared)
        for p, r in post.recs.items():
            kind, addr = entry_kind(post, p)
            o = post.cache.get(addr) if kind in ('symlink', 'hardlink') and addr else None
            if o and o.get('mode') is not None and o['mode'] & 0o222:
                out.append((f"step {st['i']} {show_cmd(c)}: {p} is a {kind} to the object {addr} with mode {oct(o['mode'] & 0o777)}: the object can be changed through the link",
                            {'kind': 'link-to-writable-object'}))
        if c['op'] == 'recheck' and c.get('method'):
            for t in c['targets']:
                # an unmodified (or absent) entry - or, with --force, also a locally modified one whose committed version is
                # in the cache - is replaced by an entry of the requested kind
                forced_mod = bool(c.get('force')) and t in pre.recs and not unmodified(pre, t) and pre.recs[t]['cur'] and \
                    pre.cache.get(rec_addr(pre.recs[t], t), {}).get('bytes') is not None
                if t in pre.recs and (unmodified(pre, t) or forced_mod) and (pre.ws.get(t) is None or read_through(pre, t) is not None):
                    r = post.recs.get(t)
                    want = KIND_OF[c['method']]
                    kind, addr = entry_kind(post, t)
                    o = post.cache.get(rec_addr(r, t)) if r else None
                    if not r or r['method'] != c['method']:
                        out.append((f"step {st['i']} {show_cmd(c)}: recorded method of {t} is {r and r['method']}, requested {c['method']}", {'kind': 'method-not-recorded'}))
                    elif kind != want or (want != 'copy' and addr != rec_addr(r, t)):
                        same_as_recorded = pre.recs[t]['method'] == c['method'] and not c.get('force') and pre.ws.get(t) is not None
                        sig = {'kind': 'recheck-skips-when-requested-method-is-the-recorded-one'} if same_as_recorded else {'kind': 'wrong-entry-kind'}
                        out.append((f"step {st['i']} {show_cmd(c)}: {t} is '{kind}' -> {addr}, requested {c['method']} of {rec_addr(r, t)}", sig))
                    elif o and read_through(post, t) != o['bytes']:
                        out.append((f"step {st['i']} {show_cmd(c)}: {t} does not yield the committed bytes", {'kind': 'wrong-bytes'}))
        if c['op'] == 'track' and not c.get('no_commit'):
            for t in c['targets']:
                b = read_through(pre, t)
                if b is None or t in pre.recs: continue          # first commit of a file present on disk
                r = post.recs.get(t)
                if not r: continue
                want = KIND_OF[r['method']]
                kind, addr = entry_kind(post, t)
                eff = c.get('method') or cfg['method']
                if r['method'] != eff:
                    out.append((f"step {st['i']} {show_cmd(c)}: recorded method of new path {t} is {r['method']}, effective request {eff}", {'kind': 'method-not-recorded'}))
                elif kind != want or (want != 'copy' and addr != rec_addr(r, t)):
                    out.append((f"step {st['i']} {show_cmd(c)}: new path {t} is '{kind}', method {r['method']}", {'kind': 'wrong-entry-kind'}))
                elif read_through(post, t) != b and hashref.strip_crlf(read_through(post, t) or b'') != hashref.strip_crlf(b):
                    out.append((f"step {st['i']} {show_cmd(c)}: {t} does not yield the committed bytes", {'kind': 'wrong-bytes'}))
    return out


def recheck_applies(c, pre, t):
    """`recheck --recheck-method M` is owed for target t: t is tracked, its committed version is in the cache, and its workspace
    entry is absent or unmodified - or, with --force, anything readable (an edited copy, a link replaced by a file of the user)"""
    if t not in pre.recs or not pre.recs[t]['cur']:
        return False
    if pre.ws.get(t) is not None and read_through(pre, t) is None:
        return False                      # a dangling link
    if unmodified(pre, t):
        return True
    return bool(c.get('force')) and pre.cache.get(rec_addr(pre.recs[t], t), {}).get('bytes') is not None


def o6_method_sticks(steps, cfg, history):
    """C17, last sentence ("the stored method is the one used by later rechecks"), judged without looking at xvc's records: the
    harness notes for every path the method of the last successful command that asked for one explicitly and had to honour it
    (first track of a file, `recheck --recheck-method M` on an absent/unmodified entry or - with --force - on a modified one).
    A later `recheck` WITHOUT a method that has to materialise the path (absent entry, or --force) must produce an entry of the
    noted kind.  Commands whose effect on the method the note cannot follow (re-track, copy/move, remove, untrack, a failure)
    drop the note: nothing is claimed then."""
    out, last = [], {}
    for st in steps:
        c, pre, post = st['cmd'], st['pre'], st['post']
        if pre is None or post is None:
            break
        op = c['op']
        if op in ('write', 'delete', 'emptydir', 'link', 'relink', 'carryin') and st['rc'] == 0:
            continue                      # carry-in re-materialises with the recorded method and records none
        touched = list(c.get('targets', [])) + [c[k] for k in ('src', 'dst') if c.get(k)]
        if st['rc'] != 0 or op not in ('recheck', 'track'):
            for t in touched: last.pop(t, None)
            continue
        if op == 'track':
            for t in c['targets']:
                if t not in pre.recs and read_through(pre, t) is not None and not c.get('no_commit') and t in post.recs:
                    last[t] = c.get('method') or cfg['method']
                else:
                    last.pop(t, None)
            continue
        for t in c['targets']:
            if c.get('method'):
                if recheck_applies(c, pre, t): last[t] = c['method']
                elif not c.get('force') and t in pre.recs and pre.recs[t]['cur'] and read_through(pre, t) is not None and \
                        pre.cache.get(rec_addr(pre.recs[t], t), {}).get('bytes') is not None and \
                        hashref.strip_crlf(pre.cache[rec_addr(pre.recs[t], t)]['bytes']) != hashref.strip_crlf(read_through(pre, t)):
                    pass                  # an edited file, no --force: refused for t, nothing done, nothing recorded
                else: last.pop(t, None)
                continue
            if t not in last or t not in pre.recs or t not in post.recs or not recheck_applies(c, pre, t):
                continue
            if not (pre.ws.get(t) is None or c.get('force')):
                continue
            o = post.cache.get(rec_addr(post.recs[t], t))
            if not o or o.get('bytes') is None:
                continue
            kind, addr = entry_kind(post, t)
            if kind != KIND_OF[last[t]]:
                out.append((f"step {st['i']} {show_cmd(c)}: {t} comes back as '{kind}', but the method last requested for it (and honoured) was {last[t]}",
                            {'kind': 'later-recheck-uses-other-method'}))
    return out


def o7_copy_move(steps, cfg, history):
    """C19"""
    out = []
    for st in steps:
        c = st['cmd']
        pre, post = st['pre'], st['post']
        if pre is None or post is None or c['op'] not in ('copy', 'move') or st['rc'] not in (0, 1): continue
        src, dst = c['src'], c['dst']
        if src not in pre.recs: continue
        rs = pre.recs[src]
        src_b = read_through(pre, src)
        o = pre.cache.get(rec_addr(rs, src))
        modified = src_b is not None and o is not None and src_b != o['bytes'] and \
            hashref.strip_crlf(src_b) != hashref.strip_crlf(o['bytes'] or b'')
        same = lambda: {p: (r['cur'], r['method']) for p, r in pre.recs.items()} == {p: (r['cur'], r['method']) for p, r in post.recs.items()}
        if modified or (dst in pre.recs and not (c['op'] == 'copy' and c.get('force'))):
            if not same() or {p: read_through(pre, p) for p in pre.ws} != {p: read_through(post, p) for p in post.ws}:
                out.append((f"step {st['i']} {show_cmd(c)}: must refuse ({'source modified' if modified else 'destination tracked'}) but changed records or workspace", {'kind': 'copy-move-not-refused'}))
            continue
        if st['rc'] == 1 and dst not in pre.recs and dst not in pre.ws and ext_of(src) == ext_of(dst) and o is not None and o['bytes'] is not None and \
                (src_b == o['bytes'] or (src_b is None and src not in pre.ws and c['op'] == 'copy')):
            # nothing to object to: the source is exactly its committed version (or absent, for copy), the destination is free
            out.append((f"step {st['i']} {show_cmd(c)}: refused ({st['err'][-160:].strip()}) although the source has no uncommitted changes and the destination is neither tracked nor present",
                        {'kind': 'copy-move-wrongly-refused', 'op': c['op']}))
            continue
        if st['rc'] != 0 or dst in pre.recs or dst in pre.ws: continue
        rd = post.recs.get(dst)
        if not rd:
            out.append((f"step {st['i']} {show_cmd(c)}: destination {dst} is not tracked afterwards", {'kind': 'dest-not-tracked'})); continue
        if rd['cur'] != rs['cur']:
            out.append((f"step {st['i']} {show_cmd(c)}: destination digest differs from the source's", {'kind': 'dest-digest'}))
        if rd['method'] != (c.get('method') or rs['method']):
            out.append((f"step {st['i']} {show_cmd(c)}: destination method {rd['method']}, expected {c.get('method') or rs['method']}", {'kind': 'dest-method'}))
        if ext_of(src) == ext_of(dst) and rec_addr(rd, dst) != rec_addr(rs, src):
            out.append((f"step {st['i']} {show_cmd(c)}: destination does not share the source's cache object", {'kind': 'dest-object'}))
        if not c.get('no_recheck') and o is not None and read_through(post, dst) != o['bytes']:
            out.append((f"step {st['i']} {show_cmd(c)}: destination does not yield the committed bytes", {'kind': 'dest-bytes'}))
        if c['op'] == 'copy':
            if post.recs.get(src, {}).get('cur') != rs['cur'] or read_through(post, src) != src_b:
                out.append((f"step {st['i']} {show_cmd(c)}: copy changed the source", {'kind': 'source-changed'}))
        else:
            if src in post.recs or src in post.ws:
                out.append((f"step {st['i']} {show_cmd(c)}: move left the source tracked or present", {'kind': 'source-left'}))
            if len(post.recs) != len(pre.recs):
                out.append((f"step {st['i']} {show_cmd(c)}: number of tracked files changed from {len(pre.recs)} to {len(post.recs)}", {'kind': 'count-changed'}))
    return out


class Committed:
    """The harness's own log of what was committed (independent of the model): path -> bytes of the last committed
    version, per the property text."""
    def __init__(self):
        self.cur = {}
        self.snapshots = []       # (step index, git head, dict path->bytes)
        self.snap_ents = {}       # step index -> dict path->entity recorded for the path at that commit
        self.last_destructive = -1
        self.last_removal = -1    # last remove / untrack without --force

    def update(self, st, head=None):
        c, pre, post = st['cmd'], st['pre'], st['post']
        if st['rc'] != 0 or pre is None or post is None:
            if c['op'] not in ('write', 'delete'):
                self.last_destructive = st['i']       # a failed command leaves nothing to rely on for later snapshots
            return
        def committed(t):
            # the premise "track / carry-in has committed the file": afterwards the path is recorded and an object
            # exists under the recorded digest (an unchanged file whose object was explicitly removed, or that was only
            # recorded with --no-commit, is skipped by carry-in: nothing was committed, nothing is claimed)
            # A command that exits 0 and leaves a NEW version on record for the path (a path tracked for the first time, or a
            # current digest other than before) has committed that version, whether or not it put the object where it
            # belongs: "track said ok, the file is on record" is all a user sees.
            r = post.recs.get(t)
            if not (r and r['cur']):
                return False
            if rec_addr(r, t) in post.cache:
                return True
            pr = pre.recs.get(t)
            return not c.get('no_commit') and (pr is None or pr['cur'] != r['cur'])
        if c['op'] == 'track':
            for t in c['targets']:
                b = read_through(pre, t)
                if b is None: continue
                if c.get('no_commit'):
                    if post.recs.get(t) and pre.recs.get(t, {}).get('cur') != post.recs[t]['cur']:
                        self.cur.pop(t, None)
                elif committed(t):
                    self.cur[t] = b
        elif c['op'] == 'carryin':
            for t in c['targets']:
                b = read_through(pre, t)
                if b is not None and committed(t):
                    self.cur[t] = b
        elif c['op'] == 'copy':
            if c['dst'] in post.recs and c['src'] in self.cur and post.recs[c['dst']]['cur'] == post.recs.get(c['src'], {}).get('cur'):
                self.cur[c['dst']] = self.cur[c['src']]
            elif c['dst'] in post.recs and (c['dst'] not in pre.recs or post.recs[c['dst']]['cur'] != pre.recs[c['dst']]['cur']):
                # the destination now names a version the harness has not seen committed (e.g. `copy --force` onto a
                # tracked path from a source whose object was removed from the cache): nothing is claimed for it
                self.cur.pop(c['dst'], None)
        elif c['op'] == 'move':
            if c['dst'] in post.recs and c['src'] not in post.recs:
                v = self.cur.pop(c['src'], None)
                if v is not None: self.cur[c['dst']] = v
        elif c['op'] in ('remove', 'untrack'):
            for t in c['targets']:
                self.cur.pop(t, None)
            gone = set(pre.cache) - set(post.cache)
            for p in list(self.cur):
                r = post.recs.get(p)
                if not r or rec_addr(r, p) in gone:
                    self.cur.pop(p, None)
            if c.get('force'):
                self.last_destructive = st['i']
            else:
                # Without --force the command is entitled to delete versions of its TARGETS only: the snapshots taken before it stay
                # valid for every path (followed by its entity) that was not a target and is still tracked (C04: "every version ever
                # committed for a still-tracked path remains in the cache"; seeded change C04-5)
                self.last_removal = st['i']
                tents = {pre.recs[t]['entity'] for t in c['targets'] if t in pre.recs}
                alive = {r['entity'] for r in post.recs.values()}
                for (i, head, snap) in self.snapshots:
                    ents = self.snap_ents.get(i, {})
                    for p in list(snap):
                        if ents.get(p) is None or ents[p] in tents or ents[p] not in alive:
                            snap.pop(p)
        if c['op'] in ('track', 'carryin') and c.get('force'):
            self.last_destructive = st['i']
        for p in list(self.cur):
            if p not in post.recs:
                self.cur.pop(p)
        if head and c['op'] not in ('write', 'delete'):
            self.snapshots.append((st['i'], head, dict(self.cur)))
            self.snap_ents[st['i']] = {p: post.recs[p]['entity'] for p in self.cur if p in post.recs}


def restore_hook_factory(results, every_step=False, old_commits=False, restore_versions=False):
    """O4 (C01/C04/C17): in a throw-away copy of the sandbox delete / damage the workspace copy and run recheck."""
    com = Committed()

    def hook(sb, cfg, history, steps, table):
        st = steps[-1]
        head = None
        if old_commits and st['cmd']['op'] not in ('write', 'delete'):
            rc, out, _ = sb.git('rev-parse', 'HEAD')
            head = out.strip() if rc == 0 else None
        com.update(st, head)
        last = len(steps) == len(history) or st['rc'] not in (0, 1)
        if not (every_step or last) or st['rc'] not in (0, 1):
            return
        post = st['post']
        todo = [p for p in com.cur if p in post.recs]
        if todo:
            cp = sb.base + '.probe'
            shutil.rmtree(cp, ignore_errors=True)
            subprocess.run(['cp', '-a', sb.base, cp], check=False)
            probe = rh.Sandbox.__new__(rh.Sandbox)
            probe.__dict__.update(sb.__dict__)
            probe.base, probe.root = cp, os.path.join(cp, 'repo')
            probe.log = []
            # symlinks created by xvc are absolute: they still point into the original cache, which holds the same bytes
            for k, p in enumerate(todo):
                ap = probe.path(p)
                want = com.cur[p]
                # kinds of damage (the property: "deleting or damaging the workspace copy"):
                #   delete | overwrite with other bytes | change only the line endings of a text file (the text digest
                #   does not see it) | other bytes of the same size with the old mtime (size+mtime short-cut does not see it)
                modes = ['delete', 'overwrite', 'same-size-same-mtime']
                if (b'\n' in want or b'\r' in want) and 0 not in want[:8000]: modes.append('line-endings')
                damage = modes[(k + st['i']) % len(modes)]
                old_stat = None
                try:
                    old_stat = os.stat(ap)
                except OSError:
                    pass
                if damage == 'same-size-same-mtime' and (old_stat is None or len(want) == 0 or not os.path.isfile(ap) or os.path.islink(ap)
                                                         or os.stat(ap).st_nlink != 1):
                    damage = 'overwrite'
                if os.path.lexists(ap): os.unlink(ap)
                args = rh.Runner.cfg_args(None, cfg) + ['file', 'recheck']
                if damage != 'delete':
                    os.makedirs(os.path.dirname(ap), exist_ok=True)      # e.g. a destination of `copy --no-recheck` in a new directory
                    if damage == 'overwrite':
                        data = b'damaged-by-harness'
                    elif damage == 'line-endings':
                        data = want.replace(b'\r\n', b'\n').replace(b'\n', b'\r\n') if b'\r\n' not in want else want.replace(b'\r\n', b'\n')
                        if data == want: data = want + b'\r'
                    else:
                        data = bytes((x ^ 0x55) for x in want)
                    open(ap, 'wb').write(data); args.append('--force')
                    if damage == 'same-size-same-mtime':
                        os.utime(ap, ns=(old_stat.st_atime_ns, old_stat.st_mtime_ns))
                results[f'damage:{damage}'] = results.get(f'damage:{damage}', 0) + 1
                if k % 3 == 0: args.append('--no-parallel')
                rc, out, err = probe.x(*(args + [p]))
                got = None
                try:
                    got = open(ap, 'rb').read()
                except OSError:
                    pass
                results['restores'] = results.get('restores', 0) + 1
                if got != want:
                    coll = got is not None and hashref.strip_crlf(got) == hashref.strip_crlf(want)
                    results.setdefault('failures', []).append((
                        f"after step {st['i']} {show_cmd(st['cmd'])}: {damage} {p} + `xvc file recheck{' --force' if damage == 'overwrite' else ''}` gave "
                        f"{'nothing' if got is None else str(len(got)) + ' bytes'} instead of the {len(want)} committed bytes (rc={rc} {err[-200:]})",
                        {'kind': 'strip-collision'} if coll else {'kind': 'not-restored', 'damage': damage}))
                else:
                    # C17: the recorded method is the one used when the path is restored
                    o2 = Obs(probe)
                    kind, addr = entry_kind(o2, p)
                    r = o2.recs.get(p)
                    if r and r['method'] and kind != KIND_OF[r['method']] and not (kind == 'hardlink' and False):
                        # the probe's links point into the ORIGINAL cache (absolute symlink) or share inodes only with the
                        # probe's cache: a hard link shows as hardlink, a symlink as symlink with addr None
                        if not (KIND_OF[r['method']] == 'symlink' and o2.ws.get(p, {}).get('kind') == 'symlink'):
                            results.setdefault('failures', []).append((
                                f"after step {st['i']}: {p} restored as '{kind}' but the recorded method is {r['method']}", {'kind': 'restored-with-other-method'}))
                r2 = Obs(probe).recs.get(p) if damage != 'delete' else None
                if r2 is not None and r2['cur'] != post.recs[p]['cur']:
                    results.setdefault('failures', []).append((
                        f"after step {st['i']}: `recheck --force {p}` changed the recorded version", {'kind': 'force-changed-version'}))
            for dp, dn, fn in os.walk(cp):
                try: os.chmod(dp, 0o755)
                except OSError: pass
            shutil.rmtree(cp, ignore_errors=True)
        if old_commits and last:
            snaps = [s for s in com.snapshots if s[0] > com.last_destructive and s[2]]
            # commits made BEFORE the last remove / untrack (without --force) come first: they name earlier versions of the paths
            # that are still tracked
            pri = [x for x in snaps if x[0] < com.last_removal][-3:]
            for (i, head, snap) in (pri + [x for x in snaps[-4:][:3] if x[0] not in {y[0] for y in pri}])[:4]:
                cp = sb.base + '.old'
                shutil.rmtree(cp, ignore_errors=True)
                subprocess.run(['cp', '-a', sb.base, cp], check=False)
                probe = rh.Sandbox.__new__(rh.Sandbox)
                probe.__dict__.update(sb.__dict__)
                probe.base, probe.root = cp, os.path.join(cp, 'repo')
                probe.log = []
                rc, out, err = probe.git('checkout', '-q', '--detach', head)
                if rc != 0:
                    results.setdefault('notes', []).append(f'git checkout {head[:8]} failed: {err[-200:]}')
                else:
                    for p in snap:
                        ap = probe.path(p)
                        if os.path.lexists(ap): os.unlink(ap)
                    rc, out, err = probe.x(*(rh.Runner.cfg_args(None, cfg) + ['--skip-git', 'file', 'recheck']), cwd=probe.root)
                    results['old_commit_restores'] = results.get('old_commit_restores', 0) + 1
                    for p, want in snap.items():
                        try:
                            got = open(probe.path(p), 'rb').read()
                        except OSError:
                            got = None
                        if got != want:
                            results.setdefault('failures', []).append((
                                f"git checkout of the commit made by step {i} + `xvc file recheck`: {p} is "
                                f"{'missing' if got is None else 'different'} (rc={rc} {err[-200:]})", {'kind': 'old-commit-not-restored'}))
                for dp, dn, fn in os.walk(cp):
                    try: os.chmod(dp, 0o755)
                    except OSError: pass
                shutil.rmtree(cp, ignore_errors=True)
    return hook


# ------------------------------------------------------------------------------------------------ I/O faults

def io_fault_histories(seed, n):
    """Histories in which ONE xvc command meets an I/O fault while it writes a data file: every write beyond a file size
    limit fails with EFBIG (like ENOSPC / a quota), or the hidden temporary name of a workspace copy is occupied.  The
    fault can only hit copies of data files (records are tiny).  Judged by the oracles alone: the model has no I/O errors."""
    import random
    rng = random.Random(f'io-fault-{seed}')
    out = []
    for i in range(n):
        e = rng.choice(['bin', 'dat', ''])
        nm = lambda s: s + ('.' + e if e else '')
        a, b, c2 = nm('a'), nm('d/b'), nm('c')
        big = lambda t: bytes(f'{t}-{i}-', 'ascii') + bytes(rng.getrandbits(8) for _ in range(4096)) * rng.randint(40, 90) + b'\x00end'    # 160..370 KiB, binary
        X, Y = big('X'), big('Y')
        small = bytes(f'small-{i}\n', 'ascii')
        cfg = {'algo': rng.choice([1, 2, 3]), 'method': rng.choice(['copy', 'symlink', 'hardlink']), 'tob': 'binary'}     # hashlib algorithms only
        W_ = lambda p, by: {'op': 'write', 'path': p, 'bytes': by, 'cname': 'big', 'no_table': True}
        h = [W_(a, X), W_(b, small), T([a, b], no_parallel=rng.random() < 0.5)]
        if rng.random() < 0.5:
            h += [W_(a, Y), CI([a])]                         # a second version of the big file
        kind = rng.choice(['recheck-copy', 'untrack', 'untrack', 'untrack-restore', 'track-new', 'carryin', 'copy', 'move-method', 'recheck-deleted'])
        fault = {'fsize_limit': rng.choice([64, 100, 128])} if rng.random() < 0.7 else {'tmp_blocked': [a, c2]}
        if kind == 'recheck-copy':
            cmd = RC([a, b], method='copy')
        elif kind == 'recheck-deleted':
            h.append({'op': 'delete', 'path': a}); cmd = RC([a, b])
        elif kind == 'untrack':
            cmd = {'op': 'untrack', 'targets': rng.choice([[a], [a, b]])}
        elif kind == 'untrack-restore':
            cmd = {'op': 'untrack', 'targets': [a], 'restore_versions': f'../restored-{i}'}
        elif kind == 'track-new':
            h.append(W_(c2, Y)); cmd = T([c2, b])
        elif kind == 'carryin':
            h.append(W_(a, big('Z'))); cmd = CI([a])
        elif kind == 'copy':
            cmd = {'op': 'copy', 'src': a, 'dst': c2, 'method': 'copy'}
        else:
            cmd = {'op': 'move', 'src': a, 'dst': c2, 'method': rng.choice(['copy', 'hardlink'])}
        h.append(dict(cmd, **fault))
        # afterwards, without the fault: what is tracked can be restored, what was asked for can be done
        h.append(RC([a, b, c2], force=False))
        if kind.startswith('untrack'):
            h.append(dict(cmd))
        out.append((f'io-{kind}-{"efbig" if "fsize_limit" in fault else "tmp-blocked"}-{i}', cfg, h))
    return out + cache_blocked_histories(seed, max(8, n // 2))


def cache_blocked_histories(seed, n):
    """Histories in which ONE track / carry-in cannot move a file into the cache: a non-directory sits in the way of the cache
    address of the file's NEW digest (create_dir_all fails with ENOTDIR; the same code path as a cache directory the user cannot
    write, a read-only or full cache file system).  All four algorithms, every method, serial and parallel, new files and new
    versions of tracked files, alone or next to targets that can be carried.  Whatever the command's exit status: every byte
    string that was in the workspace is still there or in the cache (o3, include_failed)."""
    import random
    rng = random.Random(f'cache-blocked-{seed}')
    out = []
    kinds = ['carryin', 'track-new', 'track-modified', 'carryin-many', 'track-many', 'carryin-twice']
    for i in range(n):
        kind = kinds[i % len(kinds)]
        cfg = {'algo': (i + seed) % 4, 'method': rng.choice(['copy', 'copy', 'symlink', 'hardlink', 'reflink']), 'tob': rng.choice(['auto', 'binary', 'text'])}
        e = rng.choice(['bin', 'txt', ''])
        nm = lambda s: s + ('.' + e if e else '')
        a, b, c2 = nm('a'), nm('d/b'), nm('c')
        body = lambda t: bytes(f'{t} {i} {seed}\n', 'ascii') + bytes(rng.choice(b'abcdefgh\n') for _ in range(rng.choice([0, 30, 3000]))) + rng.choice([b'', b'\x00\x01'])
        np_ = lambda: rng.random() < 0.5
        h = [W(a, body('a v1')), W(b, body('b v1')), T([a, b], no_parallel=np_())]
        if kind == 'carryin':
            h += [W(a, body('a v2')), CI([a], no_parallel=np_(), cache_blocked=[a])]
            after = [CI([a]), {'op': 'delete', 'path': a}, RC([a])]
        elif kind == 'carryin-twice':
            h += [W(a, body('a v2')), CI([a], no_parallel=np_(), cache_blocked=[a]), CI([a], no_parallel=np_(), cache_blocked=[a])]
            after = [CI([a]), {'op': 'delete', 'path': a}, RC([a])]
        elif kind == 'track-new':
            h += [W(c2, body('c v1')), T([c2], no_parallel=np_(), method=rng.choice([None, 'symlink', 'hardlink']), cache_blocked=[c2])]
            # the records of c2 were saved before the move failed: c2 is tracked, in the workspace, and not in the cache
            after = [RC([c2], method=rng.choice(['copy', 'symlink', 'hardlink', 'reflink'])), T([c2]), RC([c2], method=rng.choice(['symlink', 'hardlink'])),
                     CI([c2]), {'op': 'delete', 'path': c2}, RC([c2])]
        elif kind == 'track-modified':
            h += [W(b, body('b v2')), T([b], no_parallel=np_(), cache_blocked=[b])]
            after = [RC([b], method=rng.choice(['copy', 'symlink', 'hardlink', 'reflink'])), T([b]), CI([b]), {'op': 'delete', 'path': b}, RC([b])]
        elif kind == 'carryin-many':
            h += [W(a, body('a v2')), W(b, body('b v2')), CI([a, b], no_parallel=np_(), cache_blocked=[rng.choice([a, b])])]
            after = [CI([a, b]), {'op': 'delete', 'path': a}, {'op': 'delete', 'path': b}, RC([a, b])]
        else:
            h += [W(c2, body('c v1')), W(a, body('a v2')), T([a, c2, b], no_parallel=np_(), cache_blocked=[rng.choice([a, c2])])]
            after = [T([a, c2]), CI([a, c2]), {'op': 'delete', 'path': a}, {'op': 'delete', 'path': c2}, RC([a, c2])]
        # afterwards, without the fault: the same command goes through and what it committed can be restored
        out.append((f'io-{kind}-cache-blocked-{i}', cfg, h + after))
    return out


def run_fault_stream(chk, r, oracles, n):
    from concurrent.futures import ThreadPoolExecutor
    items = io_fault_histories(chk.seed, n)

    def one(it):
        name, cfg, h = it
        try:
            return r.run_history(name, cfg, h, stop_at_panic=False)
        except Exception as ex:
            return [{'i': -1, 'cmd': {'op': 'harness-error'}, 'rc': -1, 'err': repr(ex), 'abs': 'harness-error', 'pre': None, 'post': None, 'out': ''}]
    with ThreadPoolExecutor(max_workers=12) as ex:
        all_steps = list(ex.map(one, items))
    st = chk.tie['streams'].setdefault('io-fault-histories (oracles only)', {'histories': 0, 'faulty_commands_failed': 0, 'faulty_commands_succeeded': 0})
    for (name, cfg, h), steps in zip(items, all_steps):
        chk.evaluations += 1
        st['histories'] += 1
        chk.nontrivial.add(name)
        if steps and steps[0]['cmd']['op'] == 'harness-error':
            chk.oracle_failure('harness error: ' + steps[0]['err'], {'history': [show_cmd(c) for c in h]}, None, signature={'kind': 'harness-error'}); continue
        for s in steps:
            if s['cmd'].get('fsize_limit') or s['cmd'].get('tmp_blocked') or s['cmd'].get('cache_blocked'):
                st['faulty_commands_failed' if s['rc'] != 0 else 'faulty_commands_succeeded'] += 1
                chk.count(f"io-fault:{name.rsplit('-', 1)[0]}:rc={s['rc']}")
        fails = []
        for o in oracles:
            fails += o(steps, cfg, h, include_failed=True) if o is o3_no_unsaved_loss else o(steps, cfg, h)
        if o3_no_unsaved_loss not in oracles:
            fails += o3_no_unsaved_loss(steps, cfg, h, include_failed=True)
        seen = set()
        for msg, sig in fails:
            k = json.dumps(sig, sort_keys=True)
            if k in seen: continue
            seen.add(k)
            if not any(c.get('fsize_limit') or c.get('tmp_blocked') or c.get('no_table') for c in h):
                # expressible as model lines (replayable with ./check Cnn --replay): cut after the command the oracle names
                import re
                m = re.match(r'step (\d+) ', msg)
                hh = h[:int(m.group(1)) + 1] if m else h
                chk.oracle_failure(msg, {'cfg': cfg, 'history': [rh.model_line(c) for c in hh], 'readable': [show_cmd(c) for c in hh], 'io_fault_history': name},
                                   None, signature=dict(sig, stream='io-fault'))
                continue
            chk.oracle_failure(msg, {'cfg': cfg, 'history': [show_cmd(c) + (f"   [ulimit -f {c['fsize_limit']}, SIGXFSZ ignored]" if c.get('fsize_limit') else '') +
                                                             (f"   [a regular file at .xvc/tmp: the copies of {c['tmp_blocked']} out of the cache fail]" if c.get('tmp_blocked') else '') for c in h],
                                     'io_fault_history': name}, None, signature=dict(sig, stream='io-fault'))


# ------------------------------------------------------------------------------------------------ corpus

def parse_model_line(line):
    """inverse of repo_harness.model_line (histories are stored as model lines in replay files and in the corpus)"""
    t = line.split('\t')
    n = lambda x: None if x == '-' else x
    if t[0] == 'blocked':
        k = int(t[1])
        c = parse_model_line('\t'.join(t[2 + k:]))
        return dict(c, cache_blocked=t[2:2 + k]) if c else None
    if t[0] == 'writess': return {'op': 'write', 'path': t[1], 'bytes': bytes.fromhex(t[2]), 'cname': 'same-size', 'same_second': True}
    if t[0] == 'emptydir': return {'op': 'emptydir', 'path': t[1]}
    if t[0] == 'write': return {'op': 'write', 'path': t[1], 'bytes': bytes.fromhex(t[2]), 'cname': 'c'}
    if t[0] == 'delete': return {'op': 'delete', 'path': t[1]}
    if t[0] == 'relink': return {'op': 'relink', 'path': t[1], 'kind': t[2], 'n': int(t[3])}
    if t[0] == 'track': return {'op': 'track', 'method': n(t[1]), 'tob': n(t[2]), 'no_commit': t[3] == '1', 'force': t[4] == '1', 'targets': t[5:]}
    if t[0] == 'carryin': return {'op': 'carryin', 'tob': n(t[1]), 'force': t[2] == '1', 'targets': t[3:]}
    if t[0] == 'recheck': return {'op': 'recheck', 'method': n(t[1]), 'force': t[2] == '1', 'targets': t[3:]}
    if t[0] == 'remove':
        c = {'op': 'remove', 'all_versions': t[1] == '1', 'force': t[2] == '1', 'targets': t[3:]}
        if t[1].startswith('only:'):
            p, k = t[1][5:].rsplit(':', 1)
            c['only_version'] = [p, int(k)]
        return c
    if t[0] == 'removepfx':
        import onlyver
        return onlyver.parse_model_line(t)
    if t[0] in ('link', 'linkout', 'linkreplay'):
        import c05
        return c05.parse_link_line(t)
    if t[0] == 'untrack': return {'op': 'untrack', 'targets': t[1:]}
    if t[0] == 'untrackr':
        nb = int(t[1])
        return {'op': 'untrack', 'restore_versions': '../restored-replay-' + str(abs(hash(line)) % 100000), 'block': [[t[2 + 2 * i], int(t[3 + 2 * i])] for i in range(nb)] or None,
                'targets': t[2 + 2 * nb:]}
    if t[0] == 'copy': return {'op': 'copy', 'method': n(t[1]), 'no_recheck': t[2] == '1', 'force': t[3] == '1', 'src': t[4], 'dst': t[5]}
    if t[0] == 'move': return {'op': 'move', 'method': n(t[1]), 'no_recheck': t[2] == '1', 'src': t[3], 'dst': t[4]}
    return None


def W(p, b, n=None): return {'op': 'write', 'path': p, 'bytes': b, 'cname': n or 'c'}
def T(ts, **k): return dict({'op': 'track', 'targets': ts}, **k)
def CI(ts, **k): return dict({'op': 'carryin', 'targets': ts}, **k)
def RC(ts, **k): return dict({'op': 'recheck', 'targets': ts}, **k)

DEF = {'algo': 0, 'method': 'copy', 'tob': 'auto'}
CORPUS = [
    # seeded changes C17-2 / C17-5: `recheck --force --as M` on a path whose workspace entry differs from the committed content (an
    # edited copy, a link replaced by a file of the user) must use AND record M, and later rechecks without a method keep using it
    ('forced-method-on-edited-copy', DEF, [W('data.txt', b'v1\n'), T(['data.txt']), W('data.txt', b'v1 edited\n'), RC(['data.txt'], method='symlink', force=True),
                                           {'op': 'delete', 'path': 'data.txt'}, RC(['data.txt'])]),
    ('forced-method-on-replaced-link', DEF, [W('other.txt', b'o1\n'), T(['other.txt'], method='symlink'), W('other.txt', b'a file of the user\n'),
                                             RC(['other.txt'], method='hardlink', force=True), {'op': 'delete', 'path': 'other.txt'}, RC(['other.txt'])]),
    ('forced-method-on-edited-hardlink', DEF, [W('h.bin', b'h\x001'), T(['h.bin'], method='hardlink'), W('h.bin', b'h\x002 edited'), RC(['h.bin'], method='copy', force=True),
                                               {'op': 'delete', 'path': 'h.bin'}, RC(['h.bin'])]),
    # seeded change C04-5 (and C05-1): an object that is only an EARLIER version of a still tracked path is protected from untrack / remove
    # of another path that has it as its current (or any) version
    ('untrack-spares-earlier-version-of-other', DEF, [W('a.txt', b'X content\n'), T(['a.txt']), {'op': 'copy', 'src': 'a.txt', 'dst': 'b.txt'}, W('b.txt', b'Y content\n'), CI(['b.txt']),
                                                      {'op': 'untrack', 'targets': ['a.txt']}]),
    ('remove-spares-earlier-version-of-other', DEF, [W('a.txt', b'X content\n'), W('b.txt', b'X content\n'), T(['a.txt', 'b.txt'], no_parallel=True), W('b.txt', b'Y content\n'), CI(['b.txt']),
                                                     {'op': 'remove', 'targets': ['a.txt']}]),
    # seeded change C01-5: carry-in with a tracked file missing from the workspace (the unchanged code panics on an assertion before
    # anything is recorded; a carry-in that goes on must not record the missing file as gone: recheck still restores it)
    ('carryin-with-missing-target', DEF, [W('a.bin', b'bin\x00\r\nary'), W('b.txt', b'v1\n'), T(['a.bin', 'b.txt']), {'op': 'delete', 'path': 'a.bin'},
                                          W('b.txt', b'v2 edited\n'), CI(['a.bin', 'b.txt']), RC(['a.bin']), RC(['a.bin'], force=True)]),
    ('carryin-with-missing-target-force', DEF, [W('a.bin', b'bin\x00\r\nary'), W('b.txt', b'v1\n'), T(['a.bin', 'b.txt'], method='symlink'), {'op': 'delete', 'path': 'a.bin'},
                                                CI(['b.txt', 'a.bin'], force=True, no_parallel=True), RC(['a.bin'])]),
    # F31 (fixed, formerly known finding K10): a workspace symlink into the cache is not content.  (a) two paths share one object, so
    # for one of them the object's mtime differs from the recorded one and the digest is recomputed with the configured (auto) mode
    # instead of the recorded (binary) one: the link used to be renamed onto the new address; (b) carry-in --force on a symlinked
    # path removed the object and renamed the dangling link onto its address; (c) explicit mode change on a symlinked path
    ('F31-symlink-tob', DEF, [W('a.txt', b'l1\nl2\n'), W('b.txt', b'l1\nl2\n'), T(['a.txt', 'b.txt'], method='symlink', tob='binary', no_parallel=True),
                              CI(['a.txt'], no_parallel=True), CI(['b.txt'], no_parallel=True), {'op': 'delete', 'path': 'a.txt'}, RC(['a.txt'])]),
    ('F31-symlink-force', DEF, [W('f.bin', b'bin\x00ary'), T(['f.bin'], method='symlink'), CI(['f.bin'], force=True), {'op': 'delete', 'path': 'f.bin'}, RC(['f.bin'])]),
    ('F31-symlink-mode-change', DEF, [W('t.txt', b'l1\nl2\n'), T(['t.txt'], method='symlink'), CI(['t.txt'], tob='binary'), CI(['t.txt'], tob='text', force=True),
                                      {'op': 'delete', 'path': 't.txt'}, RC(['t.txt'])]),
    # F1 (fixed): recheck --force on a modified file must restore the committed bytes and keep the recorded version
    ('F1', DEF, [W('a.txt', b'v1\n'), T(['a.txt']), W('a.txt', b'edited\n'), RC(['a.txt'], force=True), {'op': 'delete', 'path': 'a.txt'}, RC(['a.txt'])]),
    # F10 (fixed): copy / move onto an untracked workspace file
    ('F10', DEF, [W('a.txt', b'v1\n'), W('b.txt', b'precious\n'), T(['a.txt']), {'op': 'copy', 'src': 'a.txt', 'dst': 'b.txt'}, {'op': 'move', 'src': 'a.txt', 'dst': 'b.txt'}]),
    # F11 (fixed): shared cache directory stays read-only
    ('F11', DEF, [W('a.txt', b'same\n'), W('g.bin', b'same\n'), T(['a.txt', 'g.bin']), {'op': 'remove', 'targets': ['a.txt']}]),
    # F12 (fixed): non-ASCII directory written into .gitignore by xvc itself
    ('F12', DEF, [W('d/c.txt', b'l1\n'), T(['d/c.txt'], method='hardlink'), {'op': 'move', 'src': 'd/c.txt', 'dst': 'ünï/dätä.txt'}, RC(['ünï/dätä.txt'], method='copy')]),
    # F13 (fixed): re-track of symlinked files through a slash-containing target
    ('F13', DEF, [W('d/c.txt', b'l1\n'), W('a.txt', b'z\n'), T(['d/c.txt', 'a.txt'], method='symlink'), T(['d/c.txt', 'a.txt']), {'op': 'delete', 'path': 'd/c.txt'}, RC(['d/c.txt'])]),
    # F18 (fixed): move must not delete a source whose content is not in the cache
    ('F18', DEF, [W('a.txt', b'precious\n'), T(['a.txt'], no_commit=True), {'op': 'move', 'src': 'a.txt', 'dst': 'b.txt', 'method': 'hardlink'},
                  {'op': 'move', 'src': 'a.txt', 'dst': 'b.txt', 'no_recheck': True}, {'op': 'move', 'src': 'a.txt', 'dst': 'b.txt'}]),
    # K7 (fixed): untrack of a hard link whose object is shared
    ('K7', DEF, [W('a.txt', b'dup\n'), W('b.txt', b'dup\n'), T(['a.txt', 'b.txt'], method='hardlink'), {'op': 'untrack', 'targets': ['a.txt']},
                 T(['a.txt'], method='reflink'), {'op': 'untrack', 'targets': ['a.txt', 'b.txt']}]),
    # F23 (fixed): a hard-linked file re-committed under another digest (text_or_binary change) has two cache names on one
    # inode; removing one of them must not make the other writable
    ('F23', {'algo': 2, 'method': 'copy', 'tob': 'auto'}, [parse_model_line(l) for l in [
        'write\td/h.bin\tc3a7c49fc3bc0aceb1ceb2ceb30a', 'track\t-\tauto\t0\t0\tünï/dätä.txt\ta.txt\td/h.bin', 'carryin\t-\t0\ta.txt',
        'carryin\t-\t0\ta.txt\tünï/dätä.txt\td/h.bin', 'copy\thardlink\t0\t0\td/h.bin\tg.bin', 'copy\tcopy\t0\t0\tg.bin\td/h.bin',
        'write\td/h.bin\t616c7068610a626574610a67616d6d610a233735', 'track\t-\tbinary\t0\t0\tg.bin\td/h.bin',
        'track\tcopy\tauto\t0\t0\tg.bin\tünï/dätä.txt\td/h.bin', 'carryin\ttext\t0\ta.txt', 'remove\t0\t1\tg.bin']]),
    # F27 (fixed): a hard link whose object was removed from the cache stays a read-only file (F23); untrack must still hand
    # back a writable file
    ('F27', DEF, [W('.hidden', b'l1\r\nl2\r\n'), T(['.hidden'], method='hardlink'), RC(['.hidden'], no_parallel=True),
                  {'op': 'remove', 'targets': ['.hidden'], 'all_versions': True}, {'op': 'untrack', 'targets': ['.hidden']}]),
    # F39 (fixed): carry-in --force of one path made the replaced object's inode writable: a sibling rechecked as hardlink, which
    # shares that inode, became a writable file
    ('F39', DEF, [W('.hidden', b'bin\x00three'), T(['.hidden'], no_parallel=True), {'op': 'copy', 'src': '.hidden', 'dst': 'd/noext2', 'method': 'copy'},
                  RC(['.hidden'], method='reflink', force=True), RC(['d/noext2'], method='hardlink'), CI(['.hidden'], force=True, no_parallel=True)]),
    ('versions', DEF, [W('a.txt', b'v1\n'), T(['a.txt']), W('a.txt', b'v2\n'), CI(['a.txt']), W('a.txt', b'v3\n'), T(['a.txt']), {'op': 'delete', 'path': 'a.txt'}, RC(['a.txt'], method='hardlink')]),
    ('share', {'algo': 2, 'method': 'hardlink', 'tob': 'auto'}, [W('a.txt', b'dup\n'), W('b.txt', b'dup\n'), T(['a.txt', 'b.txt']), {'op': 'remove', 'targets': ['a.txt']},
                                                                  {'op': 'untrack', 'targets': ['a.txt']}, RC(['b.txt'], method='copy')]),
    # the same bytes committed under two EXTENSIONS share the digest directory, not the object (0.bin / 0.bak): in two commands
    # and in one; and a digest directory that exists and is empty (left by a command that failed between mkdir and rename) is
    # not an object
    ('cross-extension-two-commands', DEF, [W('model.bin', b'\x00weights\n' * 9), T(['model.bin']), W('model.bak', b'\x00weights\n' * 9), T(['model.bak']),
                                           {'op': 'delete', 'path': 'model.bin'}, {'op': 'delete', 'path': 'model.bak'}, RC(['model.bak']), RC(['model.bin'])]),
    ('cross-extension-one-command', {'algo': 1, 'method': 'symlink', 'tob': 'auto'}, [W('d/data.csv', b'1,2\n3,4\n'), W('d/data.txt', b'1,2\n3,4\n'), W('d/data', b'1,2\n3,4\n'),
                                    T(['d/data.csv', 'd/data.txt', 'd/data']), {'op': 'delete', 'path': 'd/data.txt'}, {'op': 'delete', 'path': 'd/data'},
                                    {'op': 'delete', 'path': 'd/data.csv'}, RC(['d/data.csv', 'd/data.txt', 'd/data'], no_parallel=True)]),
    ('empty-digest-directory', DEF, [W('ckpt.bin', b'\x00\x01checkpoint'), {'op': 'emptydir', 'path': 'ckpt.bin'}, T(['ckpt.bin']), {'op': 'delete', 'path': 'ckpt.bin'},
                                     RC(['ckpt.bin'])]),
    # an edit that keeps the size and lands in the same whole second as the recorded modification time (other nanoseconds) is
    # an edit: carry-in (--force) commits it as a NEW version at the address of ITS bytes
    ('same-second-edit-force', {'algo': 2, 'method': 'copy', 'tob': 'binary'}, [
        W('data.bin', b'first  version of data.bin\n'), T(['data.bin']), dict(W('data.bin', b'SECOND version of data.bin\n'), same_second=True),
        CI(['data.bin'], force=True), {'op': 'delete', 'path': 'data.bin'}, RC(['data.bin'])]),
    ('same-second-edit', DEF, [W('a.txt', b'v1 aaaa\n'), T(['a.txt'], method='hardlink'), dict(W('a.txt', b'v2 bbbb\n'), same_second=True), CI(['a.txt']),
                               dict(W('a.txt', b'v3 cccc\n'), same_second=True), T(['a.txt']), dict(W('a.txt', b'v4 dddd\n'), same_second=True),
                               RC(['a.txt'], method='copy'), CI(['a.txt'], force=True)]),
    # a tracked file that is in the workspace while its recorded version is NOT in the cache (--no-commit, remove --from-cache):
    # recheck with another method / --force has nothing to restore it from and leaves the file alone
    ('uncached-recheck-as', DEF, [W('notes.txt', b'only copy\n'), T(['notes.txt'], no_commit=True), RC(['notes.txt'], method='symlink'),
                                  RC(['notes.txt'], method='hardlink'), RC(['notes.txt'], method='reflink', no_parallel=True), RC(['notes.txt'], force=True)]),
    ('removed-recheck-force', {'algo': 3, 'method': 'copy', 'tob': 'auto'}, [W('g.bin', b'\x00only copy'), W('a.txt', b'other\n'), T(['g.bin', 'a.txt']),
                              {'op': 'remove', 'targets': ['g.bin']}, RC(['g.bin'], method='symlink'), RC(['g.bin', 'a.txt'], method='hardlink'), RC(['g.bin'], force=True)]),
    # the move into the cache fails (a non-directory in the way of the new digest's address): the command fails, the file stays
    ('cache-blocked-carry-in', DEF, [W('a.txt', b'v1\n'), T(['a.txt']), W('a.txt', b'version two, not saved anywhere else\n'), CI(['a.txt'], cache_blocked=['a.txt'])]),
    ('cache-blocked-track', {'algo': 2, 'method': 'symlink', 'tob': 'auto'}, [W('a.txt', b'v1\n'), W('g.bin', b'\x00new'), T(['a.txt']),
                                                                             T(['g.bin', 'a.txt'], cache_blocked=['g.bin'], no_parallel=True)]),
]

# replays of known findings (open): judged by the oracles alone, never part of the differential stream
KNOWN_REPLAYS = [
    ('K1-crlf', DEF, [W('lf.txt', b'l1\nl2\n'), W('crlf.txt', b'l1\r\nl2\r\n'), T(['lf.txt'], no_parallel=True), T(['crlf.txt'], no_parallel=True)]),
    # two paths share one object, so for one of them the object's mtime differs from the recorded one and the digest is
    # recomputed with the configured (auto) mode instead of the recorded (binary) one
    ('K17-same-method', DEF, [W('f.txt', b'hello\n'), T(['f.txt'], method='symlink'), W('f.txt', b'hello\n'), RC(['f.txt'], method='symlink')]),
]


def shrink_history(r, cfg, h, oracles, restore, sig):
    """greedy minimisation of a failing history: drop one command at a time (last to first) as long as an oracle still reports
    a failure of the same kind; returns (history, message of the failure on it)"""
    def failure_on(hh):
        res = {}
        try:
            steps = r.run_history('shrink', cfg, hh, [restore_hook_factory(res, **restore)] if restore is not None else None)
        except Exception:
            return None
        fl = []
        for o in oracles:
            fl += o(steps, cfg, hh)
        fl += res.get('failures', [])
        for m, s2 in fl:
            if s2.get('kind') == sig.get('kind'):
                return m
        return None
    cur, msg = [dict(c) for c in h], None
    i = len(cur) - 1
    while i >= 0 and len(cur) > 1:
        cand = cur[:i] + cur[i + 1:]
        m = failure_on(cand)
        if m:
            cur, msg = cand, m
        i -= 1
    return cur, msg


def run_property(chk, pid, oracles, want=('main',), restore=None, nq=280, nt=3000, maxlen=12, extra_corpus=(), before_finish=None, fault_stream=0, extra_props=()):
    """oracles: list of step-level oracle functions; restore: dict of kwargs for restore_hook_factory or None"""
    quick = chk.tier == 'quick'
    model = chk.lean('XvcRepo', f'XvcRepo.Props.{pid}', exe='repomodel', extra_modules=['XvcRepo.Model', 'XvcRepo.Cache', 'XvcRepo.NoLoss', 'XvcRepo.RecGrow'])
    for extra in extra_props:          # further property files of the same property (command-level theorems)
        chk.lean('XvcRepo', extra, exe=None, extra_modules=['XvcRepo.Materialise'])
    xvc = chk.build_xvc()
    r = Runner(chk, xvc, model)
    chk.repo_ctx = {'xvc': xvc, 'model': model, 'runner': r}          # for the before_finish streams of the property files
    have_model = os.path.exists(model)
    chk.trusted_base += [
        'binary harness lib/repo_harness.py + lib/repo_check.py (scratch repositories driven by the rebuilt xvc binary, independent JSON event-file replayer, independent hashers lib/hashref.py: hashlib + pure-python BLAKE3 checked against published vectors)',
        'modelled, not verified: hash functions (perfect hashes in the model: collision freedom of BLAKE3/BLAKE2s/SHA2-256/SHA3-256 is assumed), the kernel file system (rename/link/symlink/chmod), rayon parallelism below per-file granularity, git (only used to snapshot/checkout in C04), .gitignore side effects (C16)',
    ]
    chk.assumptions += ['a user edit replaces the file (unlink + create) and changes mtime or size (hypothesis ShortcutSoundAt / SoundRun of the C02 theorems)',
                        'generated histories stay inside the fragment without open known findings (no two contents equal after CR/LF stripping, copy/move keep the extension, no text_or_binary override on symlinked files, no move of an absent source); the known-finding replays exercise those regions with the oracles only']
    n = nq if quick else nt
    items = [(f'corpus-{name}', cfg, h) for name, cfg, h in list(CORPUS) + list(extra_corpus)]
    for i in range(n):
        cfg, h = gen_history(chk.rng, maxlen=maxlen)
        items.append((f'h{i}', cfg, h))
    results_by_item = {}

    def hooks_factory_for(name):
        def f():
            if restore is None:
                return None
            res = results_by_item.setdefault(name, {})
            return [restore_hook_factory(res, **restore)]
        return f
    # run (hooks need per-item state)
    from concurrent.futures import ThreadPoolExecutor

    def one(it):
        name, cfg, h = it
        try:
            hk = hooks_factory_for(name)()
            return r.run_history(name, cfg, h, hk)
        except Exception as ex:
            import traceback
            return [{'i': -1, 'cmd': {'op': 'harness-error'}, 'rc': -1, 'err': traceback.format_exc()[-800:], 'abs': 'harness-error', 'pre': None, 'post': None, 'out': ''}]
    with ThreadPoolExecutor(max_workers=16) as ex:
        all_steps = list(ex.map(one, items))
    mod = r.model_answers([(c, h) for _, c, h in items]) if have_model else [[None] * len(h) for _, _, h in items]
    st_tie = chk.tie['streams'].setdefault('repo-histories', {'histories': 0, 'commands': 0, 'disagreements': 0, 'panics': 0})
    first_dis = None
    for (name, cfg, h), steps, m in zip(items, all_steps, mod):
        chk.evaluations += 1
        st_tie['histories'] += 1
        for c in h:
            chk.count('op:' + c['op'])
            for k in ('method', 'tob', 'force', 'no_commit', 'all_versions', 'only_version', 'no_recheck', 'no_parallel', 'restore_versions'):
                if c.get(k): chk.count(f"opt:{c['op']}.{k}" + (f"={c[k]}" if isinstance(c[k], str) and k != 'restore_versions' else ''))
        chk.count(f"cfg:algo={cfg['algo']}"); chk.count(f"cfg:method={cfg['method']}"); chk.count(f"cfg:tob={cfg['tob']}")
        if steps and steps[0]['cmd']['op'] == 'harness-error':
            chk.disagreement('repo-histories', [show_cmd(c) for c in h], steps[0]['err'], '', 'harness error')
            continue
        xs = [s for s in steps if s['cmd']['op'] not in ('write', 'delete')]
        if len(xs) >= 2 and any(s['post'].cache for s in steps if s['post']):
            chk.nontrivial.add(hashlib.sha1(json.dumps([rh.model_line(c) for c in h]).encode()).hexdigest())
        hm = list(h)          # the history as given to the model (targets possibly re-ordered, see below)
        k = 0
        while k < len(steps):
            s, ml = steps[k], m[k]
            st_tie['commands'] += 1
            if s['rc'] not in (0, 1): st_tie['panics'] += 1
            chk.count(f"rc:{s['rc']}")
            if s['cmd'].get('restore_versions'):
                chk.count(f"untrack-restore:{'copy-fault-injected' if s['cmd'].get('block') else 'no-fault'}:rc={s['rc']}:files-written={min(len(s.get('restored', {})), 4)}")
            if ml is None:
                k += 1; continue
            d = compare_step(s, ml)
            if d:
                # xvc processes the selected entities in HashMap (or rayon) order, the model in list order. With
                # duplicates among the targets the outcome may depend on that order (which file's inode - and mtime -
                # becomes the shared object), and the difference may surface only in a later command.  The model is
                # asked again with every permutation of the targets of this or an earlier multi-target command.
                import itertools
                for j in range(k, -1, -1):
                    if d is None or len(hm[j].get('targets', [])) < 2:
                        continue
                    for perm in itertools.permutations(hm[j]['targets']):
                        if list(perm) == hm[j]['targets']:
                            continue
                        h2 = hm[:j] + [dict(hm[j], targets=list(perm))] + hm[j + 1:]
                        m2 = r.model_answers([(cfg, h2)])[0]
                        if all(not compare_step(steps[i], m2[i]) for i in range(j, k + 1)):
                            hm, m, d = h2, m2, None
                            chk.count('order-permutation-needed')
                            break
            if d:
                st_tie['disagreements'] += 1
                if first_dis is None:
                    first_dis = (name, cfg, hm, s, ml, d)
                break
            k += 1
        # oracles
        fails = []
        for o in oracles:
            fails += o(steps, cfg, h)
        fails += results_by_item.get(name, {}).get('failures', [])
        for k, v in results_by_item.get(name, {}).items():
            if k in ('restores', 'old_commit_restores') or k.startswith('damage:'):
                chk.distribution[k] = chk.distribution.get(k, 0) + v
        seen = set()
        for msg, sig in fails:
            key = json.dumps(sig, sort_keys=True)
            if key in seen: continue
            seen.add(key)
            # the failing input: the history up to the command the oracle names (what follows does not matter to the verdict)
            import re
            mm = re.match(r'(?:after )?step (\d+)\b', msg)
            hh = h[:int(mm.group(1)) + 1] if mm else h
            n_before = len(chk.oracle_failures)
            chk.oracle_failure(msg, {'cfg': cfg, 'history': [rh.model_line(c) for c in hh], 'readable': [show_cmd(c) for c in hh]}, None, signature=sig)
            if len(chk.oracle_failures) > n_before and n_before < 2:
                # a new (not known) failure: minimise the first ones by dropping commands while the same kind of failure remains
                small, msg2 = shrink_history(r, cfg, hh, oracles, restore, sig)
                if msg2 and len(small) < len(hh):
                    chk.oracle_failures[-1].update(what=msg2, case={'cfg': cfg, 'history': [rh.model_line(c) for c in small], 'readable': [show_cmd(c) for c in small],
                                                                    'minimised_from': f'{name} ({len(hh)} commands)'})
        if len(chk.samples) < 5 and len(xs) >= 3 and st_tie['histories'] % 9 == 3:
            chk.samples.append({'cfg': cfg, 'history': [show_cmd(c) for c in h], 'final_abstraction_implementation': steps[-1]['abs'][:600],
                                'final_abstraction_model': (m[len(steps) - 1] or '')[:600]})
    if first_dis:
        name, cfg, h, s, ml, d = first_dis
        chk.disagreement('repo-histories', {'cfg': cfg, 'history': [show_cmd(c) for c in h[:s['i'] + 1]], 'model_lines': [rh.model_line(c) for c in h[:s['i'] + 1]]},
                         s['abs'], ml, d)
    # known-finding replays: oracles only
    for name, cfg, h in KNOWN_REPLAYS:
        res = {}
        steps = r.run_history('known-' + name, cfg, h, [restore_hook_factory(res)] if restore is not None else None)
        fails = []
        for o in oracles:
            fails += o(steps, cfg, h)
        fails += res.get('failures', [])
        for msg, sig in fails:
            chk.oracle_failure(msg, {'cfg': cfg, 'history': [show_cmd(c) for c in h], 'replay_of': name}, None, signature=sig)
    chk.extra['rule'] = (f'{len(CORPUS) + len(extra_corpus)} corpus histories (replays of the repaired defects F1 F10 F11 F12 F13 and version/sharing scenarios) + {n} generated histories of '
                         f'3..{maxlen} commands (write/delete/track/carry-in/recheck/remove/untrack/copy/move with all their options, 4 algorithms, 3 text/binary modes, 4 methods, '
                         'parallel on/off, content classes empty/LF/CRLF/mixed/binary/NUL at 7999|8000/large/UTF-8/duplicates/long runs of line endings (prefix 0..3 read buffers x LF|CRLF|CR|mixed x run of 1..3 buffers, '
                         'two texts that differ only after the run), paths nested/no extension/space/non-ASCII/hidden; appended motifs: same-second edits, uncached versions, cross-extension duplicates, empty digest '
                         'directory, method-change (workspace state committed|edited|replaced|deleted x recorded method x requested method x --force, then delete + plain recheck), earlier-version (X current '
                         'version of one path and earlier version of another, then untrack|remove of one of them)); '
                         'after EVERY command the abstraction of the real repository (workspace kinds+bytes+mode+link target, cache objects+modes, records replayed from the JSON event files) '
                         'is compared with the Lean driver; a history is non-trivial when it has >= 2 xvc commands and a non-empty cache; distinct by command list')
    if fault_stream:
        run_fault_stream(chk, r, oracles, fault_stream)
    if before_finish:
        before_finish()
    return chk.finish()


def replay_property(chk, data, oracles, restore=None):
    xvc = chk.build_xvc()
    r = Runner(chk, xvc, '/bin/false')
    for f in data.get('failures', []):
        case = f['case']
        h = [c for c in (parse_model_line(l) for l in case.get('history', [])) if c]
        if not h:
            print('replay file has no machine-readable history (known-finding replay): see lib/repo_check.py KNOWN_REPLAYS'); continue
        res = {}
        steps = r.run_history('replay', case['cfg'], h, [restore_hook_factory(res)] if restore is not None else None)
        fails = []
        for o in oracles: fails += o(steps, case['cfg'], h)
        fails += res.get('failures', [])
        chk.evaluations += 1
        for c, s in zip(h, steps): print(' ', show_cmd(c), '-> rc', s['rc'])
        print('oracle:', [m for m, _ in fails] or 'property holds on this input')
        for msg, sig in fails:
            chk.oracle_failure(msg, case, None, signature=sig)
    return chk.finish()
