"""C08 — Metadata stores replay to exactly what was written.

Proof: lean/XvcEcs (Props.lean).  Tie: correspondence of the executable model (lean_exe `ecsmodel`)
with the real xvc-ecs code (harness bin `ecs_harness`) on generated operation streams.
Oracle: an independent reference (python dict + replay of the event files) evaluated on the
implementation's answers.
"""
import itertools, os, hashlib
from common import Check, run_lines, shrink, VERIF

ENTS2, VALS2 = [1, 2], ['a', 'b']
QUERIES = ['q map', 'q entfor a', 'q entfor b', 'q ebyval a', 'q ebyval b', 'q indexmap']
TAIL = QUERIES + ['save', 'load'] + QUERIES + ['save', 'q map']

CORPUS = [
    # F2 (fixed): stale reverse index after insert over an occupied entity
    ['ins 1 a', 'ins 1 b', 'q entfor a', 'q ebyval a', 'q entfor b'],
    # F2 (fixed): empty bucket makes index_map panic
    ['ins 1 a', 'rem 1', 'q indexmap', 'q entfor a'],
    ['ins 1 a', 'ins 2 a', 'upd 1 b', 'q entfor a', 'rem 2', 'q entfor a', 'q indexmap'],
    ['ins 1 a', 'ins 1 a', 'q entfor a', 'rem 1', 'q entfor a', 'q map'],
    # save twice in one session (current log is not cleared by to_dir)
    ['ins 1 a', 'save', 'rem 1', 'save', 'load', 'q map', 'q entfor a'],
]


def alphabet():
    ops = []
    for e in ENTS2:
        for v in VALS2:
            ops.append([f'ins {e} {v}'])
            ops.append([f'upd {e} {v}'])
        ops.append([f'rem {e}'])
    ops.append(['save', 'load'])
    return ops


def gen_exhaustive(maxlen):
    al = alphabet()
    for n in range(1, maxlen + 1):
        for combo in itertools.product(al, repeat=n):
            yield sum(combo, []) + TAIL


def gen_random(rng, n):
    ents, vals = [1, 2, 3, 4, 5], ['a', 'b', 'c']
    for _ in range(n):
        case = []
        for _ in range(rng.randint(3, 40)):
            r = rng.random()
            e, v = rng.choice(ents), rng.choice(vals)
            if r < 0.35: case.append(f'ins {e} {v}')
            elif r < 0.55: case.append(f'upd {e} {v}')
            elif r < 0.75: case.append(f'rem {e}')
            elif r < 0.82: case.append('save')
            elif r < 0.87: case += ['save', 'load']
            elif r < 0.90: case.append('load')          # reload without saving: drops the session
            else: case.append(rng.choice(['q map', f'q entfor {v}', f'q ebyval {v}', 'q indexmap', f'q log {e}']))
        yield case + ['q map', 'q entfor a', 'q entfor b', 'q entfor c', 'q indexmap', 'save', 'load', 'q map',
                      'q entfor a', 'q entfor b', 'q entfor c', 'q ebyval a', 'q ebyval b', 'q ebyval c', 'q indexmap']


def gen_merge(rng, n):
    """two branches from a common ancestor touching disjoint entities, saves interleaved in time"""
    vals = ['a', 'b', 'c']

    def ops(ents, k):
        out = []
        for _ in range(k):
            e, v = rng.choice(ents), rng.choice(vals)
            out.append(rng.choice([f'ins {e} {v}', f'upd {e} {v}', f'rem {e}']))
        return out
    for _ in range(n):
        case = ops([1, 2, 3, 4], rng.randint(0, 5)) + ['save', 'cpdir A B']
        ea, eb = ([1, 2], [3, 4]) if rng.random() < 0.7 else ([1, 3], [2, 4])
        for _ in range(rng.randint(1, 3)):
            case += ['dir A', 'load'] + ops(ea, rng.randint(1, 4)) + ['save']
            case += ['dir B', 'load'] + ops(eb, rng.randint(1, 4)) + ['save']
        if rng.random() < 0.5:
            case += ['merge A B', 'dir A', 'load', 'q map', 'q entfor a', 'q entfor b', 'q entfor c']
        else:
            case += ['merge B A', 'dir B', 'load', 'q map', 'q entfor a', 'q entfor b', 'q entfor c']
        yield case


def gen_gensessions(rng, n):
    for _ in range(n):
        yield [f'gen-session {rng.choice([0, 0, 1, 1, 2, 3, 5])}' for _ in range(rng.randint(1, 6))]


def gen_r1n(rng, n):
    for _ in range(n):
        case = []
        for _ in range(rng.randint(2, 25)):
            r = rng.random()
            pe, ce = rng.choice([1, 2, 3]), rng.choice([10, 11, 12, 13])
            if r < 0.5: case.append(f'r1n-ins {pe} {rng.choice(["p", "q"])} {ce} {rng.randint(0, 3)}')
            elif r < 0.6: case.append(f'r1n-rmchild {ce}')
            elif r < 0.7: case += ['r1n-save', 'r1n-load']
            elif r < 0.85: case.append(f'r1n-children {pe}')
            else: case.append(f'r1n-parent {ce}')
        yield case + ['r1n-q', 'r1n-children 1', 'r1n-children 2', 'r1n-children 3', 'r1n-parent 10', 'r1n-parent 11',
                      'r1n-save', 'r1n-load', 'r1n-q', 'r1n-children 1', 'r1n-children 2', 'r1n-parent 12']


def _pairs(rng, ents, vals, kmax=4):
    n = rng.randint(0, kmax)
    if n == 0: return '-'
    items = []
    for _ in range(n):
        items.append(f'{rng.choice(ents)}:{rng.choice(vals)}')
    return ','.join(items)          # a repeated entity is allowed: the last binding wins (HashMap insert)


def _diffs(rng, ents, vals, kmax=5):
    n = rng.randint(0, kmax)
    if n == 0: return '-'
    items = []
    for _ in range(n):
        k = rng.choice(['I', 'S', 'RM', 'AM', 'D', 'D', 'RM', 'AM'])
        e = rng.choice(ents)
        if k in ('I', 'S'): items.append(f'{e}={k}')
        elif k in ('RM', 'AM'): items.append(f'{e}={k}:{rng.choice(vals)}')
        else: items.append(f'{e}=D:{rng.choice(vals)}:{rng.choice(vals)}')
    return ','.join(items)


def gen_diff(rng, n):
    """the diff layer (core/src/types/diff.rs): diff_store, apply_diff, update_with_actual with every flag combination, with diff
    stores computed from actual values and with arbitrary ones (stale records, Skipped, Identical), between ordinary operations,
    saves and reloads.  After an apply the bucket order depends on the HashMap order of the diff store, so until the next reload only
    order-free queries are asked (`q sentfor`, `q map`)."""
    ents, vals = [1, 2, 3, 4, 5, 6], ['a', 'b', 'c']
    for _ in range(n):
        case, canonical = [], True
        for _ in range(rng.randint(2, 18)):
            r = rng.random()
            e, v = rng.choice(ents), rng.choice(vals)
            if r < 0.20: case.append(f'ins {e} {v}')
            elif r < 0.27: case.append(f'rem {e}')
            elif r < 0.32: case.append(f'upd {e} {v}')
            elif r < 0.42:
                sub = 'all' if rng.random() < 0.6 else ','.join(str(x) for x in rng.sample(ents, rng.randint(1, 4)))
                case.append(f'diff {_pairs(rng, ents, vals)} {sub}')
            elif r < 0.62:
                case.append(f'{rng.choice(["adiff", "uwa"])} {rng.randint(0, 1)} {rng.randint(0, 1)} {_pairs(rng, ents, vals, 5)}'); canonical = False
            elif r < 0.74:
                case.append(f'{rng.choice(["adiffx", "uwax"])} {rng.randint(0, 1)} {rng.randint(0, 1)} {_diffs(rng, ents, vals)}'); canonical = False
            elif r < 0.82: case += ['save', 'load']; canonical = True
            elif r < 0.86: case.append('save')
            elif r < 0.90: case.append('load'); canonical = True
            else:
                case.append(rng.choice(['q map', f'q sentfor {v}'] + ([f'q entfor {v}', f'q ebyval {v}', 'q indexmap'] if canonical else [])))
        yield case + ['q map', 'q sentfor a', 'q sentfor b', 'q sentfor c', 'save', 'load', 'q map', 'q entfor a', 'q entfor b',
                      'q entfor c', 'q ebyval a', 'q indexmap', 'q log 1', 'q log 2']


def gen_r11(rng, n):
    """1-1 stores (ecs/src/ecs/r11store.rs): inserts (also over an occupied entity, also a left value already held by another
    entity), removes, every lookup, filter, save/load boundaries."""
    ents, lefts, rights = [1, 2, 3, 4], ['p', 'q', 'r'], [10, 20, 30]
    for _ in range(n):
        case = []
        uniq = rng.random() < 0.5            # half of the cases keep left values unique (the intended use of a 1-1 store)
        for _ in range(rng.randint(2, 22)):
            r = rng.random()
            e = rng.choice(ents)
            if r < 0.40:
                l = f'{rng.choice(lefts)}{e}' if uniq else rng.choice(lefts)
                case.append(f'r11-ins {e} {l} {rng.choice(rights)}')
            elif r < 0.52: case.append(f'r11-rem {e}')
            elif r < 0.60: case += ['r11-save', 'r11-load']
            elif r < 0.63: case.append('r11-save')
            elif r < 0.66: case.append('r11-load')
            else:
                l = f'{rng.choice(lefts)}{rng.choice(ents)}' if uniq else rng.choice(lefts)
                case.append(rng.choice([f'r11-tuple {e}', f'r11-l2r {e}', f'r11-r2l {e}', f'r11-ebl {l}', f'r11-ebr {rng.choice(rights)}',
                                        f'r11-lbl {l}', f'r11-lbr {rng.choice(rights)}', f'r11-filter {rng.choice([0, 15, 25, 99])}', 'r11-q']))
        yield case + ['r11-q', 'r11-tuple 1', 'r11-tuple 2', 'r11-lbr 10', 'r11-lbr 20', 'r11-ebr 30', 'r11-filter 15',
                      'r11-save', 'r11-load', 'r11-q', 'r11-tuple 1', 'r11-l2r 2', 'r11-r2l 3', 'r11-lbr 10', 'r11-ebr 20']


# ----------------------------------------------------------------------------------------------
# independent oracle (python): what the property demands of the implementation's answers

class Ref:
    def __init__(self):
        self.map = {}
        self.cur = 'A'
        self.dirs = {}          # name -> list of (global save order, events)
        self.pending = []       # events of the current session (since new/load)
        self.clock = 0
        self.gen_all = []
        self.gen_files = 0
        self.r_par, self.r_child, self.r_cp = {}, {}, {}
        self.r_saved = None
        self.l11, self.r11, self.saved11 = {}, {}, None

    def check(self, line, ans):
        """returns None or a description of the violated clause"""
        t = line.split(' ')
        op = t[0]
        if op in ('ins', 'upd'):
            e, v = int(t[1]), t[2]
            prev = self.map.get(e)
            if op == 'upd' and prev is not None:
                self.pending.append((e, None))
            self.map[e] = v
            self.pending.append((e, v))
            want = f'ret=some({prev})' if prev is not None else 'ret=none'
            if op == 'upd':
                # `update` returns the result of the inner insert (always None after the remove); its doc comment
                # promises the previous value, but C08 says nothing about return values: compared with the model only.
                return f'{line}: panic' if ans == 'panic' else None
            return None if ans == want else f'{line}: returned {ans}, a plain map returns {want}'
        if op == 'rem':
            e = int(t[1])
            prev = self.map.pop(e, None)
            if prev is not None:
                self.pending.append((e, None))
            want = f'ret=some({prev})' if prev is not None else 'ret=none'
            return None if ans == want else f'{line}: returned {ans}, a plain map returns {want}'
        if op == 'new':
            self.map, self.pending = {}, []
        elif op == 'save':
            d = self.dirs.setdefault(self.cur, [])
            if self.pending:
                self.clock += 1
                d.append((self.clock, list(self.pending)))
            want = f'files={len(d)}'
            return None if ans == want else f'save: directory has {ans}, append-only saving gives {want}'
        elif op == 'load':
            m = {}
            for _, evs in sorted(self.dirs.get(self.cur, []), key=lambda f: f[0]):
                for e, v in evs:
                    if v is None: m.pop(e, None)
                    else: m[e] = v
            self.map, self.pending = m, []
        elif op == 'dir':
            self.cur = t[1]
        elif op == 'cpdir':
            self.dirs[t[2]] = list(self.dirs.get(t[1], []))
        elif op == 'merge':
            a, b = self.dirs.setdefault(t[1], []), self.dirs.get(t[2], [])
            have = {f[0] for f in a}
            a += [f for f in b if f[0] not in have]
        elif line == 'q map':
            want = '{' + ','.join(f'{e}:{v}' for e, v in sorted(self.map.items())) + '}'
            return None if ans == want else f'q map: {ans} but an ordinary map holds {want}'
        elif op == 'q' and t[1] == 'entfor':
            holders = sorted(e for e, v in self.map.items() if v == t[2])
            if ans == 'panic': return f'{line}: panic'
            got = [] if ans == 'none' else sorted(int(x) for x in ans.strip('[]').split(',') if x)
            return None if got == holders else f'{line}: {ans} but the holders are {holders}'
        elif op == 'q' and t[1] == 'sentfor':
            holders = sorted(e for e, v in self.map.items() if v == t[2])
            if ans == 'panic': return f'{line}: panic'
            got = [] if ans == 'none' else [int(x) for x in ans.strip('[]').split(',') if x]
            return None if got == holders else f'{line}: {ans} but the holders are {holders}'
        elif op == 'diff':
            acts = {}
            if t[1] != '-':
                for it in t[1].split(','):
                    e, v = it.split(':'); acts[int(e)] = v
            ents = sorted(set(self.map) | set(acts)) if t[2] == 'all' else sorted({int(x) for x in t[2].split(',')})
            want = []
            for e in ents:
                r, a = self.map.get(e), acts.get(e)
                if r is None and a is None: continue
                want.append(f'{e}=' + (f'RM:{a}' if r is None else f'AM:{r}' if a is None else 'I' if r == a else f'D:{r}:{a}'))
            want = '[' + ','.join(want) + ']'
            return None if ans == want else f'{line}: {ans} but records {self.map} against actual values {acts} differ as {want}'
        elif op in ('adiff', 'uwa', 'adiffx', 'uwax'):
            an, rm = t[1] == '1', t[2] == '1'
            if op in ('adiff', 'uwa'):
                acts = {}
                if t[3] != '-':
                    for it in t[3].split(','):
                        e, v = it.split(':'); acts[int(e)] = v
                for e in sorted(set(self.map) | set(acts)):
                    r, a = self.map.get(e), acts.get(e)
                    if r is None and a is not None and an: self.map[e] = a; self.pending.append((e, a))
                    elif r is not None and a is None and rm: del self.map[e]; self.pending.append((e, None))
                    elif r is not None and a is not None and r != a: self.map[e] = a; self.pending.append((e, a))
            else:
                last = {}
                if t[3] != '-':
                    for it in t[3].split(','):
                        e, d = it.split('='); last[int(e)] = d.split(':')
                for e, d in last.items():
                    if d[0] == 'RM' and an: self.map[e] = d[1]; self.pending.append((e, d[1]))
                    elif d[0] == 'AM' and rm and e in self.map: del self.map[e]; self.pending.append((e, None))
                    elif d[0] == 'D': self.map[e] = d[2]; self.pending.append((e, d[2]))
        elif op == 'r11-new':
            self.l11, self.r11 = {}, {}
        elif op == 'r11-ins':
            self.l11[int(t[1])] = t[2]; self.r11[int(t[1])] = int(t[3])
        elif op == 'r11-rem':
            self.l11.pop(int(t[1]), None); self.r11.pop(int(t[1]), None)
        elif op == 'r11-save':
            self.saved11 = (dict(self.l11), dict(self.r11))
        elif op == 'r11-load':
            self.l11, self.r11 = (dict(self.saved11[0]), dict(self.saved11[1])) if self.saved11 else ({}, {})
        elif op == 'r11-q':
            want = 'left={' + ','.join(f'{e}:{v}' for e, v in sorted(self.l11.items())) + '} right={' + ','.join(f'{e}:{v}' for e, v in sorted(self.r11.items())) + '}'
            return None if ans == want else f'{line}: {ans} but a plain map of pairs holds {want}'
        elif op == 'r11-tuple':
            e = int(t[1])
            want = (f'some({self.l11[e]})' if e in self.l11 else 'none') + '|' + (f'some({self.r11[e]})' if e in self.r11 else 'none')
            return None if ans == want else f'{line}: {ans}, expected {want}'
        elif op in ('r11-l2r', 'r11-r2l'):
            e = int(t[1]); m = self.r11 if op == 'r11-l2r' else self.l11
            want = f'{e}:{m[e]}' if e in m else 'none'
            return None if ans == want else f'{line}: {ans}, expected {want}'
        elif op == 'r11-ebl':
            holders = sorted(e for e, v in self.l11.items() if v == t[1])
            if len(holders) >= 2:      # the documented panic of a 1-1 lookup on a value held twice; answering with a holder is fine too
                return None if ans == 'panic' or (ans.isdigit() and int(ans) in holders) else f'{line}: {ans} but the holders are {holders}'
            want = str(holders[0]) if holders else 'none'
            return None if ans == want else f'{line}: {ans} but the holders are {holders}'
        elif op == 'r11-ebr':
            holders = sorted(e for e, v in self.r11.items() if v == int(t[1]))
            if ans == 'none': return None if not holders else f'{line}: none but the holders are {holders}'
            if ans == 'panic': return f'{line}: panic'
            return None if int(ans) in holders else f'{line}: {ans} is not a holder ({holders})'
        elif op in ('r11-lbl', 'r11-lbr'):
            if ans == 'panic': return f'{line}: panic'
            if op == 'r11-lbl':
                cands = sorted(str(self.r11[e]) for e, v in self.l11.items() if v == t[1] and e in self.r11)
            else:
                cands = sorted(self.l11[e] for e, v in self.r11.items() if v == int(t[1]) and e in self.l11)
            if ans == 'none': return None if not cands else f'{line}: none but the other side of the holders is {cands}'
            return None if ans[5:-1] in cands else f'{line}: {ans} is not the other side of a holder ({cands})'
        elif op == 'r11-filter':
            k = int(t[1])
            keep = sorted(e for e in self.l11 if e in self.r11 and self.r11[e] >= k)
            want = 'left={' + ','.join(f'{e}:{self.l11[e]}' for e in keep) + '} right={' + ','.join(f'{e}:{self.r11[e]}' for e in keep) + '}'
            return None if ans == want else f'{line}: {ans}, expected {want}'
        elif op == 'q' and t[1] == 'ebyval':
            holders = sorted(e for e, v in self.map.items() if v == t[2])
            if ans == 'none': return None if not holders else f'{line}: none but the holders are {holders}'
            if ans == 'panic': return f'{line}: panic'
            return None if int(ans) in holders else f'{line}: {ans} is not a holder ({holders})'
        elif line == 'q indexmap':
            if ans == 'panic': return 'q indexmap: panic'
            vals = sorted(set(self.map.values()))
            got = sorted(x.split(':')[0] for x in ans.strip('{}').split(',') if x)
            if got != vals: return f'q indexmap: keys {got} but the values held are {vals}'
            for x in ans.strip('{}').split(','):
                if x:
                    v, e = x.split(':')
                    if self.map.get(int(e)) != v: return f'q indexmap: {v}->{e} but entity {e} holds {self.map.get(int(e))}'
        elif op == 'gen-session':
            if ans == 'panic': return f'{line}: panic'
            ents = [int(x) for x in ans.split(' ')[0].strip('[]').split(',') if x]
            files = int(ans.split('files=')[1])
            for e in ents:
                if e in self.gen_all: return f'{line}: entity {e} handed out twice (earlier: {self.gen_all})'
                if self.gen_all and e <= max(self.gen_all): return f'{line}: entity {e} not above earlier ones {self.gen_all}'
                self.gen_all.append(e)
            if len(ents) != int(t[1]): return f'{line}: {len(ents)} entities'
            if files < self.gen_files: return f'{line}: counter files decreased {self.gen_files} -> {files}'
            self.gen_files = files
        elif op == 'r1n-ins':
            pe, pc, ce, cc = int(t[1]), t[2], int(t[3]), int(t[4])
            prev = self.r_cp.get(ce)
            self.r_par[pe] = pc; self.r_child[ce] = cc; self.r_cp[ce] = pe
            want = f'ret=some({prev})' if prev is not None else 'ret=none'
            return None if ans == want else f'{line}: {ans}, expected {want}'
        elif op == 'r1n-rmchild':
            self.r_child.pop(int(t[1]), None); self.r_cp.pop(int(t[1]), None)
        elif op == 'r1n-children':
            want = '[' + ','.join(f'{c}:{self.r_child[c]}' for c in sorted(self.r_cp) if self.r_cp[c] == int(t[1]) and c in self.r_child) + ']'
            return None if ans == want else f'{line}: {ans}, but the recorded children are {want}'
        elif op == 'r1n-parent':
            ce = int(t[1])
            want = 'none' if ce not in self.r_cp else f'{self.r_cp[ce]}:{self.r_par[self.r_cp[ce]]}'
            return None if ans == want else f'{line}: {ans}, but the recorded parent is {want}'
        elif op == 'r1n-save':
            self.r_saved = (dict(self.r_par), dict(self.r_child), dict(self.r_cp))
        elif op == 'r1n-load':
            if self.r_saved:
                self.r_par, self.r_child, self.r_cp = (dict(x) for x in self.r_saved)
            else:
                self.r_par, self.r_child, self.r_cp = {}, {}, {}
        if ans == 'panic':
            return f'{line}: panic'
        return None


def run_cases(chk, stream, cases, impl, model):
    """run a batch of cases through both processes; returns list of (case, impl_answers, model_answers, oracle_msgs)"""
    lines = []
    for c in cases:
        lines += c + ['reset']
    sdir = os.path.join(chk.scratch, 'ecs')
    os.makedirs(sdir, exist_ok=True)
    rc1, out_i, err_i = run_lines(impl, [sdir], lines)
    rc2, out_m, err_m = run_lines(model, [], lines)
    if rc1 != 0 or rc2 != 0:
        chk.disagreement(stream, cases[0] if cases else [], f'harness rc={rc1} {err_i[-500:]}', f'model rc={rc2} {err_m[-500:]}', 'process failure')
        return []
    res = []
    ii = mi = 0
    for c in cases:
        a_i, a_m, oracle = [], [], []
        for _ in range(len(c) + 1):
            while ii < len(out_i) and out_i[ii].startswith('#oracle'):
                oracle.append(out_i[ii][8:]); ii += 1
            a_i.append(out_i[ii] if ii < len(out_i) else '<eof>'); ii += 1
            a_m.append(out_m[mi] if mi < len(out_m) else '<eof>'); mi += 1
        # oracle lines are printed just before the answer to `reset`
        res.append((c, a_i[:-1], a_m[:-1], oracle))
    return res


def judge(chk, stream, results):
    st = chk.tie['streams'].setdefault(stream, {'cases': 0, 'lines': 0, 'disagreements': 0, 'oracle_failures': 0})
    bad = []
    for case, a_i, a_m, oracle in results:
        st['cases'] += 1; st['lines'] += len(case)
        chk.evaluations += 1
        for l in case:
            chk.count('op:' + l.split(' ')[0] + ('-' + l.split(' ')[1] if l.startswith('q ') else ''))
        muts = sum(1 for l in case if l.split(' ')[0] in ('ins', 'upd', 'rem', 'r1n-ins', 'r1n-rmchild', 'gen-session', 'adiff', 'uwa', 'adiffx', 'uwax', 'r11-ins', 'r11-rem'))
        if muts >= 2 and any(a not in ('ok', '{}', 'none', '[]', 'ret=none', '') for a in a_i):
            chk.nontrivial.add(hashlib.sha1('\n'.join(case).encode()).hexdigest())
        ref = Ref()
        msgs = list(oracle)
        for l, a in zip(case, a_i):
            m = ref.check(l, a)
            if m: msgs.append(m)
        if msgs:
            st['oracle_failures'] += 1
            bad.append(('oracle', case, msgs))
        if a_i != a_m:
            st['disagreements'] += 1
            k = next(i for i in range(len(case)) if a_i[i] != a_m[i])
            bad.append(('tie', case, (k, a_i[k], a_m[k])))
        if len(chk.samples) < 6 and muts >= 3 and st['cases'] % 7 == 1:
            chk.samples.append({'stream': stream, 'ops': case, 'implementation_answers': a_i, 'model_answers': a_m})
    return bad


def run(chk: Check):
    quick = chk.tier == 'quick'
    model = chk.lean('XvcEcs', 'XvcEcs.Props', exe='ecsmodel', extra_modules=['XvcEcs.Model', 'XvcEcs.Lemmas'])
    chk.lean('XvcEcs', 'XvcEcs.PropsRel', extra_modules=['XvcEcs.Rel'])
    bindir = chk.build_harness(['ecs_harness', 'ecs_gen_session'])
    impl = os.path.join(bindir, 'ecs_harness')
    chk.trusted_base += [
        'correspondence harness harness/src/bin/ecs_harness.rs (calls xvc_ecs::XvcStore/R1NStore/R11Store/XvcEntityGenerator and xvc_core::types::diff::{diff_store, apply_diff, update_with_actual} in-process) and lib/c08.py (generators, diff)',
        'modelled, not verified: serde_json encoding of events, std::fs, SystemTime-based file names (assumed strictly increasing per directory; the harness checks new files sort last), AtomicU64 counter, the random half of entities',
    ]
    chk.assumptions += ['event-file stamps strictly increase within a directory (hypotheses DirSorted/StampsOK of C08_reload and C08_gen_unique); observed by the harness on every save',
                        'component values in the tie are short ASCII tokens (serde encoding of arbitrary T is not modelled)']
    if not os.path.exists(model):
        chk.notes.append('model driver did not build; only the implementation-side oracle can run')
    maxlen = 3 if quick else 5
    nrand = 1500 if quick else 60000
    nmerge = 300 if quick else 8000
    ngen = 25 if quick else 150
    nr1n = 300 if quick else 8000
    ndiff = 1500 if quick else 40000
    nr11 = 800 if quick else 20000
    chk.extra['rule'] = (f'corpus ({len(CORPUS)} fixed cases incl. the F2 replays); ALL op lists of length <= {maxlen} over the alphabet '
                         '{ins,upd}x{1,2}x{a,b}, rem x{1,2}, save+load (11 letters), each followed by a query block, a reload and the query block again; '
                         f'{nrand} random lists (<=40 ops, 5 entities, 3 values, saves/loads/queries interspersed); {nmerge} fork/merge scenarios '
                         f'(two branches, disjoint entities, saves interleaved in time, merged either way); {ngen} entity-generator histories (one process per session); '
                         f'{nr1n} random 1-N store histories; {nr11} random 1-1 store histories (every lookup, filter, duplicate left values, save/load); {ndiff} histories of the diff layer (diff_store / apply_diff / update_with_actual with all flag combinations, computed and arbitrary diff stores, between ordinary operations and reloads). A case is non-trivial when it has >= 2 mutating ops and some non-empty answer; distinct by op list.')
    streams = [('corpus', CORPUS), ('exhaustive', list(gen_exhaustive(maxlen))), ('random', list(gen_random(chk.rng, nrand))),
               ('merge', list(gen_merge(chk.rng, nmerge))), ('gen', list(gen_gensessions(chk.rng, ngen))), ('r1n', list(gen_r1n(chk.rng, nr1n))),
               ('r11', list(gen_r11(chk.rng, nr11))), ('diff', list(gen_diff(chk.rng, ndiff)))]
    chk.extra['exhaustive'] = False
    chk.extra['exhaustive_part'] = f'all {sum(11 ** k for k in range(1, maxlen + 1))} op lists of length <= {maxlen} over the 11-letter alphabet'
    have_model = os.path.exists(model)
    if not have_model:
        model = '/bin/cat'
    first_bad = {}
    for name, cases in streams:
        for i in range(0, len(cases), 20000):
            res = run_cases(chk, name, cases[i:i + 20000], impl, model)
            if not have_model:
                res = [(c, a, a, o) for c, a, _, o in res]
            for kind, case, info in judge(chk, name, res):
                first_bad.setdefault((kind, name), (case, info))
    # minimise and report
    for (kind, name), (case, info) in first_bad.items():
        if kind == 'oracle':
            def fails(c):
                r = run_cases(chk, name, [c], impl, model)
                if not r: return False
                ref = Ref()
                return bool(r[0][3]) or any(ref.check(l, a) for l, a in zip(r[0][0], r[0][1]))
            small = shrink(case, fails)
            r = run_cases(chk, name, [small], impl, model)[0]
            ref = Ref()
            msgs = list(r[3]) + [m for m in (ref.check(l, a) for l, a in zip(r[0], r[1])) if m]
            chk.oracle_failure(msgs[0] if msgs else 'oracle', small, {'answers': r[1], 'all': msgs},
                               signature={'stream': name, 'first_op': small[0].split(' ')[0]})
        else:
            def differs(c):
                r = run_cases(chk, name, [c], impl, model)
                return bool(r) and r[0][1] != r[0][2]
            small = shrink(case, differs)
            r = run_cases(chk, name, [small], impl, model)[0]
            chk.disagreement(name, small, r[1], r[2], 'minimised; first differing answer at op %d' % next((i for i in range(len(small)) if r[1][i] != r[2][i]), -1))
    return chk.finish()


def replay(chk: Check, data):
    bindir = chk.build_harness(['ecs_harness', 'ecs_gen_session'])
    impl = os.path.join(bindir, 'ecs_harness')
    for f in data.get('failures', []):
        r = run_cases(chk, 'replay', [f['case']], impl, '/bin/cat')
        ref = Ref()
        msgs = list(r[0][3]) + [m for m in (ref.check(l, a) for l, a in zip(r[0][0], r[0][1])) if m]
        chk.evaluations += 1
        print('case:', f['case']); print('answers:', r[0][1]); print('oracle:', msgs or 'property holds on this input')
        if msgs:
            chk.oracle_failure(msgs[0], f['case'], {'answers': r[0][1]})
    return chk.finish()
