"""C11 — `xvc pipeline run` always terminates with a verdict for every step.

Proof: lean/XvcPipeline Props/C11.lean (C11_measure: every step of the system decreases a natural-number measure, so
there is no infinite run; C11_progress: in every reachable state of an acyclic pipeline that is not final some step
other than a thread failure is enabled; C11_final_verdict; C11_relay_no_block for the output relay) .
Tie: translator + hook traces validated by the model driver (final states equal); lock-nesting tables of the pipeline crate
(Gen/Locks.lean, C11_lock_order) and of the path metadata provider of xvc-core (Gen/PmpLocks.lean, C11_pmp_no_self_deadlock),
both regenerated from the sources by lib/lock_extract.py on every run.
Oracle: the process exits within a timeout (on timeout: the live children found in /proc are recorded), every started
command ended, and (hook build) the last published state of every step is DoneByRunning, DoneWithoutRunning or Broken.
"""
import sched_common as sc

OWN = {'C11'}
PROPS = 'XvcPipeline.Props.C11'
BIG = [0, 1000, 70000, 300000]


def outcome_variants(rng, n, edges, k, big_p=0.25, missing_p=0.2):
    out = []
    for v in range(k):
        mode = rng.choice(['step', 'file', 'glob', 'mixed'])
        kinds = [mode if mode != 'mixed' else rng.choice(['step', 'file', 'glob']) for _ in edges]
        whens = [rng.choice(['by_dependencies'] * 5 + ['always', 'always', 'never']) for _ in range(n)]
        inputs = [rng.random() < 0.5 for _ in range(n)]
        behav = []
        for i in range(n):
            b = {'rc': 1 if rng.random() < 0.35 else 0, 'sleep_ms': rng.choice([0, 0, 30, 90])}
            if rng.random() < 0.1:          # terminated by a signal: SEGV, KILL, TERM, ABRT
                b = {'signal': rng.choice([11, 9, 15, 6]), 'sigtouch': rng.random() < 0.5, 'sleep_ms': rng.choice([0, 30])}
            if rng.random() < 0.08:
                b['closefds'] = rng.choice([3, 3, 1, 2])      # closes its output streams before it is finished
            if rng.random() < big_p:
                b['out'] = rng.choice(BIG)
                b['err'] = rng.choice(BIG)
            behav.append(b)
        missing = [i for i in range(n) if inputs[i] and rng.random() < missing_p]
        unspawnable = [i for i in range(n) if rng.random() < 0.08]
        generic = [i for i in range(n) if rng.random() < 0.12]
        out.append(sc.mk_case(sc.mk_spec(n, edges, kinds, whens, inputs, unspawnable=unspawnable, generic=generic), rng.choice([1, 2, 4]), behav,
                              runs=2 if rng.random() < 0.2 else 1, missing=missing, label='outcomes'))
    return out


def gen_cases(chk, quick):
    rng = chk.rng
    cases = []
    # every assignment of success / failure to the dependencies of a step with 2 and 3 dependencies (F5 shape), x when of the waiting step
    for nd in (2, 3):
        for mask in range(1 << nd):
            for w in sc.WHENS:
                for kind in (['step'] if quick and nd == 3 else ['step', 'file', 'glob']):
                    n = nd + 1
                    edges = [(nd, d, kind) for d in range(nd)]
                    whens = ['by_dependencies'] * nd + [w]
                    behav = [{'rc': mask >> d & 1, 'sleep_ms': rng.choice([0, 40])} for d in range(nd)] + [{}]
                    cases.append(sc.mk_case(sc.mk_spec(n, edges, whens=whens), rng.choice([1, 2, 4]), behav, label='mixed-deps'))
    # a file dependency that does not exist, with dependents (K4b shape), x edge kinds x when of the dependent
    for kind in ('step', 'file', 'glob'):
        for w in sc.WHENS:
            spec = sc.mk_spec(3, [(1, 0, kind), (2, 1, kind)], whens=['by_dependencies', w, 'by_dependencies'], inputs=[True, False, False])
            cases.append(sc.mk_case(spec, 2, missing=[0], label='missing-dep'))
    spec = sc.mk_spec(4, [(2, 0), (2, 1), (3, 2)], inputs=[True, True, False, False])
    cases.append(sc.mk_case(spec, 1, missing=[0], label='missing-dep'))
    cases.append(sc.mk_case(spec, 1, missing=[0, 1], label='missing-dep'))
    # a command that cannot be spawned (exec error after the process slot was reserved), with dependents, in joins, and
    # competing for a small pool with steps waiting behind a gate
    for w in sc.WHENS:
        for wbad in ('by_dependencies', 'always'):
            spec = sc.mk_spec(3, [(1, 0), (2, 1)], whens=[wbad, w, 'by_dependencies'], unspawnable=[0])
            cases.append(sc.mk_case(spec, 1, label='unspawnable'))
    for pool in (1, 2):
        spec = sc.mk_spec(4, [(3, 0), (3, 1), (3, 2)], unspawnable=[1])
        cases.append(sc.mk_case(spec, pool, [{'sleep_ms': 40}, {}, {'rc': 0}, {}], label='unspawnable'))
        spec = sc.mk_spec(7, [(w, 0) for w in (2, 3, 4, 5, 6)], unspawnable=[1])
        cases.append(sc.mk_case(spec, pool, [{'sleep_ms': 80}, {}] + [{'sleep_ms': 60} for _ in range(5)], label='unspawnable'))
    # commands that close/redirect their streams early (exec >log 2>&1), succeed or fail afterwards: verdict only at exit
    for mode in (3, 1):
        spec = sc.mk_spec(3, [(1, 0), (2, 1)])
        cases.append(sc.mk_case(spec, 1, [{'closefds': mode, 'sleep_ms': 80, 'out': 20}, {'closefds': mode, 'sleep_ms': 40, 'rc': 1}, {}], label='closed-streams'))
    # a command that cannot be STARTED (execve E2BIG: a 140000 character line item; EINVAL: NUL byte) x pool sizes 1..4: as many
    # unstartable steps as slots, a gate, two steps waiting behind it and an always-dependent of the unstartable ones (seed C11-4)
    for pool in (1, 2, 3, 4):
        for how in ('e2big', None):
            if how is None and pool in (2, 3):
                continue
            bads = list(range(1, 1 + pool))
            n = 1 + pool + 3
            w1, w2, dep = 1 + pool, 2 + pool, 3 + pool
            edges = [(w1, 0), (w2, 0)] + [(dep, b) for b in bads]
            whens = ['by_dependencies'] * (n - 1) + ['always']
            behav = [{'sleep_ms': 60}] + [{} for _ in bads] + [{'sleep_ms': 30}, {'sleep_ms': 30}, {}]
            cases.append(sc.mk_case(sc.mk_spec(n, edges, whens=whens, unspawnable=bads, unspawnable_how=how), pool, behav, label=f'unstartable x{pool} ({how or "nul"})'))
    # a command terminated by a signal: ends broken, its dependents get a verdict too, the run terminates
    for sig in (11, 9, 15, 6):
        for w in sc.WHENS:
            spec = sc.mk_spec(3, [(1, 0), (2, 1)], whens=['by_dependencies', w, 'by_dependencies'])
            cases.append(sc.mk_case(spec, 2, [{'signal': sig, 'sigtouch': sig % 2 == 1, 'out': 300, 'err': 300}, {}, {}], label='signal'))
    spec = sc.mk_spec(4, [(3, 0), (3, 1), (3, 2)])
    cases.append(sc.mk_case(spec, 2, [{'signal': 9}, {}, {'rc': 1}, {}], label='signal'))
    cases.append(sc.mk_case(spec, 1, [{'signal': 11, 'err': 70000}, {'signal': 15}, {}, {}], label='signal'))
    # large output on either stream (K4a shape): below and above the pipe capacity, with and without a dependent, failing or not
    for out_b in BIG:
        for err_b in BIG:
            if out_b == 0 and err_b == 0:
                continue
            for rc in ((0,) if quick and (out_b, err_b) not in ((0, 70000), (70000, 70000)) else (0, 1)):
                spec = sc.mk_spec(2, [(1, 0)])
                cases.append(sc.mk_case(spec, 1, [{'out': out_b, 'err': err_b, 'rc': rc}, {}], label='big-output'))
    # DAGs with random outcomes
    dags4 = list(sc.all_dags(4))
    if quick:
        for e in rng.sample(dags4, 60):
            cases += outcome_variants(rng, 4, e, 1)
        for n in (2, 3):
            for e in sc.all_dags(n):
                cases += outcome_variants(rng, n, e, 1)
    else:
        for e in dags4:
            cases += outcome_variants(rng, 4, e, 4)
        for n in (1, 2, 3):
            for e in sc.all_dags(n):
                cases += outcome_variants(rng, n, e, 10)
        for _ in range(150):
            n = rng.randint(5, 8)
            cases += outcome_variants(rng, n, sc.random_dag(rng, n, rng.choice([0.2, 0.35, 0.5])), 1)
    return cases


def _depends_on(n, edges, a):
    """steps that `a` depends on, transitively"""
    seen, todo = set(), [a]
    while todo:
        x = todo.pop()
        for e in edges:
            if e[0] == x and e[1] not in seen:
                seen.add(e[1]); todo.append(e[1])
    return seen


def gen_shared_cases(chk, quick):
    """SHARED DEPENDENCY PATHS: several steps name the same path in a dependency, the path exists or not, something creates it
    during the run or not.  xvc looks every path up through one cache per run (XvcPathMetadataProvider), filled by the step
    threads and by a file-system watcher thread: the second lookup of a path meets what the first one (of any thread) left.
    Dimensions: kind of dependency (file / regex / lines read the path through `get`, glob through `glob_paths`) x number of
    users 1..3 x path exists or not x nobody / an upstream step / an unrelated step creates it x the path is a declared output
    (written or not written by its producer) x when-options and dependents of the users; then random DAGs with 1-2 shared paths."""
    rng = chk.rng
    cases = []

    def add(spec, entries, pool, behav=None, label='', runs=1):
        cases.append(sc.mk_case(sc.add_shared(spec, entries), pool, behav, runs=runs, label='shared/' + label))
    for kind in sc.SHARED_KINDS:
        for exists in (False, True):
            # 1..3 independent steps read the same path
            for users in (1, 2, 3):
                if quick and exists and users == 3:
                    continue
                add(sc.mk_spec(users, []), [sc.mk_shared(0, kind, range(users), exists=exists)], rng.choice([1, 2, 4]),
                    [{'sleep_ms': rng.choice([0, 30])} for _ in range(users)], label=f'{kind} x{users} {"present" if exists else "missing"}',
                    runs=2 if users == 2 else 1)
        # two users, one of them behind a gate step (its lookup certainly comes after the other one's) x when of the late user; a dependent of it
        for w in (sc.WHENS if kind in ('file', 'regex') or not quick else sc.WHENS[:1]):
            spec = sc.mk_spec(4, [(2, 0), (3, 2)], whens=['by_dependencies', 'by_dependencies', w, 'by_dependencies'])
            add(spec, [sc.mk_shared(0, kind, [1, 2])], 2, [{'sleep_ms': 90}, {}, {}, {}], label=f'{kind} missing, second user behind a gate, when={w}')
        # an upstream step creates the file the users read (they wait for it) / an unrelated step creates it while they look
        spec = sc.mk_spec(3, [(1, 0), (2, 0)])
        add(spec, [sc.mk_shared(0, kind, [1, 2], creator=0)], 2, [{'sleep_ms': 60}, {}, {}], label=f'{kind} missing, created by the upstream step')
        spec = sc.mk_spec(4, [(2, 1)])
        add(spec, [sc.mk_shared(0, kind, [0, 2, 3], creator=1)], 4, [{}, {'sleep_ms': 60}, {}, {'sleep_ms': 90}], label=f'{kind} missing, created meanwhile by an unrelated step')
        if kind != 'glob':
            # the shared path is the declared output of a step that writes it / does not write it; one and two consumers
            for created in (False, True):
                for users in ((1,), (1, 2)):
                    n = 1 + len(users)
                    add(sc.mk_spec(n, []), [sc.mk_shared(0, kind, users, output_of=0, created=created)], 2,
                        label=f'{kind} = declared output {"written" if created else "NOT written"} by its step, {len(users)} consumer(s)')
    # two different missing paths crossing over two steps; a missing and a present one
    add(sc.mk_spec(2, []), [sc.mk_shared(0, 'file', [0, 1]), sc.mk_shared(1, 'lines', [0, 1])], 2, label='file + lines missing, both steps read both')
    add(sc.mk_spec(3, [(2, 1)]), [sc.mk_shared(0, 'file', [0, 2], exists=True), sc.mk_shared(1, 'regex', [1, 2])], 2, label='present file + missing regex target')
    # random DAGs with 1-2 shared paths
    dags = {n: list(sc.all_dags(n)) for n in (3, 4)}
    for _ in range(28 if quick else 160):
        n = rng.choice([3, 4, 4]) if quick or rng.random() < 0.6 else rng.randint(5, 7)
        edges = [list(e) + ['step'] for e in (rng.choice(dags[n]) if n in dags else sc.random_dag(rng, n, 0.3))]
        entries = []
        for k in range(rng.choice([1, 1, 2])):
            kind = rng.choice(['file', 'file', 'regex', 'lines', 'glob'])
            how = rng.choice(['nobody', 'nobody', 'creator', 'output'])
            producer = rng.randrange(n) if how != 'nobody' else None
            up = _depends_on(n, edges + [[u, e['output_of'], 'shared'] for e in entries if e.get('output_of') is not None for u in e['users']], producer) if producer is not None else set()
            cand = [i for i in range(n) if i != producer and (how != 'output' or i not in up)]
            if not cand:
                continue
            users = rng.sample(cand, rng.randint(1, min(3, len(cand))))
            entries.append(sc.mk_shared(k, kind, users, exists=rng.random() < 0.3,
                                        creator=producer if how == 'creator' else None,
                                        output_of=producer if how == 'output' else None, created=rng.random() < 0.5))
        if not entries:
            continue
        whens = [rng.choice(['by_dependencies'] * 5 + ['always', 'always', 'never']) for _ in range(n)]
        behav = [{'rc': 1 if rng.random() < 0.2 else 0, 'sleep_ms': rng.choice([0, 0, 30, 90])} for _ in range(n)]
        spec = sc.add_shared(sc.mk_spec(n, edges, whens=whens), entries)
        if sc.has_cycle(spec):
            continue
        cases.append(sc.mk_case(spec, rng.choice([1, 2, 4]), behav, runs=2 if rng.random() < 0.25 else 1, label='shared/random-dag'))
    return cases


def gen_lock_cases(chk, quick):
    """Comparisons of CHANGED dependencies on 2-4 parallel steps: generic (command output), lines, regex, param, glob and
    several large sparse files per step, so that the comparison of one step is still running while the others publish their
    results into the shared maps.  A thread that blocks on one of the shared locks (e.g. takes `dependency_diffs`
    recursively) shows as a run that never terminates.  All commands succeed; every dependency is changed before every run."""
    cases = []
    reps = 5 if quick else 12
    # the shape of /verif/seeded/C11-1/demo.sh: one step with a generic + 6 big files, two steps with one big file
    spec = sc.mk_spec(3, [], generic=[0], bigfiles={0: [24] * 6, 1: [12], 2: [24]})
    cases.append(sc.mk_case(spec, 4, runs=reps, label='lock/generic+6big|1big|1big'))
    # every step has a generic dependency and big files of different sizes
    spec = sc.mk_spec(3, [], generic=[0, 1, 2], bigfiles={0: [24] * 5, 1: [16] * 4, 2: [8] * 3})
    cases.append(sc.mk_case(spec, 4, runs=reps, label='lock/3x(generic+big)'))
    # four parallel steps, all kinds of non-file dependencies next to big files; a fifth step depends on two of them
    spec = sc.mk_spec(5, [(4, 0, 'step'), (4, 1, 'step')], generic=[0, 1, 3], textdeps=[0, 2],
                      bigfiles={0: [24] * 4, 1: [24] * 2, 2: [12] * 3, 3: [6]})
    cases.append(sc.mk_case(spec, 2, runs=reps, label='lock/4-parallel-mixed'))
    # two steps only
    spec = sc.mk_spec(2, [], generic=[0], textdeps=[1], bigfiles={0: [32] * 4, 1: [16]})
    cases.append(sc.mk_case(spec, 2, runs=reps, label='lock/2-parallel'))
    return cases


def gen_fault_cases(chk, quick):
    """FAULT: xvc's own output cannot be delivered (reader of the stdout/stderr pipe gone at once / after the first line /
    after 64 bytes, or /dev/full).  Oracle under the fault = C11's headline only: the run terminates (any exit status, a
    panic exit is fine) and leaves no xvc process behind; verdicts cannot be judged because what was printed is gone.
    The corpus entry first: seed C11-2 (minimised): a <- b, both commands print a line, `xvc pipeline run | true`."""
    rng = chk.rng
    cases = [sc.mk_case(sc.mk_spec(2, [(1, 0)], whens=['always', 'always']), 2, [{'out': 6}, {'out': 6}], fault='stdout-closed',
                        label='corpus/C11-2 a<-b | true')]
    shapes = [
        ('chain', lambda: (sc.mk_spec(3, [(1, 0), (2, 1)], whens=[rng.choice(sc.WHENS[:2]) for _ in range(3)]), [{'out': 8}, {'out': 8, 'sleep_ms': 20}, {}], [])),
        ('join', lambda: (sc.mk_spec(3, [(2, 0), (2, 1)]), [{'out': 20, 'sleep_ms': 30}, {'rc': 1, 'err': 50}, {}], [])),
        ('independent', lambda: (sc.mk_spec(4, []), [{'out': 10, 'sleep_ms': 40} for _ in range(4)], [])),
        ('missing-dep', lambda: (sc.mk_spec(3, [(1, 0), (2, 1)], inputs=[True, False, False]), [{}, {'out': 9}, {}], [0])),
        ('big-output', lambda: (sc.mk_spec(2, [(1, 0)]), [{'out': 70000, 'err': 70000}, {'out': 5}], [])),
        ('signal', lambda: (sc.mk_spec(2, [(1, 0)], whens=['by_dependencies', 'always']), [{'signal': 9, 'out': 30}, {'out': 5}], [])),
    ]
    for fault in sc.FAULTS:
        for name, mk in shapes:
            if quick and fault in ('stderr-head1', 'both-devfull') and name in ('signal', 'big-output'):
                continue
            spec, behav, missing = mk()
            cases.append(sc.mk_case(spec, rng.choice([1, 2]), behav, missing=missing, fault=fault, label=f'fault/{name}'))
    if not quick:
        for e in rng.sample(list(sc.all_dags(4)), 60):
            c = outcome_variants(rng, 4, e, 1)[0]
            cases.append(dict(c, fault=rng.choice(sc.FAULTS), runs=1, label='fault/random-dag'))
    return cases


def long_wait_case():
    """SEARCH-ON-BREAK scenario (seed C11-3): about 1200 step-seconds of waiting for a process slot in ONE run — 120 independent
    steps of 250 ms and one step that depends on all of them, pool size 1.  A handler that publishes a state per poll reaches
    the capacity of the never-read notifier channel (100000) after ~58 s and the run never ends; the intact binary needs
    ~40 s.  Too expensive for the quick tier of an intact tree: run when an obligation or the tie broke, and in thorough."""
    n = 121
    spec = sc.mk_spec(n, [(120, i, 'step') for i in range(120)])
    behav = [{'sleep_ms': 250} for _ in range(120)] + [{}]
    return sc.mk_case(spec, 1, behav, label='long-wait/120 x 250 ms + 1 dependent, pool 1')


def run(chk):
    quick = chk.tier == 'quick'
    ctx = sc.prepare(chk, PROPS)
    cases = gen_cases(chk, quick)
    chk.extra['rule'] = (
        'a step with 2 and with 3 dependencies under EVERY assignment of success/failure to them, x when of the waiting step x edge kind; '
        'a step whose file dependency does not exist with a chain of dependents (x edge kinds x when), and joins with one or two such steps; '
        'a step whose command cannot be SPAWNED (NUL byte in an exported line_items variable: exec EINVAL) with dependents x when, in a join, and with five steps waiting behind a gate at pools 1 and 2 (also 8 % of the steps of the random families); '
        'commands that close their output streams before they are finished (8 % of the random steps, chains); as many UNSTARTABLE commands (execve E2BIG through a 140000 '
        'character line item, EINVAL through a NUL byte) as pool slots for pools 1..4 with a gate, two waiting steps and an always-dependent; '
        'a command TERMINATED BY A SIGNAL (SEGV, KILL, TERM, ABRT; with partial output / output file written) with a chain of dependents x when, in joins, and 10 % of the steps of the random families; '
        'a command writing {0,1000,70000,300000} bytes to stdout x the same to stderr (pipe capacity 65536), succeeding or failing, with a dependent; ' +
        ('60 of the 543 DAGs on 4 steps + all DAGs on 2..3 steps' if quick else 'ALL 543 DAGs on 4 steps x 4 + all DAGs on <= 3 steps x 10 + 150 random DAGs on 5..8 steps') +
        ' with random outcomes (35 % failing commands, 20 % of the private input files missing, 25 % large outputs), when-options, pools 1/2/4, one or two runs. '
        'LONG-WAIT scenario (only when an obligation or the tie broke, and in thorough): 120 independent steps of 250 ms + one dependent of all, pool 1, limit 110 s + observed grace; '
        'OUTPUT-FAULT STREAM (hook-free binary; first the minimised C11-2 scenario a<-b | true): chains, joins, independent steps, a missing dependency file, '
        '70000 B outputs and a signal-killed command, each with xvc\'s stdout/stderr reader gone at once (| true), after the first line (| head -1), after 64 bytes, '
        'both streams closed, and stdout (and stderr) = /dev/full; judged only on: the run terminates (any exit status) and leaves no xvc process behind; '
        'SHARED-PATH STREAM (plain and hook build): steps that name the SAME path in a dependency - kind file / regex / lines / glob x 1..3 users x the path '
        'exists or not x nobody / an upstream step / an unrelated step creates it during the run x the path is the declared output of a step that writes it '
        'or does not x the second user behind a gate x when-options x a dependent; two shared paths crossing over two steps; ' +
        ('28' if quick else '160') + ' random DAGs on 3-4 (thorough: up to 7) steps with 1-2 shared paths (70 % missing), random users, creators, producers, '
        'failing commands, when-options, pools, one or two runs; '
        'LOCK STREAM: 4 pipelines with 2-4 parallel steps whose dependencies (generic command output, lines, regex, param, glob and 1-6 sparse files of '
        '6-32 MiB each) are ALL changed before every run, 5 (quick) / 12 (thorough) consecutive runs each on the hook-free binary and 2 on the hook build; '
        'a run still alive after 15 s is observed for 3-60 s more and counts as hung only if it stays alive without using CPU; '
        '12 % of the steps of the random families also get a generic dependency. '
        'Each case runs on the hook-free binary and on the hook build with seeded delays (traces validated by the model driver). Timeout 12 s (quick) / 20 s (thorough) per run '
        '(commands sleep <= 90 ms).')
    chk.extra['exhaustive'] = not quick
    fault_cases = gen_fault_cases(chk, quick)
    sc.run_family(ctx, 'output-fault/plain', fault_cases, OWN, hook=False, timeout=12, shrink=5)
    lock_cases = gen_lock_cases(chk, quick)
    sc.run_family(ctx, 'locks/plain', lock_cases, OWN, hook=False, timeout=15, workers=2, confirm=False, shrink=False)
    shared_cases = gen_shared_cases(chk, quick)
    sc.run_family(ctx, 'shared-paths/plain', shared_cases, OWN, hook=False, timeout=10)
    sc.run_family(ctx, 'outcomes/plain', cases, OWN, hook=False, timeout=12 if quick else 20)
    if ctx.xvc_hook:
        hooked = []
        for k, c in enumerate(cases):
            c2 = dict(c)
            c2['sched'] = f'{chk.seed * 15485863 + k}:{chk.rng.choice([0, 200, 1500, 5000])}'
            hooked.append(c2)
        sc.run_family(ctx, 'outcomes/hook', hooked, OWN, hook=True, timeout=12 if quick else 20)
        sc.run_family(ctx, 'shared-paths/hook', [dict(c, sched=f'{chk.seed * 7919 + k}:{chk.rng.choice([0, 200, 1500])}') for k, c in enumerate(shared_cases)],
                      OWN, hook=True, timeout=10)
        hooked_locks = [dict(c, sched=f'{chk.seed * 31 + k}:200', runs=2) for k, c in enumerate(lock_cases)]
        sc.run_family(ctx, 'locks/hook', hooked_locks, OWN, hook=True, timeout=15, workers=2, confirm=False, shrink=False)
    broke = bool(chk.proof['broken'] or chk.tie['disagreements'])
    broken_names = [t for b in chk.proof['broken'] for t in b.get('theorems', [])]
    only_pmp = bool(broken_names) and all(t.startswith('C11_pmp_') for t in broken_names) and not chk.tie['disagreements']
    if only_pmp:
        # the failing input of a re-acquisition inside the path metadata provider is a pipeline whose steps look the same path
        # up again: the shared-path streams above are that search (they run in every tier); the long-wait scenario is unrelated
        chk.notes.append('obligation(s) about the path metadata provider no longer check (' + ', '.join(sorted(set(broken_names))) + '): '
                         'the search for a failing input is the shared-paths stream; re-acquisitions found by the extractor: ' +
                         '; '.join(((ctx.locks or {}).get('path_metadata_provider') or {}).get('reacquisitions', [])[:4]))
        for f in chk.oracle_failures:
            if f.get('signature', {}).get('kind') == 'missing-path-shared-by-steps' and isinstance(f.get('detail'), dict):
                f['detail']['proof_obligations_that_no_longer_check'] = sorted(set(broken_names))
                f['detail']['reacquisitions_in_the_extracted_table'] = ((ctx.locks or {}).get('path_metadata_provider') or {}).get('reacquisitions', [])
    if (broke and not only_pmp) or not quick:
        chk.notes.append('long-wait scenario run because ' + ('a proof obligation or the trace tie broke (search for a failing input)' if broke else 'of the thorough tier'))
        sc.run_family(ctx, 'long-wait/plain', [long_wait_case()], OWN, hook=False, timeout=110, workers=1, confirm=False, shrink=False)
        names = sorted({t for b in chk.proof['broken'] for t in b.get('theorems', [])})
        for f in chk.oracle_failures:
            if str(f['case'].get('label', '')).startswith('long-wait') and isinstance(f.get('detail'), dict):
                f['detail']['proof_obligations_that_no_longer_check'] = names      # e.g. C11_publish_table_decreases
                f['detail']['trace_tie_disagreements'] = len(chk.tie['disagreements'])
    return chk.finish()


def replay(chk, data):
    return sc.replay(chk, data, OWN, PROPS)
