"""C12 — Steps re-run exactly when something they depend on changed.

Proof   lean/XvcPipeData (Invalidate.lean model = the run decision of pipeline/mod.rs AFTER patches/C12-F7.patch,
        Props/C12.lean theorems).
Tie     (T) anchored reader of pipeline/mod.rs: is the thorough pass restricted to the step's own dependencies
        (patch a) and does the thorough-not-changed comparison consult dependency steps (patch b), and the three
        RunConditions literals; (B) correspondence: pipelines built with the CLI whose step commands append their
        name to a journal; histories of edits and runs on the freshly built binary; after each run the executed set is
        compared with the model driver `pipedata invalidate`.
Oracle  independent of the model, from the harness's own edit log and the property text: steps that must run (own
        dependency with a content change not yet seen by a fully successful run, transitively through step / output
        edges, unless never or blocked by a failed step) and steps that may run (those + always / dependency-less steps);
        while a watched file is away no verdict on the steps watching it; `pipeline run` never edits the pipeline
        definition (`pipeline export` before / after every run: steps, commands, set of dependencies of each step).
"""
import hashlib, json, os, re, time
from common import Check, run_lines, REPO, VERIF
from xvcbin import Sandbox
import pipe_common as pc

PROPOSED_FINDINGS = os.path.join(VERIF, 'lib', 'c12_known_findings.json')
KINDS = ['file', 'glob', 'glob-items', 'param', 'lines', 'line-items', 'regex', 'regex-items', 'generic']
EXCLUDED_KINDS = ['sqlite-query (no change generator)', 'url (no network)']
MODE_CLI = {'d': None, 'a': 'always', 'n': 'never'}


# ------------------------------------------------------------------------------------------------
# resources: the files a dependency watches, and the edits that can be made to them

class Res:
    """One resource (file / directory / parameter file / command source) watched by one or more dependency entities.
    watchers: list of (dep id, selector).  An op returns the list of (dep id, 'edit' | 'touch') it means for the watchers."""

    def __init__(self, kind, rid):
        self.kind, self.rid, self.watchers = kind, rid, []
        self.n = 0                       # edit counter (new contents differ in size)
        self.fresh = set()               # glob members added since the last run that recorded (removing one of them would be no change at all)
        self.absent = False              # the watched file / directory is moved away (op 'vanish') until op 'return'

    # -- creation --------------------------------------------------------------------------------
    def create(self, sb, clock):
        k, r = self.kind, self.rid
        # where the watched file lies: top level, a subdirectory, a nested subdirectory (by resource number, so that every kind
        # of dependency meets every location); a file of the SAME NAME at the top level is a decoy that nothing watches (F37: the
        # splitter of --regex / --regex_items dropped the directory and watched the decoy)
        loc = ['', 'in/', 'in/deep/'][r % 3]
        if k == 'file':
            self.path = f'{loc}f{r}.txt'; sb.write(self.path, f'file {r} v0\n')
        elif k == 'globdir':
            self.members = {f'g{r}/m0.dat': 'm0 v0\n', f'g{r}/m1.dat': 'm1 v0\n'}
            for p, c in self.members.items(): sb.write(p, c)
        elif k == 'params':
            self.path = f'{loc}p{r}.yaml'; self.vals = {f'k{i}': i for i in range(4)}; self._write_params(sb)
        elif k == 'linesfile':
            self.path = f'{loc}l{r}.txt'; self.lines = [f'line {i} v0' for i in range(8)]; sb.write(self.path, '\n'.join(self.lines) + '\n')
            if loc: sb.write(f'l{r}.txt', ''.join(f'decoy line {i}\n' for i in range(8)))
        elif k == 'regexfile':
            self.path = f'{loc}r{r}.txt'; self.lines = [f'{"sel" if i % 2 == 0 else "oth"} {i} v0' for i in range(8)]
            sb.write(self.path, '\n'.join(self.lines) + '\n')
            if loc: sb.write(f'r{r}.txt', ''.join(f'{"sel" if i % 2 == 0 else "oth"} decoy {i}\n' for i in range(8)))
        elif k == 'gensrc':
            self.path = f'{loc}q{r}.txt'; sb.write(self.path, f'gen {r} v0\n')
        for p in self.paths():
            clock.stamp(sb, p)

    def paths(self):
        return list(self.members) if self.kind == 'globdir' else [self.path]

    def _write_params(self, sb):
        sb.write(self.path, ''.join(f'{k}: {v}\n' for k, v in self.vals.items()))

    # -- how a dependency refers to it -----------------------------------------------------------
    def cli(self, depkind, sel):
        if depkind == 'file': return ['--file', self.path]
        if depkind == 'glob': return ['--glob', f'g{self.rid}/*']
        if depkind == 'glob-items': return ['--glob_items', f'g{self.rid}/*']
        if depkind == 'param': return ['--param', f'{self.path}::{sel}']
        if depkind == 'lines': return ['--lines', f'{self.path}::{sel[0]}-{sel[1]}']
        if depkind == 'line-items': return ['--line_items', f'{self.path}::{sel[0]}-{sel[1]}']
        if depkind == 'regex': return ['--regex', f'{self.path}:/^{sel}']
        if depkind == 'regex-items': return ['--regex_items', f'{self.path}:/^{sel}']
        if depkind == 'generic': return ['--generic', f'cat {self.path}']
        raise ValueError(depkind)

    # -- edits -----------------------------------------------------------------------------------
    def ops(self):
        k = self.kind
        if self.absent: return ['return']            # nothing to edit while it is away ('vanish' itself is planned by gen_history: F5)
        if k == 'file': return ['edit', 'touch', 'edit-same-size']
        if k == 'globdir':
            old = [m for m in self.members if m not in self.fresh]
            return ['edit-member', 'touch-member', 'add-member'] + (['rm-member'] if len(self.members) > 1 and old else []) + \
                (['rename-member'] if old else []) + ['edit-member-same-size']
        if k == 'params': return ['set:' + key for key in self.vals]
        if k == 'linesfile': return [f'line:{i}' for i in (0, 2, 5, 7)] + ['touch']
        if k == 'regexfile': return [f'line:{i}' for i in (0, 1, 4, 5)] + ['touch']
        if k == 'gensrc': return ['edit', 'touch']
        return []

    def apply(self, sb, op, clock):
        """perform the edit; return [(dep id, 'edit'|'touch')] for the watchers and whether any byte changed"""
        self.n += 1
        k, ev = self.kind, []
        tag = f'v{self.n}' + 'x' * self.n            # sizes grow: "an edit changes size or mtime"
        if op in ('vanish', 'return'):
            return self._move(sb, op, clock, tag)
        if self.absent:
            return []
        if k == 'file' and op == 'edit-same-size':
            # other content of exactly the same length, modification time in the SAME second (only the nanoseconds differ):
            # size and whole-second mtime say "unchanged"
            clock.same_second_rewrite(sb, self.path)
            ev = [(d, 'edit') for d, _ in self.watchers]
        elif k == 'file' or k == 'gensrc':
            if op == 'edit':
                sb.write(self.path, f'{k} {self.rid} {tag}\n'); clock.stamp(sb, self.path)
                ev = [(d, 'edit') for d, _ in self.watchers]
            else:
                clock.stamp(sb, self.path)
                ev = [(d, 'touch') for d, _ in self.watchers if k == 'file']     # a command output has no metadata
        elif k == 'globdir':
            ms = sorted(self.members)
            if op == 'edit-member':
                p = ms[self.n % len(ms)]; self.members[p] = f'{p} {tag}\n'; sb.write(p, self.members[p]); clock.stamp(sb, p)
                ev = [(d, 'edit') for d, _ in self.watchers]
            elif op == 'edit-member-same-size':
                p = ms[self.n % len(ms)]
                self.members[p] = clock.same_second_rewrite(sb, p)
                ev = [(d, 'edit') for d, _ in self.watchers]
            elif op == 'touch-member':
                clock.stamp(sb, ms[self.n % len(ms)])
                ev = [(d, 'touch') for d, _ in self.watchers]
            elif op == 'add-member':
                p = f'g{self.rid}/n{self.n}.dat'; self.members[p] = f'new {tag}\n'; sb.write(p, self.members[p]); clock.stamp(sb, p); self.fresh.add(p)
                ev = [(d, 'add') for d, _ in self.watchers]
            elif op == 'rename-member':
                # a member is renamed in place: same bytes, same mtime, and a new name that keeps its position in the
                # path-sorted member list ('.' < '_'), so the sequence of member contents is exactly what it was
                old = [m for m in ms if m not in self.fresh]
                p = old[self.n % len(old)]
                q = p[:-4] + f'_r{self.n}.dat'
                os.rename(sb.path(p), sb.path(q))
                self.members[q] = self.members.pop(p); self.fresh.add(q)
                ev = [(d, 'rm') for d, _ in self.watchers]
            elif op == 'rm-member':
                old = [m for m in ms if m not in self.fresh]
                p = old[self.n % len(old)]; del self.members[p]; os.unlink(sb.path(p))
                ev = [(d, 'rm') for d, _ in self.watchers]
        elif k == 'params':
            key = op.split(':')[1]
            self.vals[key] = f'{tag}'
            self._write_params(sb); clock.stamp(sb, self.path)
            ev = [(d, 'param' if sel == key else 'touch') for d, sel in self.watchers]
        elif k in ('linesfile', 'regexfile'):
            if op == 'touch':
                clock.stamp(sb, self.path)
                ev = [(d, 'touch') for d, _ in self.watchers]
            else:
                i = int(op.split(':')[1])
                word = self.lines[i].split(' ')[0]
                self.lines[i] = f'{word} {i} {tag}'
                sb.write(self.path, '\n'.join(self.lines) + '\n'); clock.stamp(sb, self.path)
                if k == 'linesfile':
                    ev = [(d, 'edit' if sel[0] <= i < sel[1] else 'touch') for d, sel in self.watchers]
                else:
                    ev = [(d, 'edit' if word == sel else 'touch') for d, sel in self.watchers]
        return ev


AWAY = '.away'       # where vanished files wait (watched by nothing, matched by no glob)


def _res_move(self, sb, op, clock, tag):
    """'vanish': the watched file (all members and the directory of a glob) is renamed out of the way - content and mtime
    travel with it; 'return': renamed back to where it was.  For a file-like resource the watchers get 'vanish' / 'return'
    (absence is a state of its own: the property does not say what a run has to do while the file is away).  A vanished glob
    directory is an ordinary content change (no member left: 'rm'); it comes back with one member more ('add'), so that what
    comes back is never the collection some earlier, unrecorded run has already seen."""
    if (op == 'vanish') == self.absent:
        return []
    if self.kind == 'globdir':
        here, there = sb.path(f'g{self.rid}'), sb.path(f'{AWAY}/g{self.rid}')
    else:
        here, there = sb.path(self.path), sb.path(f'{AWAY}/{self.path}')
    if op == 'vanish':
        os.makedirs(os.path.dirname(there), exist_ok=True)
        os.rename(here, there)
        self.absent = True
        return [(d, 'rm' if self.kind == 'globdir' else 'vanish') for d, _ in self.watchers]
    os.rename(there, here)
    self.absent = False
    if self.kind == 'globdir':
        p = f'g{self.rid}/n{self.n}.dat'; self.members[p] = f'new {tag}\n'; sb.write(p, self.members[p]); clock.stamp(sb, p); self.fresh.add(p)
        return [(d, 'add') for d, _ in self.watchers]
    return [(d, 'return') for d, _ in self.watchers]


Res._move = _res_move


class Clock:
    """explicit, strictly increasing mtimes (the kernel's coarse clock could give two writes the same stamp)"""

    def __init__(self):
        self.t = int(time.time()) - 100000

    def same_second_rewrite(self, sb, rel):
        """replace the content by other bytes of the same length and move the mtime by 0.4 s inside its second"""
        path = sb.path(rel)
        st = os.stat(path)
        b = open(path, 'rb').read()
        nb = bytes((c + 1) % 256 if (65 <= c < 90 or 97 <= c < 122 or 48 <= c < 57) else c for c in b) if b else b
        if nb == b and b:
            nb = bytes([b[0] ^ 1]) + b[1:]
        with open(path, 'wb') as f:
            f.write(nb)
        sec, ns = divmod(st.st_mtime_ns, 10 ** 9)
        t = sec * 10 ** 9 + (ns + 400_000_000) % 10 ** 9
        os.utime(path, ns=(t, t))
        return nb.decode('latin1')

    def stamp(self, sb, rel):
        self.t += 3
        os.utime(sb.path(rel), ns=(self.t * 10 ** 9 + 123456789, self.t * 10 ** 9 + 123456789))


# ------------------------------------------------------------------------------------------------
# pipelines

def gen_pipeline(rng, idx, shape=None):
    """steps in topological order (dependencies refer to earlier steps only)"""
    n = rng.choice([2, 3, 3, 4, 4, 5, 6])
    steps, deps, res = [], [], []

    def new_res(kind):
        r = Res(kind, len(res)); res.append(r); return r
    shared = {}
    for i in range(n):
        mode = rng.choices(['d', 'a', 'n'], weights=[8, 1.2, 0.8])[0]
        nd = rng.choices([0, 1, 2, 3], weights=[1, 5, 3, 1])[0]
        own = []
        for _ in range(nd):
            kind = rng.choice(KINDS)
            rk = {'file': 'file', 'glob': 'globdir', 'glob-items': 'globdir', 'param': 'params', 'lines': 'linesfile', 'line-items': 'linesfile',
                  'regex': 'regexfile', 'regex-items': 'regexfile', 'generic': 'gensrc'}[kind]
            # sometimes watch a resource another dependency already watches (other key / range / pattern / same file)
            if rk in shared and rng.random() < 0.35:
                r = shared[rk]
            else:
                r = new_res(rk); shared[rk] = r
            sel = None
            if kind == 'param': sel = rng.choice(['k0', 'k1', 'k2'])
            elif kind in ('lines', 'line-items'): sel = rng.choice([(0, 2), (2, 4), (4, 8)])
            elif kind in ('regex', 'regex-items'): sel = rng.choice(['sel', 'oth'])
            d = len(deps)
            deps.append({'id': d, 'kind': kind, 'res': r.rid, 'sel': sel, 'step': i})
            r.watchers.append((d, sel))
            own.append(d)
        explicit = sorted(rng.sample(range(i), k=min(i, rng.choices([0, 1, 2], weights=[5, 4, 1])[0]))) if i else []
        steps.append({'name': f's{i}', 'mode': mode, 'deps': own, 'explicit': explicit, 'implicit': [], 'out': None})
    # implicit edges: step j gets a file dependency on an output of an earlier step i (not `never`: its output must exist)
    # A --glob dependency anywhere makes graph construction stat every output path through the metadata cache
    # (`glob_includes` -> `pmp.path_present`), caching "missing" for an output that does not exist yet; its consumer then
    # depends on the inotify event being processed in time (observed once under load: the consumer threads died with
    # PathNotFound).  That is the inotify residual of the property (level partial); the combination is not generated.
    has_glob = any(d['kind'] == 'glob' for d in deps)
    for j in range(1, n):
        if not has_glob and rng.random() < 0.3:
            # the producer must be sure to run in the first run (its output file has to exist when the consumer is compared: K4b):
            # an always-step, a dependency-less step, or a step with a dependency of its own (nothing recorded yet => it runs)
            cands = [i for i in range(j) if i not in steps[j]['explicit'] and steps[i]['mode'] != 'n' and
                     (steps[i]['mode'] == 'a' or steps[i]['deps'] or not steps[i]['explicit'])]
            if cands:
                i = rng.choice(cands)
                steps[i]['out'] = f'out_{i}.txt'
                d = len(deps)
                deps.append({'id': d, 'kind': 'file', 'res': None, 'sel': None, 'step': j, 'outof': i})
                steps[j]['deps'].append(d)
                if i not in steps[j]['implicit']:
                    steps[j]['implicit'].append(i)
    return {'id': idx, 'steps': steps, 'deps': deps, 'res': res}


def descendants(steps, i):
    out, todo = set(), [i]
    while todo:
        x = todo.pop()
        for j, s in enumerate(steps):
            if x in s['explicit'] + s['implicit'] and j not in out:
                out.add(j); todo.append(j)
    return out


def failable(steps, i):
    """may step i (or every step of the set i) end broken without building the F5 situation (a step with one done and one
    broken dependency step)?  Simulates the states below: a step whose dependency steps are all broken is broken, unless it
    is an always-like step (ignore_broken_dep_steps), which runs and is done."""
    broken = set(i) if isinstance(i, (set, list, tuple)) else {i}
    for t in range(min(broken) + 1 if broken else 0, len(steps)):
        if t in broken:
            ups = steps[t]['explicit'] + steps[t]['implicit']
            nb = sum(1 for u in set(ups) if u in broken)
            if 0 < nb < len(set(ups)):
                return False
            continue
        ups = steps[t]['explicit'] + steps[t]['implicit']
        nb = sum(1 for u in ups if u in broken)
        if nb == 0:
            continue
        if nb < len(set(ups)):
            return False
        always_like = steps[t]['mode'] == 'a' or (steps[t]['mode'] == 'd' and not steps[t]['deps'] and not steps[t]['explicit'])
        if steps[t]['mode'] == 'n':
            continue                      # a never-step is done without looking at its dependency steps
        if not always_like:
            broken.add(t)
    return True


def gen_history(rng, pl, nrounds):
    """rounds: (list of (res id, op), failing step or None)"""
    rounds = [([], None)]                      # first run: nothing recorded yet
    cands = [i for i in range(len(pl['steps'])) if failable(pl['steps'], i) and pl['steps'][i]['mode'] != 'n']
    for _ in range(nrounds - 1):
        edits = []
        r = rng.random()
        k = 0 if r < 0.2 else (1 if r < 0.6 else rng.choice([2, 3]))
        for _ in range(k):
            if pl['res']:
                res = rng.choice(pl['res'])
                edits.append((res.rid, None))       # op chosen at execution time (depends on the resource's state)
        fail = rng.choice(cands) if cands and rng.random() < 0.22 else None
        rounds.append((edits, fail))
    return rounds


def vanishable(pl):
    """resources that may be absent during a run: the steps that watch them (and are not `never`) then end broken, all at
    once, which must not build F5; a vanished glob directory breaks nothing (it is an empty collection)"""
    out = []
    for r in pl['res']:
        owners = {d['step'] for d in pl['deps'] if d['res'] == r.rid and pl['steps'][d['step']]['mode'] != 'n'}
        if r.kind == 'globdir' or not owners or failable(pl['steps'], owners):
            out.append(r.rid)
    return out


def gen_vanish_history(rng, pl, nrounds):
    """the watched resource vanishes for one or more runs and comes back:
    first run(s) record; `vanish` + 1-2 runs while it is away (other resources may be edited meanwhile, no command fails:
    F5); `return` alone (same bytes, same mtime) / + touch / + an edit of its selected or unselected content (the op is drawn
    when the history is played); then further edits of the same resource ("for good") and of others."""
    cands = vanishable(pl)
    if not cands:
        return None
    rid = rng.choice(cands)
    others = [r.rid for r in pl['res'] if r.rid != rid]
    some = lambda k: [(rng.choice(others), None) for _ in range(k)] if others else []
    rounds = [([], None)]
    if rng.random() < 0.4:
        rounds.append((some(rng.choice([0, 1])), None))
    away = rng.choice([1, 1, 2])
    rounds.append(([(rid, 'vanish')] + some(rng.choice([0, 0, 1])), None))
    for _ in range(away - 1):
        rounds.append((some(rng.choice([0, 1])), None))
    back = [(rid, 'return')] + [(rid, None)] * rng.choice([0, 1, 1, 1, 2])
    rounds.append((back + some(rng.choice([0, 0, 1])), None))
    fcands = [i for i in range(len(pl['steps'])) if failable(pl['steps'], i) and pl['steps'][i]['mode'] != 'n']
    while len(rounds) < max(nrounds, away + 4):
        k = rng.choice([0, 1, 1, 2])
        edits = [((rid if rng.random() < 0.6 else rng.choice([r.rid for r in pl['res']])), None) for _ in range(k)]
        rounds.append((edits, rng.choice(fcands) if fcands and rng.random() < 0.12 else None))
    return rounds


# ------------------------------------------------------------------------------------------------
# execution on the real binary

def step_command(pl, i):
    s = pl['steps'][i]
    cmd = f'echo {s["name"]} >> journal.txt'
    if s['out']:
        cmd += f'; echo {s["name"]} > {s["out"]}; sleep 0.25'       # settle: let the metadata watcher see the new file
    cmd += f'; test ! -e fail_{s["name"]}'
    return cmd


def run_case(xvc, base, case, rng_seed):
    """build the pipeline, play the history; returns observations"""
    import random
    rng = random.Random(rng_seed)
    pl, rounds = case['pl'], case['rounds']
    sb = Sandbox(base, f'c{pl["id"]}', xvc)
    sb.init(git=False)
    clock = Clock()
    for r in pl['res']:
        r.watchers = [(d['id'], tuple(d['sel']) if isinstance(d['sel'], list) else d['sel']) for d in pl['deps'] if d['res'] == r.rid]
        r.create(sb, clock)
    obs = {'build': [], 'rounds': [], 'hang': False}
    P = ['pipeline', '-p', 'default']
    for i, s in enumerate(pl['steps']):
        a = P + ['step', 'new', '-s', s['name'], '-c', step_command(pl, i)] + (['--when', MODE_CLI[s['mode']]] if MODE_CLI[s['mode']] else [])
        rc, out, err = sb.x(*a); obs['build'].append(rc)
    for i, s in enumerate(pl['steps']):
        a = []
        for d in s['deps']:
            dd = pl['deps'][d]
            a += ['--file', f'out_{dd["outof"]}.txt'] if dd['res'] is None else pl['res'][dd['res']].cli(dd['kind'], dd['sel'])
        for u in s['explicit']:
            a += ['--step', pl['steps'][u]['name']]
        if a:
            rc, out, err = sb.x(*(P + ['step', 'dependency', '-s', s['name']] + a)); obs['build'].append(rc)
        if s['out']:
            rc, out, err = sb.x(*(P + ['step', 'output', '-s', s['name'], '--output-file', s['out']])); obs['build'].append(rc)
    defn = definition(sb, P)
    obs['definition'] = defn
    for edits, fail in rounds:
        applied = []
        for rid, op in edits:
            res = pl['res'][rid]
            op = op or rng.choice(res.ops())
            ev = res.apply(sb, op, clock)
            applied.append({'res': rid, 'kind': res.kind, 'op': op, 'events': ev})
        for s in pl['steps']:
            f = sb.path(f'fail_{s["name"]}')
            if os.path.exists(f): os.unlink(f)
        if fail is not None:
            sb.write(f'fail_{pl["steps"][fail]["name"]}', 'x')
        sb.write('journal.txt', '')
        time.sleep(0.02)
        rc, out, err = sb.x(*(P + ['run']), timeout=60)
        names = [l.strip() for l in (sb.read('journal.txt') or b'').decode().split('\n') if l.strip()]
        executed = sorted({int(x[1:]) for x in names})
        obs['rounds'].append({'edits': applied, 'fail': fail, 'rc': rc, 'executed': executed, 'twice': len(names) != len(set(names)),
                              'tail': (out + err)[-300:] if rc not in (0,) else ''})
        if rc == 124:
            obs['hang'] = True
            break
        after = definition(sb, P)
        if after != defn:
            obs['rounds'][-1]['definition_changed'] = definition_diff(defn, after)
            defn = after
        if rc == 0 and (fail is None or fail not in executed) and not any(r.absent and r.kind != 'globdir' for r in pl['res']):
            for r in pl['res']:
                r.fresh = set()         # the run recorded what it saw: members added before it are old members now
    sb.cleanup()
    return obs


ID_KEYS = ('path', 'glob', 'begin', 'end', 'regex', 'format', 'key', 'generic_command', 'name', 'url', 'query')


def definition(sb, P):
    """the pipeline definition as `xvc pipeline export` shows it, without what a run is there to refresh (digests, metadata,
    recorded values): per step its command, invalidation mode, outputs and the set of dependencies (kind + what identifies
    the watched thing).  Only `step new/update/dependency/output`, `import`, `delete` edit it; `run` never does."""
    rel = 'definition.json'
    try: os.unlink(sb.path(rel))
    except OSError: pass
    rc, out, err = sb.x(*(P + ['export', '--file', rel]))
    try:
        doc = json.loads(sb.read(rel) or b'')
        os.unlink(sb.path(rel))
    except (ValueError, OSError):
        return {'error': f'export failed rc={rc}: {(out + err)[-200:]}'}
    d = {}
    for s in doc.get('steps', []):
        deps = sorted(json.dumps([k, {a: b for a, b in v.items() if a in ID_KEYS}], sort_keys=True)
                      for dep in s.get('dependencies', []) for k, v in dep.items())
        d[s.get('name')] = {'command': s.get('command'), 'invalidate': s.get('invalidate'), 'dependencies': deps,
                            'outputs': sorted(json.dumps(o, sort_keys=True) for o in s.get('outputs', []))}
    return d


def definition_diff(a, b):
    out = []
    for name in sorted(set(a) | set(b)):
        x, y = a.get(name), b.get(name)
        if x == y: continue
        if not isinstance(x, dict) or not isinstance(y, dict):
            out.append({'step': name, 'what': 'step removed' if y is None else ('step added' if x is None else 'export failed')}); continue
        for key in ('command', 'invalidate', 'outputs', 'dependencies'):
            if x.get(key) != y.get(key):
                lost = [e for e in (x.get(key) or []) if e not in (y.get(key) or [])] if isinstance(x.get(key), list) else x.get(key)
                new = [e for e in (y.get(key) or []) if e not in (x.get(key) or [])] if isinstance(y.get(key), list) else y.get(key)
                out.append({'step': name, 'field': key, 'lost': lost, 'new': new})
    return out


# ------------------------------------------------------------------------------------------------
# the model side

def model_lines(case, obs):
    pl = case['pl']
    lines = [f'pipe {len(pl["steps"])}']
    for i, s in enumerate(pl['steps']):
        f = lambda l: ','.join(map(str, l)) if l else '-'
        lines.append(f'step {i} {s["mode"]} {f(s["deps"])} {f(s["explicit"])} {f(s["implicit"])}')
    for d in pl['deps']:
        if d['kind'] == 'glob':
            lines.append(f'mc {d["id"]}')
    marks = []
    for r in obs['rounds']:
        for e in r['edits']:
            for d, kind in e['events']:
                lines.append(f'{kind} {d}')
        marks.append(len(lines))
        lines.append(f'run {r["fail"] if r["fail"] is not None else "-"} -')
    return lines, marks


# ------------------------------------------------------------------------------------------------
# the oracle: what the property demands, from the edit log alone

def oracle(case, obs):
    """returns list of failures {what, round, step, signature}"""
    pl = case['pl']
    steps, deps = pl['steps'], pl['deps']
    n = len(steps)
    always_like = [s['mode'] == 'a' or (s['mode'] == 'd' and not s['deps'] and not s['explicit']) for s in steps]
    pending = {d['id'] for d in deps}              # content not yet seen by a fully successful run
    touched = set()                                # metadata changed since then, content not
    absent = set()                                 # the watched resource is away
    maybe = set()                                  # content seen by an execution in a run of which the property does not say whether it counts
    ran_away = set()                               # absent dependencies whose step was executed while they were away
    out = []
    for ri, r in enumerate(obs['rounds']):
        real_this_round = set()
        for e in r['edits']:
            for d, kind in e['events']:
                if kind in ('edit', 'add', 'rm', 'param'):
                    pending.add(d); real_this_round.add(d); touched.discard(d); maybe.discard(d)
                elif kind == 'vanish':
                    absent.add(d)
                elif kind == 'return':
                    absent.discard(d)
                    if d in ran_away and d not in pending:
                        maybe.add(d)           # its step has been executed without it: running again for what came back is allowed, not demanded
                    ran_away.discard(d)
                elif d not in pending:
                    touched.add(d)
        ex = set(r['executed'])
        failed = {r['fail']} & ex if r['fail'] is not None else set()
        up = lambda i: steps[i]['explicit'] + steps[i]['implicit']
        blocked, must, undet = [False] * n, [False] * n, [False] * n
        away = [steps[i]['mode'] != 'n' and any(d in absent for d in steps[i]['deps']) for i in range(n)]
        for i in range(n):
            blocked[i] = any(u in failed or blocked[u] for u in up(i))
            own = any(d in pending for d in steps[i]['deps'])
            # The property is silent about a run during which a watched file is away (the unchanged tree ends such a step
            # broken and its dependents with it; executing it is not forbidden either), and about steps whose last execution
            # happened in such a run: no verdict on them and on everything below them.
            undet[i] = away[i] or any(undet[u] for u in up(i)) or \
                (steps[i]['mode'] != 'n' and not own and any(d in maybe for d in steps[i]['deps']))
            must[i] = steps[i]['mode'] != 'n' and not blocked[i] and not undet[i] and (own or any(must[u] and u not in failed for u in up(i)))
        for i in range(n):
            if must[i] and i not in ex:
                why = 'owns a changed dependency' if any(d in pending for d in steps[i]['deps']) else 'is downstream of a step that had to run'
                out.append({'round': ri, 'step': i, 'what': f'round {ri}: step s{i} {why} but was not executed (executed: {sorted(ex)})',
                            'signature': {'kind': 'missed-rerun', 'touched_own': any(d in touched for d in steps[i]['deps'])}})
            if i in ex and steps[i]['mode'] == 'n':
                out.append({'round': ri, 'step': i, 'what': f'round {ri}: step s{i} is marked never but was executed', 'signature': {'kind': 'never-executed'}})
            if i in ex and not must[i] and not undet[i] and not always_like[i] and steps[i]['mode'] != 'n':
                # an executed step the property does not ask for; find the root of its execution (a step runs when a step it
                # depends on ran) and classify that root for the known findings
                root = i
                while True:
                    nxt = next((u for u in up(root) if u in ex and not must[u]), None)
                    if nxt is None: break
                    root = nxt
                via = '' if root == i else f' (it is below s{root}, which ran)'
                if always_like[root]:
                    sig = {'kind': 'spurious-rerun', 'cause': 'downstream-of-always-step'}
                elif any(d in touched and deps[d]['kind'] == 'glob' for d in steps[root]['deps']):
                    sig = {'kind': 'spurious-rerun', 'cause': 'glob-digest-touched'}
                elif any(d in touched for d in steps[root]['deps']):
                    sig = {'kind': 'spurious-rerun', 'cause': 'own-dependency-only-touched',
                           'unrelated_change_in_run': bool(pending - set(steps[root]['deps']))}
                else:
                    sig = {'kind': 'spurious-rerun', 'cause': 'nothing-changed'}
                out.append({'round': ri, 'step': i, 'what': f'round {ri}: step s{i} was executed although nothing it depends on changed and no step above it '
                            f'had to run{via} ({sig["cause"]}; executed: {sorted(ex)})', 'signature': sig})
        if r['twice']:
            out.append({'round': ri, 'step': -1, 'what': f'round {ri}: a step command ran twice in one run', 'signature': {'kind': 'ran-twice'}})
        if r.get('definition_changed'):
            # `pipeline run` does not edit the pipeline definition: the steps, their commands and the SET of dependencies of each
            # step are what `step new / update / dependency / output` and `import` made them
            ch = r['definition_changed']
            out.append({'round': ri, 'step': -1, 'what': f'round {ri}: `pipeline run` changed the pipeline definition (export before / after the run): {json.dumps(ch)[:600]}',
                        'signature': {'kind': 'run-edited-definition', 'fields': sorted({c.get('field', c.get('what')) for c in ch}),
                                      'while_absent': bool(absent)}})
        if not failed and r['rc'] == 0 and not any(blocked):
            if not any(away):
                for s in steps:
                    if s['mode'] != 'n':
                        for d in s['deps']:
                            pending.discard(d); maybe.discard(d)
                            if deps[d]['kind'] == 'glob':
                                touched.discard(d)          # a glob digest is recorded anew when its metadata digest changed
            else:
                # a run with a watched file away: whether it counts as fully successful (and records) is not for the property to
                # say; what an executed step has seen need not be acted on again, but may be
                for i, s in enumerate(steps):
                    if s['mode'] != 'n' and i in ex:
                        for d in s['deps']:
                            if d in absent:
                                ran_away.add(d)
                            elif d in pending:
                                pending.discard(d); maybe.add(d)
    return out


def ancestors(steps, i):
    out, todo = set(), [i]
    while todo:
        x = todo.pop()
        for u in steps[x]['explicit'] + steps[x]['implicit']:
            if u not in out:
                out.add(u); todo.append(u)
    return out


def all_chain_executed(steps, i, ex, always_like):
    """is there a path from an executed always-like step down to i along executed steps?"""
    ok = {}
    def reach(j):
        if j in ok: return ok[j]
        ok[j] = j in ex and (always_like[j] or any(reach(u) for u in steps[j]['explicit'] + steps[j]['implicit']))
        return ok[j]
    return reach(i)


# ------------------------------------------------------------------------------------------------
# fixed cases: the design's reproductions

def corpus():
    def mk(idx, steps, deps, reskinds, rounds):
        res = [Res(k, i) for i, k in enumerate(reskinds)]
        for d in deps:
            d.setdefault('sel', None); d.setdefault('id', deps.index(d))
        for i, s in enumerate(steps):
            s.setdefault('name', f's{i}'); s.setdefault('implicit', []); s.setdefault('out', None)
        return {'pl': {'id': idx, 'steps': steps, 'deps': deps, 'res': res}, 'rounds': rounds}
    cases = []
    # F7a: A (s1) depends on step C (s0) and on a file that is only touched; unrelated B (s2) has a real change.
    # A's thread waits >= one poll interval for C, so B's diffs are in the shared map when A makes its thorough pass.
    cases.append(mk('F7a', [{'mode': 'd', 'deps': [0], 'explicit': []}, {'mode': 'd', 'deps': [1], 'explicit': [0]}, {'mode': 'd', 'deps': [2], 'explicit': []}],
                    [{'kind': 'file', 'res': 0, 'step': 0}, {'kind': 'file', 'res': 1, 'step': 1}, {'kind': 'file', 'res': 2, 'step': 2}],
                    ['file', 'file', 'file'], [([], None), ([(1, 'touch'), (2, 'edit')], None), ([], None)]))
    # F7b: D (s1) has a touched file and depends on step B (s0) whose file really changed.
    cases.append(mk('F7b', [{'mode': 'd', 'deps': [0], 'explicit': []}, {'mode': 'd', 'deps': [1], 'explicit': [0]}],
                    [{'kind': 'file', 'res': 0, 'step': 0}, {'kind': 'file', 'res': 1, 'step': 1}], ['file', 'file'],
                    [([], None), ([(0, 'edit'), (1, 'touch')], None), ([], None)]))
    # F7c: T (s1) below the always-step W (s0); then T's file is touched (the unpatched tree stops running T from then on)
    cases.append(mk('F7c', [{'mode': 'a', 'deps': [], 'explicit': []}, {'mode': 'd', 'deps': [0], 'explicit': [0]}],
                    [{'kind': 'file', 'res': 0, 'step': 1}], ['file'], [([], None), ([], None), ([(0, 'touch')], None), ([], None)]))
    # glob digest vs glob items under a touch
    cases.append(mk('globtouch', [{'mode': 'd', 'deps': [0], 'explicit': []}, {'mode': 'd', 'deps': [1], 'explicit': []}],
                    [{'kind': 'glob', 'res': 0, 'step': 0}, {'kind': 'glob-items', 'res': 0, 'step': 1}], ['globdir'],
                    [([], None), ([(0, 'touch-member')], None), ([], None), ([(0, 'add-member')], None), ([(0, 'rm-member')], None)]))
    # failed run keeps the change: s0 fails after its file changed; next run (no edit) must run s0 and s1 again
    cases.append(mk('failkeeps', [{'mode': 'd', 'deps': [0], 'explicit': []}, {'mode': 'd', 'deps': [1], 'explicit': [0]}, {'mode': 'd', 'deps': [2], 'explicit': []}],
                    [{'kind': 'param', 'res': 0, 'sel': 'k0', 'step': 0}, {'kind': 'lines', 'res': 1, 'sel': (0, 2), 'step': 1}, {'kind': 'regex', 'res': 2, 'sel': 'sel', 'step': 2}],
                    ['params', 'linesfile', 'regexfile'],
                    [([], None), ([(0, 'set:k0'), (2, 'line:0')], 0), ([], None), ([(0, 'set:k1'), (1, 'line:5'), (2, 'line:1')], None), ([], None)]))
    # away and back: one step per file-like dependency kind, each next to a second dependency (a file nobody edits); every watched
    # file is away for one run, comes back (same bytes and mtime), then its selected content is edited, twice
    kinds = [('file', 'file', None), ('param', 'params', 'k0'), ('lines', 'linesfile', (0, 2)), ('line-items', 'linesfile', (0, 2)),
             ('regex', 'regexfile', 'sel'), ('regex-items', 'regexfile', 'sel'), ('generic', 'gensrc', None)]
    nk = len(kinds)
    edit = {'file': 'edit', 'params': 'set:k0', 'linesfile': 'line:0', 'regexfile': 'line:0', 'gensrc': 'edit'}
    cases.append(mk('awayback', [{'mode': 'd', 'deps': [2 * i, 2 * i + 1], 'explicit': []} for i in range(nk)],
                    [x for i, (k, rk, sel) in enumerate(kinds) for x in ({'kind': k, 'res': i, 'sel': sel, 'step': i}, {'kind': 'file', 'res': nk, 'step': i})],
                    [rk for _, rk, _ in kinds] + ['file'],
                    [([], None), ([(i, 'vanish') for i in range(nk)], None), ([(i, 'return') for i in range(nk)], None),
                     ([(i, edit[rk]) for i, (_, rk, _) in enumerate(kinds)], None), ([(i, edit[rk]) for i, (_, rk, _) in enumerate(kinds)], None)]))
    return cases


# ------------------------------------------------------------------------------------------------

def translator(chk):
    """what the model assumes about pipeline/mod.rs, re-read on every run"""
    rel = 'pipeline/src/pipeline/mod.rs'
    try:
        src = open(os.path.join(REPO, rel), encoding='utf-8').read()
    except OSError as e:
        chk.proof['broken'].append({'stage': 'translator', 'errors': [str(e)]}); return {}
    info = {}
    try:
        body, ln = pc._block(src, 'fn s_checking_thorough_diffs_f_superficial_diffs_changed', rel)
        info['thorough_pass_line'] = ln
        info['patch_a_own_dependencies_only'] = bool(re.search(r'\.filter\(\|\(dep_e, _\)\| deps\.contains_key\(dep_e\)\)', body)) or \
            not re.search(r'params\s*\.dependency_diffs\s*\.read\(\)\?\s*\.iter\(\)\s*\.map', body)
        body, ln = pc._block(src, 'fn s_comparing_diffs_and_outputs_f_thorough_diffs_not_changed', rel)
        info['patch_b_consults_dependency_steps'] = 'DoneByRunning' in body or 'dependency_steps_done_by_running' in body
        lits = {}
        for name in ('run_never', 'run_calculated', 'run_always'):
            b, _ = pc._block(src, f'let {name} = RunConditions', rel)
            lits[name] = {k: v == 'true' for k, v in re.findall(r'(\w+):\s*(true|false)', b)}
        info['run_conditions'] = lits
        want = {'run_never': {'never': True, 'always': False, 'ignore_missing_outputs': False, 'ignore_broken_dep_steps': False},
                'run_calculated': {'never': False, 'always': False, 'ignore_broken_dep_steps': False, 'ignore_missing_outputs': True},
                'run_always': {'never': False, 'always': True, 'ignore_missing_outputs': True, 'ignore_broken_dep_steps': True}}
        if lits != want:
            chk.proof['broken'].append({'stage': 'translator', 'errors': [f'RunConditions literals differ from `Inval.runConditions`: {lits}']})
        if 'if let Ok(true) = done_successfully' not in src:
            chk.proof['broken'].append({'stage': 'translator', 'errors': ['the "save only if done successfully" guard of the_grand_pipeline_loop was not found']})
    except pc.TieBroken as e:
        chk.proof['broken'].append({'stage': 'translator', 'errors': [str(e)]})
    return info


def enc_case(case, obs=None):
    pl = case['pl']
    return {'id': pl['id'], 'steps': pl['steps'], 'deps': pl['deps'], 'res': [r.kind for r in pl['res']],
            'rounds': [[list(map(list, e)), f] for e, f in case['rounds']] if obs is None else
                      [[[[e['res'], e['op']] for e in r['edits']], r['fail']] for r in obs['rounds']]}


def dec_case(c):
    res = [Res(k, i) for i, k in enumerate(c['res'])]
    deps = [dict(d, sel=tuple(d['sel']) if isinstance(d['sel'], list) else d['sel']) for d in c['deps']]
    return {'pl': {'id': c['id'], 'steps': c['steps'], 'deps': deps, 'res': res}, 'rounds': [([tuple(e) for e in es], f) for es, f in c['rounds']]}


def evaluate(chk, xvc, model, cases, base, stream):
    seeds = [chk.rng.randrange(1 << 30) for _ in cases]
    observations = pc.pmap(lambda cs: run_case(xvc, base, cs[0], cs[1]), list(zip(cases, seeds)))
    lines, spans = [], []
    for case, obs in zip(cases, observations):
        ls, marks = model_lines(case, obs)
        spans.append((len(lines), marks))
        lines += ls + ['reset']
    ans = None
    if model:
        rc, ans, err = run_lines(model, ['invalidate'], lines)
        if rc != 0:
            chk.disagreement(stream, [], f'model driver rc={rc}', err[-400:], 'process failure'); ans = None
    st = chk.tie['streams'].setdefault(stream, {'cases': 0, 'runs': 0, 'disagreements': 0, 'oracle_failures': 0, 'known_finding_hits': 0})
    bad = []
    for case, obs, (off, marks) in zip(cases, observations, spans):
        st['cases'] += 1; st['runs'] += len(obs['rounds'])
        chk.evaluations += 1
        pl = case['pl']
        for d in pl['deps']: chk.count('dep:' + d['kind'] + (':output-of-step' if d['res'] is None else ''))
        for s in pl['steps']: chk.count('mode:' + s['mode'])
        kind_of = {d['id']: d['kind'] for d in pl['deps']}
        nown = {d['id']: len(pl['steps'][d['step']]['deps']) + len(pl['steps'][d['step']]['explicit']) for d in pl['deps']}
        for r in obs['rounds']:
            for e in r['edits']:
                if e['op'] == 'vanish':
                    for d, _ in e['events']:
                        chk.count(f'vanish:{kind_of[d]}:' + ('only-dependency-of-its-step' if nown[d] == 1 else 'next-to-other-dependencies'))
            if r.get('definition_changed'): chk.count('run:definition-changed')
        chk.count('steps:%d' % len(pl['steps']))
        for r in obs['rounds']:
            chk.count('run:' + ('with-failure' if r['fail'] is not None and r['fail'] in r['executed'] else 'ok') + (':no-edit' if not r['edits'] else ''))
            for e in r['edits']:
                chk.count(f'edit:{e["kind"]}:{e["op"].split(":")[0]}')
                for _, k in e['events']: chk.count('event:' + k)
        if any(rc != 0 for rc in obs['build']):
            chk.disagreement(stream, enc_case(case, obs), 'a construction command failed', '', 'harness'); continue
        if obs['hang']:
            # termination is C11's property: a run that does not end gives no journal to judge; recorded, not judged here
            chk.count('run:did-not-terminate-within-60s')
            chk.extra.setdefault('runs_that_did_not_terminate', []).append(enc_case(case, obs))
            obs['rounds'] = obs['rounds'][:-1]
            if not obs['rounds']: continue
        if len(obs['rounds']) >= 2 and any(r['edits'] for r in obs['rounds']) and any(0 < len(r['executed']) < len(pl['steps']) for r in obs['rounds'][1:]):
            chk.nontrivial.add(hashlib.sha1(json.dumps(enc_case(case, obs), sort_keys=True, default=str).encode()).hexdigest())
        fl = oracle(case, obs)
        if fl:
            bad.append(('oracle', case, obs, fl))
        if ans is not None:
            for ri, (m, r) in enumerate(zip(marks, obs['rounds'])):
                a = ans[off + m] if off + m < len(ans) else '<eof>'
                got = re.match(r'exec=(\S+)', a)
                mex = [] if not got or got.group(1) == '-' else [int(x) for x in got.group(1).split(',')]
                if mex != r['executed']:
                    st['disagreements'] += 1
                    bad.append(('tie', case, obs, {'round': ri, 'implementation': r['executed'], 'model': a}))
                    break
        if len(chk.samples) < 5 and len(pl['steps']) >= 3 and st['cases'] % 6 == 2:
            ls, marks = model_lines(case, obs)
            chk.samples.append({'pipeline': [{k: s[k] for k in ('name', 'mode', 'deps', 'explicit', 'implicit')} for s in pl['steps']],
                                'dep_kinds': [d['kind'] for d in pl['deps']], 'model_lines': ls,
                                'model_answers': [ans[off + m] for m in marks] if ans else None,
                                'journal_per_run': [r['executed'] for r in obs['rounds']]})
    return bad


def confirm(chk, xvc, model, base, kind, case, obs, want):
    """Re-execute a failing history (same pipeline, same explicit edits) up to 3 times; a failure is reported only if it shows
    again.  The run-time residual of the property (thread schedule, inotify-fed metadata cache, machine load) produced one
    non-repeatable journal in ~6000 runs; such anomalies are recorded in the evidence, not reported as violations."""
    enc = enc_case(case, obs)
    for attempt in range(3):
        c2 = dec_case(json.loads(json.dumps(enc, default=list)))
        c2['pl']['id'] = f'{enc["id"]}r{attempt}'
        o2 = run_case(xvc, base, c2, 1)
        if kind == 'oracle':
            fl = [f for f in oracle(c2, o2) if json.dumps(f['signature'], sort_keys=True) == want]
            if fl:
                return c2, o2, fl[0]
        else:
            ls, marks = model_lines(c2, o2)
            rc, ans, err = run_lines(model, ['invalidate'], ls)
            for ri, (m, r) in enumerate(zip(marks, o2['rounds'])):
                got = re.match(r'exec=(\S+)', ans[m] if m < len(ans) else '')
                mex = [] if not got or got.group(1) == '-' else [int(x) for x in got.group(1).split(',')]
                if mex != r['executed']:
                    return c2, o2, {'round': ri, 'implementation': r['executed'], 'model': ans[m] if m < len(ans) else '<eof>'}
    return None


def report(chk, stream, bad, xvc=None, model=None, base=None):
    seen = set()
    for kind, case, obs, info in bad:
        if kind == 'oracle':
            for f in info:
                want = json.dumps(f['signature'], sort_keys=True)
                key = (kind, want)
                if key in seen: continue
                seen.add(key)
                if xvc:
                    conf = confirm(chk, xvc, model, base, kind, case, obs, want)
                    if conf is None:
                        chk.count('anomaly:not-reproduced-in-3-reruns')
                        chk.extra.setdefault('unreproduced_anomalies', []).append({'what': f['what'], 'case': enc_case(case, obs)})
                        seen.discard(key)
                        continue
                    case2, obs2, f = conf
                else:
                    case2, obs2 = case, obs
                c = enc_case(case2, obs2)
                c['rounds'] = c['rounds'][:f['round'] + 1]
                before = len(chk.oracle_failures)
                chk.oracle_failure(f['what'], c, {'journal_per_run': [r['executed'] for r in obs2['rounds']][:f['round'] + 1], 'step': f['step']},
                                   signature=f['signature'])
                if len(chk.oracle_failures) == before:
                    chk.tie['streams'][stream]['known_finding_hits'] += 1
                else:
                    chk.tie['streams'][stream]['oracle_failures'] += 1
        else:
            key = (kind, 'tie')
            if key in seen: continue
            seen.add(key)
            if xvc and model:
                conf = confirm(chk, xvc, model, base, kind, case, obs, None)
                if conf is None:
                    chk.count('anomaly:not-reproduced-in-3-reruns')
                    chk.extra.setdefault('unreproduced_anomalies', []).append({'what': f'executed set differs from the model in run {info["round"]}: {info}',
                                                                               'case': enc_case(case, obs)})
                    seen.discard(key)
                    continue
                case, obs, info = conf
            c = enc_case(case, obs)
            c['rounds'] = c['rounds'][:info['round'] + 1]
            chk.disagreement(stream, c, info['implementation'], info['model'], f'executed set of run {info["round"]}')


def run(chk: Check):
    quick = chk.tier == 'quick'
    model = chk.lean('XvcPipeData', 'XvcPipeData.Props.C12', exe='pipedata', extra_modules=['XvcPipeData.Invalidate', 'XvcPipeData.InvalidateLemmas', 'XvcPipeData.InvalidateStore'])
    model = model if model and os.path.exists(model) else None
    xvc = chk.build_xvc()
    pc.load_proposed(chk, PROPOSED_FINDINGS)
    info = translator(chk)
    chk.extra['extract'] = info
    chk.extra['excluded_dependency_kinds'] = EXCLUDED_KINDS
    chk.trusted_base += [
        'lib/c12.py: pipeline / history generator, journal reader, edit-log oracle; lib/pipe_common.py (anchored source reader)',
        'the model is a fold in topological order: step threads, channels, the bulletin thread and the process pool are the subject of C10/C11/C13, not of this model',
        'modelled, not verified: digests (content equality = digest equality), the glob / regex / yaml crates selecting the content of a dependency, file-system metadata, petgraph::toposort',
    ]
    chk.assumptions += [
        'an edit changes size or mtime (EditsVisible; the harness grows sizes and sets strictly increasing explicit mtimes)',
        'XvcPathMetadataProvider: metadata is read freshly at the start of every `pipeline run` process; files produced DURING a run are read through the inotify-fed cache, the harness lets producing steps sleep 0.25 s (settle delay); a stale read there would make the recorded metadata stale (residual, level partial)',
        'no generated run contains a step with one done and one broken dependency step (F5: resources vanish only where the steps watching them may all end broken at once); an output file is never missing when its consumer is compared (K4b); the process pool is left at its default (F6)',
        'a run during which a watched file is away: the oracle gives no verdict on the steps watching it, on the steps below them, and (until the next fully successful run) on steps executed in that run; it demands that the run leaves the pipeline definition alone and that changes made after the return are acted on',
        'outputs of steps are written with constant content, so a file dependency on an output is only "touched" by its producer',
        'pipelines with both a --glob (digest) dependency and an output-file edge are not generated: graph construction caches "missing" for the not yet existing output (glob_includes -> path_present) and the consumer then races with the inotify event (inotify residual; observed once under load as consumer threads dying with PathNotFound)',
    ]
    if not info.get('patch_a_own_dependencies_only') or not info.get('patch_b_consults_dependency_steps'):
        chk.notes.append('pipeline/mod.rs does not contain patches/C12-F7.patch: the model (which mirrors the patched decision) and the tree differ; '
                         'the oracle below searches for the failing history')
    base = os.path.join(chk.scratch, 'repos'); os.makedirs(base, exist_ok=True)
    ncases, nrounds = (120, (3, 5)) if quick else (1200, (3, 7))
    chk.extra['rule'] = (f'corpus (6 fixed histories: F7a, F7b, F7c, glob-digest vs glob-items under touch, failed run keeps the change, every file-like dependency kind away for one run and back) + {ncases} generated pipelines '
                         f'(2-6 steps in a random DAG of --step edges and output-file edges; modes by_dependencies/always/never; 0-3 dependencies per step over the kinds {KINDS}, '
                         'some sharing a file through different keys / line ranges / patterns) each with a history of '
                         f'{nrounds[0]}-{nrounds[1]} runs interleaved with 0-3 edits (content edit, touch, add/remove glob member, set this / another parameter, edit a selected / '
                         'unselected line, edit / touch the source of a generic command) and, in ~22% of the runs, a failing step; 2 of 5 histories are of the family '
                         '"a watched file / parameter file / command source / glob directory is moved away for 1-2 runs and moved back (same bytes and mtime), alone or followed by '
                         'a touch / an edit of selected or unselected content, then edited further", for every dependency kind, as the only dependency of its step and next to others, '
                         'with and without steps above / below; after every run `pipeline export` is compared with the export before it (steps, commands, modes, outputs, set of '
                         'dependencies). Non-trivial: a history with an edit after which '
                         'a run executes a proper non-empty subset of the steps; distinct by pipeline+history.')
    cases = []
    for i in range(ncases):
        pl = gen_pipeline(chk.rng, i)
        rounds = gen_vanish_history(chk.rng, pl, chk.rng.randint(*nrounds)) if i % 5 in (1, 3) else None
        chk.count('history:' + ('a-watched-resource-vanishes-and-returns' if rounds else 'edits-and-failures'))
        cases.append({'pl': pl, 'rounds': rounds or gen_history(chk.rng, pl, chk.rng.randint(*nrounds))})
    bad = evaluate(chk, xvc, model, corpus(), base, 'corpus')
    report(chk, 'corpus', bad, xvc, model, base)
    for i in range(0, len(cases), 64):
        report(chk, 'generated', evaluate(chk, xvc, model, cases[i:i + 64], base, 'generated'), xvc, model, base)
    if model is None:
        chk.notes.append('model driver did not build; only the implementation-side oracle ran')
    return chk.finish()


def replay(chk: Check, data):
    xvc = chk.build_xvc()
    pc.load_proposed(chk, PROPOSED_FINDINGS)
    base = os.path.join(chk.scratch, 'repos'); os.makedirs(base, exist_ok=True)
    for f in data.get('failures', []):
        case = dec_case(f['case'])
        obs = run_case(xvc, base, case, 1)
        chk.evaluations += 1
        fl = oracle(case, obs)
        print('pipeline:', [{k: s[k] for k in ('name', 'mode', 'deps', 'explicit', 'implicit')} for s in case['pl']['steps']])
        print('dependency kinds:', [d['kind'] for d in case['pl']['deps']])
        for r in obs['rounds']:
            print('  edits', [(e['kind'], e['op'], e['events']) for e in r['edits']], 'fail', r['fail'], '-> executed', r['executed'])
        print('oracle:', [x['what'] for x in fl] or 'property holds on this input')
        for x in fl[:3]:
            chk.oracle_failure(x['what'], f['case'], {'journal_per_run': [r['executed'] for r in obs['rounds']]}, signature=x['signature'])
    return chk.finish()
