"""C17 — see DESIGN.md section 4 ("the repository model") and lean/XvcRepo/XvcRepo/Props/C17.lean.
Proof: Lean theorems about the executable repository model.  Tie: the model driver is compared with the rebuilt xvc
binary after every command of generated histories.  Oracle: model-independent, lib/repo_check.py.

Targets of one command that are copied out of the cache at the same time (rayon): Props/C17Tmp.lean proves that any
schedule of the per-file copy procedures equals the sequential run because their directory entries (the path and its
temporary name) are disjoint.  Stream `tmp-name` ties the temporary name of the model to the name the binary really
renames from (strace); stream `parallel-siblings` is the search for a failing input (files that differ in the extension
only, copied by parallel track / recheck, judged without the model)."""
import hashlib
import os
import random
import re
import shutil
import stat
import subprocess

import repo_check as rc

ORACLES = [rc.o6_methods, rc.o6_method_sticks]
RESTORE = dict()

FIXED_NAMES = ['a.txt', '.a.txt.xvc-tmp', 'model.bin', 'model.json', 'model', 'm.b', 'm.j', '.hidden', '.hidden.cfg', 'archive.tar.gz', 'archive.tar.xz',
               'x..y', 'trailing.', 'sp ace.dat', 'sp ace.txt', 'ünï.bin', 'ünï.json', 'a.xvc-tmp', 'xvc-tmp', 'noext', 'N.B', 'n.b',
               '-dash.bin', 'a.b.c.d', 'é', '日本.語']
ALPHABET = ['a', 'b', 'm', 'Z', '0', '.', '.', '-', '_', ' ', 'é', 'ß', '語', 'x', 'v', 'c', 't', 'p']


def gen_names(rng, n):
    out = list(FIXED_NAMES)
    while len(out) < len(FIXED_NAMES) + n:
        k = rng.randint(1, 14)
        s = ''.join(rng.choice(ALPHABET) for _ in range(k))
        if s in ('.', '..') or s.endswith(' ') or s.startswith(' ') or s.startswith('-') or s in out:
            continue          # blanks at the ends / leading dash are a matter of the argument parser and .gitignore (C16), not of C17
        out.append(s)
    # siblings of one stem
    for s in list(out[len(FIXED_NAMES):len(FIXED_NAMES) + n // 3]):
        st = s.rsplit('.', 1)[0] if '.' in s[1:] else s
        for e in ('.bin', '.json'):
            if st + e not in out and st not in ('', '.'):
                out.append(st + e)
    return out


def unhex_c(s):
    """a C string literal as printed by `strace -xx` (every byte as \\xNN) -> bytes"""
    return bytes(int(h, 16) for h in re.findall(r'\\x([0-9a-f]{2})', s))


def ask_model(model, lines):
    if not os.path.exists(model):
        return None
    p = subprocess.run([model], input='\n'.join(lines) + '\n', stdout=subprocess.PIPE, text=True, timeout=300)
    return p.stdout.split('\n')[:len(lines)]


def tmp_name_stream(chk, xvc, model, n_random):
    """Which directory entries does the binary touch when it copies a file out of the cache?  strace reports every
    rename(2); the source of a rename whose destination is a workspace path is the temporary entry.  The model says:
    `.xvc/tmp/<pid>-<k>`, k = 0, 1, 2, ... in the order of the copies of the process (TmpName.lean)."""
    from xvcbin import Sandbox
    st = chk.tie['streams'].setdefault('tmp-name', {'names': 0, 'renames_observed': 0, 'disagreements': 0, 'commands_traced': 0})
    if not shutil.which('strace'):
        chk.notes.append('strace not available: temporary entries not observed')
        return 0
    rng = random.Random(f'c17-tmp-{chk.seed}')
    names = gen_names(rng, n_random)
    dirs = ['', 'd/e/']
    sb = Sandbox(os.path.join(chk.scratch, 'c17tmp'), 'A', xvc)
    sb.init()
    paths = []
    for i, nm in enumerate(names):
        d = dirs[i % 2] if i >= 6 else ''
        p = d + nm
        sb.write(p, f'content of {i}\n'.encode() * 3)
        paths.append(p)
    # files of the USER that are named like temporary files of earlier schemes (`.<name>.xvc-tmp`, `<stem>.xvc-tmp`): never tracked
    users = {}
    for p in paths[:40:3]:
        d, f = os.path.split(p)
        for un in (f'.{f}.xvc-tmp', f'{f.rsplit(".", 1)[0] if "." in f[1:] else f}.xvc-tmp'):
            up = os.path.join(d, un)
            if up not in paths and up not in users:
                users[up] = f'the user\'s own file {up}\n'.encode()
                sb.write(up, users[up])
    want_root = os.path.realpath(sb.root)
    observed = {}          # path -> list of rename sources (relative, bytes)
    per_command = []

    def traced(args, label):
        tf = os.path.join(sb.base, f'trace-{label}')
        rc_, out, err = sb.run(['strace', '-f', '-qq', '-xx', '-s', '4096', '-o', tf, '-e', 'trace=execve,rename,renameat,renameat2', xvc] + args)
        st['commands_traced'] += 1
        pending, srcs, pid0 = {}, [], None
        for line in open(tf, errors='replace'):
            # with -f a call of one thread may be printed in two pieces around the calls of other threads
            pid = line.split(' ', 1)[0]
            if pid0 is None and ' execve(' in line:
                pid0 = pid
            mu = re.search(r'rename(?:at2?)?\((?:AT_FDCWD, )?"((?:\\x[0-9a-f]{2})*)", (?:AT_FDCWD, )?"((?:\\x[0-9a-f]{2})*)"(?:, [A-Z_0-9|]+)?\s*<unfinished', line)
            if mu:
                pending[pid] = mu; continue
            mr = re.search(r'<\.\.\. rename(?:at2?)? resumed>.*\)\s*= (-?\d+)', line)
            if mr:
                m = pending.pop(pid, None) if mr.group(1) == '0' else None
                if mr.group(1) != '0': pending.pop(pid, None)
            else:
                m = re.search(r'rename(?:at2?)?\((?:AT_FDCWD, )?"((?:\\x[0-9a-f]{2})*)", (?:AT_FDCWD, )?"((?:\\x[0-9a-f]{2})*)"(?:, [A-Z_0-9|]+)?\)\s*= 0', line)
            if not m:
                continue
            src, dst = unhex_c(m.group(1)), unhex_c(m.group(2))
            src_abs = os.path.normpath(os.path.join(want_root.encode(), src))
            dst_abs = os.path.normpath(os.path.join(want_root.encode(), dst))
            rel = os.path.relpath(dst_abs, want_root.encode())
            if rel.startswith((b'.xvc/', b'.git/', b'../')) or rel == b'..':
                continue          # cache / store files, git's own lock files
            st['renames_observed'] += 1
            srel = os.path.relpath(src_abs, want_root.encode())
            observed.setdefault(rel, []).append((label, srel))
            srcs.append(srel)
        per_command.append((label, pid0, srcs))
        return rc_, out, err

    # parallel track (copy method: the file is moved to the cache and copied back), then delete and recheck (serial and "parallel")
    r1 = traced(['file', 'track', '--recheck-method', 'copy', '--'] + paths, 'track')
    for p in paths[::2]:
        if os.path.lexists(sb.path(p)): os.unlink(sb.path(p))
    r2 = traced(['file', 'recheck', '--'] + paths[::2], 'recheck')
    for p in paths[1::2]:
        if os.path.lexists(sb.path(p)): os.unlink(sb.path(p))
    r3 = traced(['file', 'recheck', '--no-parallel', '--'] + paths[1::2], 'recheck-np')
    for (rc_, out, err), label in ((r1, 'track'), (r2, 'recheck'), (r3, 'recheck-np')):
        chk.count(f'tmp-name:{label}:rc={rc_}')
        if rc_ != 0:
            chk.disagreement('tmp-name', {'command': label}, f'rc={rc_}: {err[-300:]}', 'rc=0', 'a command of the tmp-name stream failed')

    def complain(case, impl, mod, note):
        st['disagreements'] += 1
        if st['disagreements'] <= 4:
            chk.disagreement('tmp-name', case, impl, mod, note)
    # per command: the sources are exactly the entries the model allocates to a process with that many copies
    for label, pid0, srcs in per_command:
        if not srcs:
            continue
        ans = ask_model(model, [f'alloc {pid0} 0 {len(srcs)}'])
        if ans is None:
            continue
        want = sorted('.xvc/tmp/' + x for x in ans[0].split(' '))
        got = sorted(x.decode('utf-8', 'replace') for x in srcs)
        if want != got:
            complain({'command': label, 'copies': len(srcs), 'process': pid0}, 'renamed from ' + ', '.join(got[:6]) + (' ...' if len(got) > 6 else ''),
                     'temporary entries ' + ', '.join(want[:6]) + (' ...' if len(want) > 6 else ''),
                     'the temporary entries the binary uses are not the ones of the model (TmpName.lean: `.xvc/tmp/<pid>-<k>`, one counter value per copy; '
                     'Props/C17Tmp: footprints of different targets are disjoint)')
    for i, p in enumerate(paths):
        st['names'] += 1
        chk.evaluations += 1
        obs = observed.get(p.encode(), [])
        chk.count('tmp-name:path-observed' if obs else 'tmp-name:path-not-renamed')
        if obs: chk.nontrivial.add('tmp:' + p)
        if not obs:
            complain({'path': p, 'commands': 'track --recheck-method copy; delete; recheck'}, 'no rename onto this path observed',
                     'copyProc: createNew tmp; write tmp; rename tmp -> path', 'the copy step of the binary does not go through a temporary entry')
    # nothing is left behind: no entry in .xvc/tmp, no entry of a temporary shape next to the targets
    left = [os.path.join('.xvc/tmp', f) for f in (os.listdir(sb.path('.xvc/tmp')) if os.path.isdir(sb.path('.xvc/tmp')) else [])]
    for root, ds, fs in os.walk(sb.root):
        if '.xvc' in ds: ds.remove('.xvc')
        if '.git' in ds: ds.remove('.git')
        for f in fs:
            rel = os.path.relpath(os.path.join(root, f), sb.root)
            if f.endswith('.xvc-tmp') and rel not in paths and rel not in users:
                left.append(rel)
    if left:
        chk.oracle_failure('temporary entries left after successful commands', {'tmp_case': 'tmp-name', 'left': left[:5]}, None,
                           signature={'kind': 'temporary-entry-left'})
    # every file is what was tracked; the user's files with temporary-looking names are untouched (C03)
    for i, p in enumerate(paths):
        want = f'content of {i}\n'.encode() * 3
        try:
            got = open(sb.path(p), 'rb').read()
        except OSError as e:
            got = repr(e).encode()
        if got != want:
            chk.oracle_failure(f'{p}: not the tracked bytes after track/delete/recheck', {'tmp_case': 'tmp-name', 'path': p, 'names': names}, None,
                               signature={'kind': 'parallel-copy-wrong-entry'})
    for up, want in users.items():
        try:
            got = open(sb.path(up), 'rb').read()
        except OSError as e:
            got = repr(e).encode()
        chk.count('tmp-name:user-file-with-temporary-name:' + ('kept' if got == want else 'LOST'))
        if got != want:
            chk.oracle_failure(f'the untracked file {up} of the user was destroyed by copying its neighbour out of the cache', {'tmp_case': 'tmp-name', 'path': up}, None,
                               signature={'kind': 'user-file-with-temporary-name-destroyed'})
    return st['disagreements']


def sibling_round(chk, xvc, name, pairs, size, rng):
    """one fresh repository: `pairs` x (s<i>.bin, s<i>.json) with different random bytes, parallel track by copy, then delete all and
    recheck with --no-parallel (which, through an inverted flag, is the parallel variant).  returns list of complaints"""
    from xvcbin import Sandbox
    sb = Sandbox(os.path.join(chk.scratch, 'c17sib'), name, xvc)
    sb.init()
    want = {}
    for i in range(pairs):
        for e in ('bin', 'json'):
            p = f'data/s{i}.{e}'
            blob = rng.randbytes(1 << 16) * (size >> 16) + f'{p}\n'.encode()
            sb.write(p, blob)
            want[p] = hashlib.sha256(blob).hexdigest()
    bad = []

    def judge(after):
        for p, h in sorted(want.items()):
            fp = sb.path(p)
            try:
                stt = os.lstat(fp)
            except OSError:
                bad.append(f'{after}: {p} does not exist'); continue
            if not stat.S_ISREG(stt.st_mode):
                bad.append(f'{after}: {p} is not a regular file'); continue
            if not stt.st_mode & 0o200:
                bad.append(f'{after}: {p} is not user-writable (mode {oct(stt.st_mode & 0o777)})')
            got = hashlib.sha256(open(fp, 'rb').read()).hexdigest()
            if got != h:
                other = [q for q, hq in want.items() if hq == got]
                bad.append(f'{after}: {p} does not hold the tracked bytes' + (f' (it holds the bytes of {other[0]})' if other else ''))
        left = [f for f in os.listdir(sb.path('data')) if f.endswith('.xvc-tmp')]
        if left:
            bad.append(f'{after}: temporary entries left: {sorted(left)[:4]}')
    rc_, out, err = sb.x('file', 'track', '--recheck-method', 'copy', 'data/')
    judge(f'xvc file track --recheck-method copy data/ (rc={rc_})')
    if not bad:
        for p in want: os.unlink(sb.path(p))
        rc_, out, err = sb.x('file', 'recheck', '--no-parallel', 'data/')
        judge(f'delete all; xvc file recheck --no-parallel data/ (rc={rc_})')
    shutil.rmtree(sb.base, ignore_errors=True)
    return bad


def sibling_stream(chk, xvc, rounds, pairs, size):
    st = chk.tie['streams'].setdefault('parallel-siblings', {'rounds': 0, 'pairs_per_round': pairs, 'bytes_per_file': size})
    rng = random.Random(f'c17-sib-{chk.seed}')
    for k in range(rounds):
        bad = sibling_round(chk, xvc, f'r{k}', pairs, size, rng)
        st['rounds'] += 1
        chk.evaluations += 1
        chk.nontrivial.add(f'sib:{k}:{pairs}:{size}')
        chk.count('parallel-siblings:' + ('violated' if bad else 'held'))
        if bad:
            chk.oracle_failure('files of one stem copied out of the cache in parallel: ' + '; '.join(bad[:4]),
                               {'tmp_case': 'parallel-siblings', 'pairs': pairs, 'size': size, 'rounds': rounds, 'round': k,
                                'readable': [f'{pairs} pairs data/s<i>.bin + data/s<i>.json of {size} random bytes', 'xvc file track --recheck-method copy data/',
                                             'delete all', 'xvc file recheck --no-parallel data/']}, bad[:12], signature={'kind': 'parallel-copy-wrong-entry'})
            return True
    return False


def tmp_streams(chk):
    quick = chk.tier == 'quick'
    ctx = chk.repo_ctx
    model = chk.lean('XvcRepo', 'XvcRepo.Props.C17Tmp', exe='tmpmodel', extra_modules=['XvcRepo.TmpName', 'XvcRepo.TmpLemmas'])
    dis = tmp_name_stream(chk, ctx['xvc'], model, 24 if quick else 120)
    # the search is widened when the tie (or the proof) of the temporary names broke
    suspicious = bool(dis) or any(b.get('package') == 'XvcRepo' for b in chk.proof['broken'])
    if suspicious:
        sibling_stream(chk, ctx['xvc'], 16, 6, 4 << 20)
    else:
        sibling_stream(chk, ctx['xvc'], 2 if quick else 12, 6, (2 << 20) if quick else (4 << 20))
    chk.extra['rule'] = chk.extra.get('rule', '') + (
        ' || tmp-name stream: one repository with fixed + generated file names (dots at every position, same stem with different extensions, blanks, '
        'non-ASCII, hidden, names ending in .xvc-tmp) in two directories; parallel `track --recheck-method copy`, delete, `recheck` and `recheck --no-parallel` under '
        'strace -e rename*: the sources of the renames onto workspace paths of each command are compared with the entries the model allocates (driver tmpmodel: `.xvc/tmp/<pid>-<k>`, k = 0..n-1), '
        'no temporary entry left, bytes as tracked, untracked files of the user named `.<name>.xvc-tmp` / `<stem>.xvc-tmp` next to the targets keep their bytes || parallel-siblings stream: fresh repositories with 6 pairs s<i>.bin/s<i>.json of 2-4 MiB random bytes, '
        'parallel track by copy, delete all, parallel recheck; every entry must be a regular user-writable file with its own bytes (16 rounds of 4 MiB when the '
        'tmp-name tie or a XvcRepo proof broke)')
    chk.assumptions.append('the kernel executes each rename/unlink/open atomically with respect to the other threads (FsOp.apply); the rendering `<pid>-<k>` of a temporary entry is injective '
                           '(Entry.tmp carries the pair, the tie compares the spelling); the cross-device fallback of copy_to_workspace (sibling `.<name>.<pid>.xvc-tmp`, created exclusively) is not modelled')


def run(chk):
    return rc.run_property(chk, 'C17', ORACLES, restore=RESTORE, extra_props=['XvcRepo.Props.C17Cmd', 'XvcRepo.Props.C17Sticks'], before_finish=lambda: tmp_streams(chk))


def replay(chk, data):
    mine = [f for f in data.get('failures', []) if 'tmp_case' in f.get('case', {})]
    rest = dict(data, failures=[f for f in data.get('failures', []) if 'tmp_case' not in f.get('case', {})])
    if mine:
        xvc = chk.build_xvc()
        for f in mine:
            case = f['case']
            if case['tmp_case'] == 'parallel-siblings':
                hit = sibling_stream(chk, xvc, max(case.get('rounds', 12), 12), case.get('pairs', 6), case.get('size', 4 << 20))
                print('oracle:', 'violated' if hit else 'property holds on this input (all rounds)')
            else:
                import common
                model = os.path.join(common.LEAN_DIR, 'XvcRepo', '.lake', 'build', 'bin', 'tmpmodel')
                tmp_name_stream(chk, xvc, model, 24)
        if not rest['failures']:
            return chk.finish()
    return rc.replay_property(chk, rest, ORACLES, restore=RESTORE)
