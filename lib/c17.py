"""C17 — see DESIGN.md section 4 ("the repository model") and lean/XvcRepo/XvcRepo/Props/C17.lean.
Proof: Lean theorems about the executable repository model.  Tie: the model driver is compared with the rebuilt xvc
binary after every command of generated histories.  Oracle: model-independent, lib/repo_check.py."""
import repo_check as rc

ORACLES = [rc.o6_methods]
RESTORE = dict()


def run(chk):
    return rc.run_property(chk, 'C17', ORACLES, restore=RESTORE, extra_props=['XvcRepo.Props.C17Cmd'])


def replay(chk, data):
    return rc.replay_property(chk, data, ORACLES, restore=RESTORE)
