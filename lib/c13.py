"""C13 — Concurrent step commands never exceed the configured process pool.

Proof: lean/XvcPipeline (Props/C13.lean: C13_pool_bound, C13_pool_one_serial, ... over the scheduler transition system;
       C13_pool_bound_with_duplicate_commands, C13_release_by_value_counterexample over the pool as a list of holders, Pool.lean).
Tie: translator (state machine, handler events, what reserve/release do to the pool: Gen/PoolOps.lean) + hook traces validated by the model driver.
Oracle: maximum overlap of the [start,end] intervals journaled by the step commands <= pipeline.process_pool_size.
"""
import sched_common as sc

OWN = {'C13'}
PROPS = 'XvcPipeline.Props.C13'


def gen_cases(chk, quick):
    rng = chk.rng
    cases = []
    kmax = 6 if quick else 8
    # k independent steps, every pool size 1..k (+ one above)
    for k in range(2, kmax + 1):
        pools = range(1, k + 2) if (not quick or k <= 4) else sorted({1, 2, k - 1, k})
        for pool in pools:
            spec = sc.mk_spec(k, [])
            behav = [{'sleep_ms': rng.choice([60, 90, 120])} for _ in range(k)]
            cases.append(sc.mk_case(spec, pool, behav, label='independent'))
    # wide DAGs: a root, w parallel middle steps, a sink; width > pool
    for w in ([3, 4] if quick else [3, 4, 5, 6]):
        for pool in range(1, w + 1):
            n = w + 2
            edges = [(i, 0) for i in range(1, w + 1)] + [(w + 1, i) for i in range(1, w + 1)]
            kinds = [rng.choice(['step', 'step', 'file', 'glob']) for _ in edges]
            whens = [rng.choice(['by_dependencies', 'by_dependencies', 'always']) for _ in range(n)]
            behav = [{'sleep_ms': rng.choice([40, 80, 120]), 'rc': 1 if (i > 0 and rng.random() < 0.15) else 0} for i in range(n)]
            cases.append(sc.mk_case(sc.mk_spec(n, edges, kinds, whens), pool, behav, label='wide'))
    # random DAGs with random pools
    for _ in range(10 if quick else 60):
        n = rng.randint(3, 6 if quick else 8)
        edges = sc.random_dag(rng, n, 0.3)
        kinds = [rng.choice(['step', 'file', 'glob']) for _ in edges]
        whens = [rng.choice(['by_dependencies', 'by_dependencies', 'always', 'never']) for _ in range(n)]
        behav = [{'sleep_ms': rng.choice([0, 40, 100]), 'rc': 1 if rng.random() < 0.15 else 0,
                  'closefds': rng.choice([0, 0, 0, 0, 3, 1])} for _ in range(n)]
        cases.append(sc.mk_case(sc.mk_spec(n, edges, kinds, whens), rng.randint(1, max(1, n - 1)), behav, label='random'))
    cases += gen_unspawnable(chk, quick)
    return cases


def gen_closed_streams(chk, quick):
    """CORPUS (runs first; seed C13-4): step commands that close or redirect their output streams BEFORE they are finished
    (`exec prog > log 2>&1`): the slot must stay taken until the command has EXITED, not until it closed its pipes.
    Judged by the start/end journal the commands write to a file.  Both streams closed (the seeded shape), only one of them,
    output first then close then a long sleep; pools 1 and 2, also as a level of a DAG and with failing commands."""
    cases = []
    for pool in (1, 2):
        for mode in (3, 1, 2):
            k = 4
            behav = [{'sleep_ms': 180, 'closefds': mode, 'out': 40 if i % 2 else 0, 'err': 30 if i == 0 else 0} for i in range(k)]
            cases.append(sc.mk_case(sc.mk_spec(k, []), pool, behav, label=f'corpus/C13-4 streams closed early ({mode}) pool {pool}'))
    # mixed: two of five close early; a failing one; behind a root
    behav = [{'sleep_ms': 30}] + [{'sleep_ms': 150, 'closefds': 3 if i in (1, 3) else 0, 'rc': 1 if i == 3 else 0} for i in range(1, 5)] + [{}]
    edges = [(i, 0, 'step') for i in range(1, 5)] + [(5, i, 'step') for i in range(1, 5)]
    whens = ['by_dependencies'] * 5 + ['always']
    cases.append(sc.mk_case(sc.mk_spec(6, edges, whens=whens), 1, behav, label='corpus/C13-4 level with early-closing commands'))
    cases.append(sc.mk_case(sc.mk_spec(6, edges, whens=whens), 2, behav, label='corpus/C13-4 level with early-closing commands'))
    return cases


def gen_contention(chk, quick):
    """Many step threads reserving at the same time on a full pool, many repetitions (seed C13-2: an optimistic
    fetch_sub/undo on an unsigned counter wraps for nanoseconds; a second reservation landing in the gap believes it got a
    slot and afterwards every waiting step starts).  The chance per run grows with the number of polling threads squared and
    with the time they poll; measured on the seeded binary: 0.4-0.5 per run of 12 independent steps on an idle machine,
    about 0.11 with 16 busy loops next to it, so 72 such runs miss with probability < 1e-3 even under load.  The commands
    only sleep: 16 pipelines run in parallel."""
    rng = chk.rng
    cases = []
    n12, n8, ndag = (72, 12, 12) if quick else (200, 40, 40)
    for r in range(n12):
        cases.append(sc.mk_case(sc.mk_spec(12, []), 1, [{'sleep_ms': 150} for _ in range(12)], label=f'contention/12x pool1 #{r}'))
    for r in range(n8):
        k = rng.choice([6, 7, 8])
        cases.append(sc.mk_case(sc.mk_spec(k, []), 2, [{'sleep_ms': 150} for _ in range(k)], label=f'contention/{k}x pool2 #{r}'))
    for r in range(ndag):
        w = 10
        edges = [(i, 0, 'step') for i in range(1, w + 1)] + [(w + 1, i, 'step') for i in range(1, w + 1)]
        behav = [{'sleep_ms': 20}] + [{'sleep_ms': 120} for _ in range(w)] + [{}]
        cases.append(sc.mk_case(sc.mk_spec(w + 2, edges), 1 + r % 2, behav, label=f'contention/level of {w} #{r}'))
    return cases


def _twin_behav(rng, k, durations=(50, 170, 290)):
    """behaviour per TICKET: neighbouring tickets never sleep equally long, so of two twins that start together one ends while
    the other still runs"""
    out, last = [], None
    for _ in range(k):
        d = rng.choice([x for x in durations if x != last])
        out.append({'sleep_ms': d})
        last = d
    return out


def gen_twins(chk, quick):
    """Generator dimension "DUPLICATE command strings" (seed C13-6): several steps of one pipeline have exactly the same command
    line (a shared job script that finds its identity at run time through a ticket, lib/sched_common.step_command).  xvc keys
    nothing by the step name in the pool, but a command is a value with equality: whatever keeps the holders of the pool
    slots by command must still count one slot per EXECUTION.  Pools 2..4, always more steps than slots (a surplus slot shows
    only when at least two steps wait), neighbouring tickets of different length.  Shapes: one group of k twins alone; a group
    next to steps with commands of their own; two groups; a group as a level between a root and a sink (the sink depends on
    every member).  A run can miss a surplus slot for a reason outside xvc's accounting (two commands spawned at the same
    instant can inherit each other's output pipes; the end of the short one is then seen when the long one ends), hence
    several rounds per pipeline and several pipelines."""
    rng = chk.rng
    cases = []
    for rep in range(2 if quick else 6):
        for pool in (2, 3, 4):
            # one group alone: k twins, k >= pool + 2
            k = pool + rng.choice([2, 3, 4])
            spec = sc.add_twins(sc.mk_spec(k, []), [list(range(k))])
            cases.append(sc.mk_case(spec, pool, _twin_behav(rng, k), label=f'twins/{k} steps sharing one command, pool {pool} #{rep}'))
            # a group of g twins next to d steps with commands of their own
            g, d = rng.choice([2, 3, 4]), rng.choice([2, 3])
            n = g + d + 2
            members = sorted(rng.sample(range(n), g))
            spec = sc.add_twins(sc.mk_spec(n, []), [members])
            cases.append(sc.mk_case(spec, min(pool, n - 2), _twin_behav(rng, n), label=f'twins/{g} twins among {n} steps, pool {min(pool, n - 2)} #{rep}'))
        # two groups (two scripts) in one pipeline
        a, b = rng.choice([2, 3]), rng.choice([2, 3, 4])
        n = a + b + rng.choice([0, 1])
        order = list(range(n))
        rng.shuffle(order)
        spec = sc.add_twins(sc.mk_spec(n, []), [order[:a], order[a:a + b]])
        cases.append(sc.mk_case(spec, rng.choice([2, 3]), _twin_behav(rng, n), label=f'twins/two groups ({a}+{b}) #{rep}'))
        # a level of w twins between a root and a sink; the sink depends on every member, a second level behind it
        w = rng.choice([4, 5, 6])
        kind = rng.choice(['step', 'step', 'file'])
        edges = [(i, 0, kind) for i in range(1, w + 1)] + [(w + 1, i, 'step') for i in range(1, w + 1)]
        spec = sc.add_twins(sc.mk_spec(w + 2, edges), [list(range(1, w + 1))])
        behav = [{'sleep_ms': 30}] + _twin_behav(rng, w) + [{'sleep_ms': 20}]
        cases.append(sc.mk_case(spec, rng.choice([2, 3]), behav, label=f'twins/level of {w} twins #{rep}'))
    return cases


def gen_unspawnable(chk, quick):
    """outcome class "the command cannot be spawned" (popen/exec error after the slot was reserved): the slot must come
    back exactly once.  One or two unspawnable steps compete with a gate step for the pool; several steps wait behind
    the gate, so a surplus slot shows as two of them running together.  Which waiting step gets a freed slot depends on
    the 10 ms polling phase, hence a few repetitions."""
    rng = chk.rng
    cases = []
    for rep in range(2 if quick else 5):
        for pool, nbad in ((1, 1), (2, 1), (2, 2)):
            nw = 6
            gate, bads = 0, list(range(1, 1 + nbad))
            ws = list(range(1 + nbad, 1 + nbad + nw))
            n = 1 + nbad + nw
            edges = [(w, gate, 'step') for w in ws]
            behav = [{'sleep_ms': 100}] + [{} for _ in bads] + [{'sleep_ms': rng.choice([70, 90])} for _ in ws]
            cases.append(sc.mk_case(sc.mk_spec(n, edges, unspawnable=bads), pool, behav, label=f'unspawnable-gate#{rep}'))
        # too few steps for the journal to show a surplus slot: only the trace tie (S lines vs the model's `die`) sees a
        # slot that is given back twice
        cases.append(sc.mk_case(sc.mk_spec(2, [], unspawnable=[1]), 1, [{'sleep_ms': 50}, {}], label=f'unspawnable-small#{rep}'))
        # the unspawnable step as a dependency: its by_dependencies dependent must not run, its always dependent runs;
        # four more steps wait behind the gate
        n = 8
        edges = [(2, 1, 'step'), (3, 1, 'step')] + [(w, 0, 'step') for w in (4, 5, 6, 7)]
        whens = ['by_dependencies'] * 3 + ['always'] + ['by_dependencies'] * 4
        behav = [{'sleep_ms': 100}, {}, {'sleep_ms': 60}, {'sleep_ms': 60}] + [{'sleep_ms': 80} for _ in range(4)]
        cases.append(sc.mk_case(sc.mk_spec(n, edges, whens=whens, unspawnable=[1]), 1, behav, label=f'unspawnable-dep#{rep}'))
    return cases


def _translate_pool_ops(chk):
    """regenerate Gen/PoolOps.lean (what reserve and release DO to the pool) before the Lean build;
    `C13_generated_pool_ops_keep_bound` is stated over it"""
    import sched_translate
    try:
        chk.extra['pool_ops'] = sched_translate.translate_pool_ops(sc.REPO, sc.GEN_DIR)
    except Exception as ex:
        chk.proof['broken'].append({'stage': 'translator (pool operations)', 'errors': [str(ex)[:600]], 'package': 'XvcPipeline',
                                    'theorems': ['C13_generated_pool_ops_keep_bound']})


def run(chk):
    quick = chk.tier == 'quick'
    _translate_pool_ops(chk)
    ctx = sc.prepare(chk, PROPS)
    cases = gen_cases(chk, quick)
    chk.extra['rule'] = ('k independent sleeping steps for k=2..%d with pools 1..k+1; root + w parallel steps + sink (w=3..%d) with every pool 1..w, '
                         'edges realised as explicit step dependencies or output-file/dependency-file or output-file/glob pairs, a few failing steps; '
                         'CLOSED-STREAMS corpus first (seed C13-4): 4 independent commands that close stdout+stderr / only stdout / only stderr before sleeping 180 ms, pools 1 and 2, '
                         'and a DAG level with two early-closing commands (one failing); a third of the random DAG commands also close streams early; '
                         'TWINS stream (seed C13-6, plain and hook build): steps that share ONE command string (a job script that takes a ticket at run time; neighbouring tickets sleep 50/170/290 ms, never equally long): '
                         'k = pool+2..pool+4 twins alone, 2-4 twins among 6-9 steps with commands of their own, two groups, a level of 4-6 twins between a root and a sink; pools 2, 3, 4; 2 (quick) / 6 (thorough) rounds of 8 pipelines; '
                         'CONTENTION stream (hook-free binary, 16 pipelines in parallel): 72 (quick) / 200 (thorough) runs of 12 independent steps sleeping 150 ms with pool 1, '
                         '12 / 40 runs of 6-8 independent steps with pool 2, 12 / 40 runs of root + level of 10 + sink with pools 1 and 2; '
                         'random DAGs on 3..%d steps with random pools and when-options; steps whose command cannot be SPAWNED (NUL byte in an exported line_items variable, exec EINVAL after the slot was reserved): one or two of them competing with a gate step, six steps waiting behind the gate, pools 1 and 2, and as a dependency of a by_dependencies and of an always step (repeated). Every case is run once on the hook-free binary (journal oracle) '
                         'and 3 (quick) / 6 (thorough) times on the hook build with different seeded schedule perturbations (journal oracle + trace validated against the model). '
                         'Non-trivial: >= 2 steps, an edge or pool < number of steps, at least one command executed.') % ((6, 4, 6) if quick else (8, 6, 8))
    closed = gen_closed_streams(chk, quick)
    twins = gen_twins(chk, quick)
    sc.run_family(ctx, 'closed-streams/plain', closed, OWN, hook=False)
    sc.run_family(ctx, 'twins/plain', twins, OWN, hook=False)
    sc.run_family(ctx, 'pool/plain', cases, OWN, hook=False)
    sc.run_family(ctx, 'contention/plain', gen_contention(chk, quick), OWN, hook=False, workers=16, timeout=30, shrink=False)
    if ctx.xvc_hook:
        hooked = []
        for rep in range(3 if quick else 6):          # several schedules per pipeline
            for k, c in enumerate(cases):
                c2 = dict(c)
                c2['sched'] = f'{chk.seed * 7919 + 1000 * rep + k}:{chk.rng.choice([0, 300, 2000, 8000])}'
                hooked.append(c2)
        hooked = [dict(c, sched=f'{chk.seed}:300') for c in closed] + [dict(c, sched=f'{chk.seed + k}:{(0, 300, 2000)[k % 3]}') for k, c in enumerate(twins)] + hooked
        sc.run_family(ctx, 'pool/hook', hooked, OWN, hook=True)
    return chk.finish()


def replay(chk, data):
    return sc.replay(chk, data, OWN, PROPS)
