"""C20 — Configuration sources override each other in the documented order.

Proof: lean/XvcConfig (Props.lean), over tables regenerated from the Rust source on every run by
translator/extract_config.py (order + guards of the source applications in XvcConfig::new, switch wiring of
get_xvc_config_params, keys and types of default_project_config).
Tie:   (E) in-process: harness bin `config_harness` (real xvc_config::XvcConfig::new, scratch HOME, real files, real
       environment variables, CLI vector, every include/path combination of XvcConfigParams) against the model
       driver `configmodel` on the same op lines;
       (B) binary: the rebuilt `xvc [switches] [-c …] file track` in scratch repositories; observed cache prefix,
       recheck method and commit/no-commit against the model's effective values.
Oracle: precedence recomputed here, in python, from the op lines alone (class Oracle) — what the property demands
       of the observations, independent of the Lean model.
"""
import hashlib, itertools, json, os, re, stat, sys
from common import Check, run_lines, shrink, VERIF, REPO
import common
sys.path.insert(0, os.path.join(VERIF, 'translator'))
import extract_config
from xvcbin import Sandbox

GEN_DIR = os.path.join(VERIF, 'lean', 'XvcConfig', 'XvcConfig', 'Gen')
PROPOSED_FINDINGS = os.path.join(VERIF, 'lib', 'c20_known_findings.json')
SLOTS = ['system', 'user', 'project', 'local']
SOURCES = ['default', 'system', 'user', 'project', 'local', 'env', 'cli']        # documented order, lowest first
SWITCH_OF = {'system': '--no-system-config', 'user': '--no-user-config', 'project': '--no-project-config',
             'local': '--no-local-config', 'env': '--no-env-config'}
I64 = (-2 ** 63, 2 ** 63 - 1)


# ---------------------------------------------------------------------------------------------------------------
# op language helpers (python's own reading of the op lines)

def esc(s):
    return ''.join(c if 0x21 <= ord(c) <= 0x7e and c not in '%=@' else '%%%02X' % (ord(c) & 0xff) for c in s)


def unesc(s):
    return re.sub(r'%([0-9A-Fa-f]{2})', lambda m: chr(int(m.group(1), 16)), s)


def render_text(v):
    """the text a user writes in XVC_key=<text> / -c key=<text> to mean value v"""
    if isinstance(v, bool): return 'true' if v else 'false'
    if isinstance(v, int): return str(v)
    if isinstance(v, float): return repr(v)
    return v


def leaf_tok(k, v):
    if isinstance(v, bool): return f'{esc(k)}=b:{"true" if v else "false"}'
    if isinstance(v, int): return f'{esc(k)}=i:{v}'
    if isinstance(v, float): return f'{esc(k)}=f:{repr(v)}'
    return f'{esc(k)}=s:{esc(v)}'


def tree_toks(tree):
    out = []
    for k, v in tree.items():
        if isinstance(v, dict):
            out += [esc(k) + '['] + tree_toks(v) + [']']
        else:
            out.append(leaf_tok(k, v))
    return out


def parse_tree(toks):
    toks = [t for t in toks if t != '']

    def items(i, top):
        out = {}
        while i < len(toks):
            t = toks[i]
            if t == ']':
                if top: raise ValueError('stray ]')
                return out, i + 1
            if t.endswith('['):
                sub, i = items(i + 1, False)
                out[unesc(t[:-1])] = sub
            else:
                k, v = t.split('=', 1)
                ty, val = v.split(':', 1)
                val = unesc(val)
                out[unesc(k)] = {'s': lambda: val, 'b': lambda: val == 'true', 'i': lambda: int(val), 'f': lambda: float(val)}[ty]()
                i += 1
        if not top: raise ValueError('missing ]')
        return out, i
    return items(0, True)[0]


def tree_op(prefix, flat):
    """`<prefix> <tree tokens of the nested form of flat>` without a trailing blank"""
    return ' '.join([prefix] + tree_toks(nest(flat)))


def nest(flat):
    """{'a.b.c': v} -> nested dict (generator side)"""
    out = {}
    for k, v in flat.items():
        d = out
        parts = k.split('.')
        for p in parts[:-1]:
            d = d.setdefault(p, {})
        d[parts[-1]] = v
    return out


def flatten(tree, pfx=''):
    out = {}
    for k, v in tree.items():
        key = k if not pfx else pfx + '.' + k
        if isinstance(v, dict):
            out.update(flatten(v, key))
        else:
            out[key] = v
    return out


def ty_of(v):
    return 'bool' if isinstance(v, bool) else 'int' if isinstance(v, int) else 'float' if isinstance(v, float) else 'str'


def toml_text(tree):
    """python's own TOML writer for the binary-level stream"""
    def q(s):
        return '"' + ''.join('\\"' if c == '"' else '\\\\' if c == '\\' else '\\n' if c == '\n' else '\\t' if c == '\t' else
                             ('\\u%04X' % ord(c)) if ord(c) < 0x20 or ord(c) == 0x7f else c for c in s) + '"'

    def go(path, d, out):
        if path:
            out.append('[' + '.'.join(q(p) for p in path) + ']')
        for k, v in d.items():
            if not isinstance(v, dict):
                out.append(f'{q(k)} = ' + (q(v) if isinstance(v, str) else render_text(v)))
        for k, v in d.items():
            if isinstance(v, dict):
                go(path + [k], v, out)
    out = []
    go([], tree, out)
    return '\n'.join(out) + '\n'


class Text:
    """an untyped text given through the environment or -c"""
    def __init__(self, t): self.t = t
    def __repr__(self): return f'Text({self.t!r})'


def looks_typed(t):
    """python's own reading of 'is a bool / i64 / f64 literal' (used only to *attribute* failures to K5c)"""
    if t in ('true', 'false'): return 'bool'
    if re.fullmatch(r'[+-]?[0-9]+', t):
        return 'int' if I64[0] <= int(t) <= I64[1] else 'float'
    if re.fullmatch(r'[+-]?(inf|infinity|nan)', t, re.I): return 'float'
    if re.fullmatch(r'[+-]?([0-9]+\.?[0-9]*|\.[0-9]+)([eE][+-]?[0-9]+)?', t): return 'float'
    return None


def parse_answer(ans):
    """'ok k=type:val@src …' -> {key: (type, value, src)}; floats as python floats"""
    if not ans.startswith('ok'):
        return None
    out = {}
    for tok in ans.split(' ')[1:]:
        if not tok: continue
        k, rest = tok.split('=', 1)
        tv, src = rest.rsplit('@', 1)
        ty, val = tv.split(':', 1)
        val = unesc(val)
        if ty == 'bool': val = val == 'true'
        elif ty == 'int': val = int(val)
        elif ty == 'float':
            try: val = float(val)
            except ValueError: pass
        out[unesc(k)] = (ty, val, src)
    return out


def canon(ans, builtin_default):
    """canonical form for the diff with the model: sorted tokens, floats numeric, the random guid of the builtin default masked"""
    d = parse_answer(ans)
    if d is None:
        return ans
    items = []
    for k in sorted(d):
        ty, val, src = d[k]
        if ty == 'float' and isinstance(val, float):
            val = 'nan' if val != val else repr(val)
        if builtin_default and k == 'core.guid' and src == 'default':
            val = 'GUID'
        items.append(f'{k}={ty}:{val}@{src}')
    return 'ok ' + ' '.join(items)


# ---------------------------------------------------------------------------------------------------------------
# the independent oracle: what the property demands, computed from the op lines

class Oracle:
    """Interprets the op lines and, at every `run`/`binrun`, states which value each key must have:
    the one given by the highest-priority enabled source that defines it, in the documented order
    default < system < user < project < local < env < cli; a disabled source is removed, nothing else; values
    keep their type (the declared type of a key is its type in the default configuration).
    `same_file=True` is used only to ATTRIBUTE a failure: it recomputes the expectation under the observation that
    the system and the user file are one file on this platform."""

    def __init__(self, builtin, same_file=False, honoured=None):
        self.builtin = builtin           # flattened default_project_config as read by the translator
        self.same_file = same_file
        self.honoured = honoured         # None: every switch is honoured (the property); a set: only those (attribution)
        self.reset()

    def reset(self):
        self.default = None              # None = builtin
        self.files = {s: None for s in SLOTS}
        self.env = {}
        self.inc = {s: True for s in ('system', 'user', 'env', 'project', 'local')}
        self.path = {'project': True, 'local': True}
        self.cli = None
        self.sw = []

    def feed(self, line):
        t = line.split(' ')
        op = t[0]
        if op == 'default':
            self.default = None if t[1:] == ['builtin'] else parse_tree(t[1:])
        elif op == 'file':
            slot, kind = t[1], t[2]
            val = parse_tree(t[3:]) if kind == 'tree' else None
            self.files[slot] = val
            if self.same_file and slot in ('system', 'user'):
                self.files['system'] = self.files['user'] = val
        elif op == 'env':
            self.env[unesc(t[1])] = unesc(t[2]) if len(t) > 2 else ''
        elif op == 'inc':
            self.inc[t[1]] = t[2] == '1'
        elif op == 'path':
            self.path[t[1]] = t[2] == '1'
        elif op == 'cli':
            self.cli = None if t[1] == 'none' else [unesc(x) for x in t[2:]]
        elif op == 'sw':
            self.sw = [x for x in t[1:] if x]
        elif op == 'reset':
            self.reset()

    def layers(self, binary=False, cli=None):
        """[(source, {key: typed value | Text}, skipkeys)] for the enabled sources, lowest priority first"""
        inc = dict(self.inc)
        if binary:
            for s in self.sw:
                if self.honoured is None or s in self.honoured:
                    inc[s] = False
        default = dict(self.builtin) if self.default is None else flatten(self.default)
        ls = [('default', default)]
        skip = set()
        for slot in ('system', 'user', 'project', 'local'):
            if not inc[slot]: continue
            if slot in self.path and not self.path[slot] and not binary: continue
            if self.files[slot] is not None:
                ls.append((slot, flatten(self.files[slot])))
        if inc['env']:
            e = {}
            for name, text in self.env.items():
                if name.startswith('XVC_') and len(name) > 4 and '\n' not in name:
                    e[name[4:]] = Text(text)
                elif name.startswith('XVC'):
                    skip.add(name[3:])        # undocumented spelling: no expectation
            ls.append(('env', e))
        cl = cli if binary else self.cli
        if cl is not None:
            c = {}
            for el in cl:
                if el.count('=') == 1:
                    k, v = el.split('=')
                    c[k.strip()] = Text(v.strip())
                else:
                    skip.add(el.split('=')[0].strip())      # `a=b=c`, `nokey`: the property says nothing
            ls.append(('cli', c))
        return ls, default, skip

    def expect(self, binary=False, cli=None):
        """{key: ('typed', type, value) | ('text', text) | ('skip',)}; keys not listed must be absent"""
        ls, default, skip = self.layers(binary, cli)
        out = {}
        for src, d in ls:
            for k, v in d.items():
                out[k] = (src, v)
        exp = {}
        for k, (src, v) in out.items():
            if k in skip:
                exp[k] = ('skip',)
            elif not isinstance(v, Text):
                exp[k] = ('typed', ty_of(v), v, src)
            else:
                decl = ty_of(default[k]) if k in default else None
                t = v.t
                if decl == 'str': exp[k] = ('typed', 'str', t, src)
                elif decl == 'bool': exp[k] = ('typed', 'bool', t == 'true', src) if t in ('true', 'false') else ('skip',)
                elif decl == 'int':
                    ok = re.fullmatch(r'[+-]?[0-9]+', t) and I64[0] <= int(t) <= I64[1]
                    exp[k] = ('typed', 'int', int(t), src) if ok else ('skip',)
                else:
                    # undeclared keys, and float keys (outside the property's quantifier: string, bool, integer):
                    # the effective value must denote the text
                    exp[k] = ('text', t, None, src)
        for k in skip:
            exp.setdefault(k, ('skip',))
        return exp


def denotes(ty, val, text):
    if ty == 'str': return val == text
    if ty == 'bool': return text == ('true' if val else 'false')
    if ty == 'int': return bool(re.fullmatch(r'[+-]?[0-9]+', text)) and int(text) == val
    if ty == 'float':
        try: f = float(text)
        except ValueError: return False
        return f == val or (f != f and val != val)
    return False


def same_value(ty, a, b):
    if ty == 'float':
        return a == b or (a != a and b != b)
    return a == b and type(a) == type(b)


def judge_conf(exp, actual, builtin_default):
    """list of (key, message) where the observation contradicts the expectation"""
    msgs = []
    for k, e in exp.items():
        if e[0] == 'skip': continue
        if k not in actual:
            msgs.append((k, f'{k}: no effective value, but source {e[3]} defines it')); continue
        ty, val, src = actual[k]
        if e[0] == 'typed':
            if builtin_default and k == 'core.guid' and e[3] == 'default':
                if ty != 'str': msgs.append((k, f'{k}: type {ty}, default is a string'))
                continue
            if ty != e[1]:
                msgs.append((k, f'{k}: effective value {val!r} has type {ty}, but the highest-priority source defining it ({e[3]}) gives the {e[1]} {e[2]!r}'))
            elif not same_value(ty, val, e[2]):
                msgs.append((k, f'{k}: effective value is {val!r} (tagged {src}), but the highest-priority enabled source defining it is {e[3]} with {e[2]!r}'))
        else:
            if not denotes(ty, val, e[1]):
                msgs.append((k, f'{k}: effective value {ty}:{val!r} (tagged {src}) does not denote the text {e[1]!r} given by {e[3]}'))
    for k in actual:
        if k not in exp:
            msgs.append((k, f'{k}: has effective value {actual[k]} although no enabled source defines it'))
    return msgs


# ---------------------------------------------------------------------------------------------------------------
# in-process stream

class InProc:
    def __init__(self, chk, impl, model, builtin):
        self.chk, self.impl, self.model, self.builtin = chk, impl, model, builtin
        self.dir = os.path.join(chk.scratch, 'inproc')
        os.makedirs(self.dir, exist_ok=True)
        rc, out, err = run_lines(impl, [self.dir], ['paths', 'caps'])
        if rc != 0 or len(out) < 2:
            chk.fatal('config_harness does not start', err[-2000:])
        m = re.match(r'system=(\S+) user=(\S+) base=(\S+)', out[0])
        self.paths = {'system': m.group(1), 'user': m.group(2)}
        self.alias = m.group(1) == m.group(2)
        self.flags = out[1].split('=')[1].split(',')
        self.platform_op = 'platform alias' if self.alias else 'platform distinct'

    def run(self, cases):
        """cases: list of op-line lists.  returns list of (ops, impl answers, model answers)"""
        lines = []
        for c in cases:
            lines += [self.platform_op] + c + ['reset']
        rc1, out_i, err_i = run_lines(self.impl, [self.dir], lines)
        if self.model:
            rc2, out_m, err_m = run_lines(self.model, [], lines)
        else:
            rc2, out_m, err_m = 0, None, ''
        if rc1 != 0 or rc2 != 0 or len(out_i) != len(lines) or (out_m is not None and len(out_m) != len(lines)):
            self.chk.disagreement('process', cases[0] if cases else [], f'harness rc={rc1} lines={len(out_i)}/{len(lines)} {err_i[-300:]}',
                                  f'model rc={rc2} lines={len(out_m) if out_m is not None else "-"} {err_m[-300:]}', 'process failure')
            return []
        res, i = [], 0
        for c in cases:
            n = len(c) + 2
            a_i = out_i[i + 1:i + n - 1]
            a_m = out_m[i + 1:i + n - 1] if out_m is not None else None
            res.append((c, a_i, a_m))
            i += n
        return res

    def judge(self, ops, answers, same_file=False):
        """oracle messages for every `run` of the case: list of (run index, key, message)"""
        o = Oracle(self.builtin, same_file=same_file)
        out = []
        for j, (l, a) in enumerate(zip(ops, answers)):
            if l == 'run':
                if a == 'panic' or not a.startswith('ok'):
                    if o.cli is not None and any('=' not in el for el in o.cli):
                        continue            # `-c nokey`: not a configuration definition, the property says nothing
                    out.append((j, None, f'XvcConfig::new: {a[:200]}'))
                    continue
                actual = parse_answer(a)
                for k, msg in judge_conf(o.expect(), actual, o.default is None):
                    out.append((j, k, msg))
            else:
                o.feed(l)
                if a not in ('ok', ''):
                    out.append((j, None, f'{l}: harness answered {a}'))
        return out


def flat_case(ops, j):
    """the single-run case that reproduces run number j of a multi-run case: every op before it, without earlier runs"""
    return [l for l in ops[:j] if l != 'run'] + ['run']


# generators -----------------------------------------------------------------------------------------------------

REP_KEYS = [('cache.algorithm', 'str'), ('file.recheck.method', 'str'), ('git.auto_commit', 'bool'),
            ('file.track.no_commit', 'bool'), ('pipeline.process_pool_size', 'int'), ('custom.depth.level', 'int')]
STR_VALS = {'default': 'blake3', 'system': 'sha2', 'user': 'sha3', 'project': 'blake2', 'local': 'v-local', 'env': 'v-env', 'cli': 'v-cli'}


def value_for(ty, src, i):
    if ty == 'str': return STR_VALS[src]
    if ty == 'bool': return i % 2 == 0
    return 100 + i


def combos(flags, full):
    """include/path combinations reachable through XvcConfigParams"""
    names = [('inc', 'system'), ('inc', 'user'), ('inc', 'env'), ('path', 'project'), ('path', 'local')]
    if 'project' in flags:
        names += [('inc', 'project'), ('inc', 'local')]
    for bits in itertools.product([1, 0], repeat=len(names)):
        if len(names) == 7 and not full:
            # with the two extra flags: all 2^5 flag combinations with both paths set + all path combinations with all flags on
            pth = bits[3:5]; fl = bits[:3] + bits[5:]
            if not (pth == (1, 1) or all(fl)):
                continue
        yield [f'{a} {b} {v}' for (a, b), v in zip(names, bits)]


def gen_subsets(inp, keys, full, with_builtin=False):
    """every subset of the seven sources defining the key, under every include/path combination"""
    cbs = list(combos(inp.flags, full))
    for key, ty in keys:
        for bits in itertools.product([0, 1], repeat=7):
            S = [s for s, b in zip(SOURCES, bits) if b]
            ops = []
            if with_builtin:
                if 'default' not in S: continue
                ops.append('default builtin')
            else:
                base = {'core.guid': 'abc', 'other.flag': True}
                if 'default' in S: base[key] = value_for(ty, 'default', 0)
                ops.append(tree_op('default', base))
            for i, s in enumerate(SOURCES[1:5], 1):
                if s in S:
                    ops.append(tree_op(f'file {s} tree', {key: value_for(ty, s, i), f'only.{s}': i}))
            if 'env' in S:
                ops.append(f'env {esc("XVC_" + key)} {esc(render_text(value_for(ty, "env", 5)))}')
            ops.append('env XVC_only.env 1')
            if 'cli' in S:
                ops.append('cli some ' + esc(f'{key}={render_text(value_for(ty, "cli", 6))}') + ' only.cli=x')
            else:
                ops.append('cli some only.cli=x' if bits[1] ^ bits[3] else 'cli none')
            for cb in cbs:
                ops += cb + ['run']
            yield ops


WORDS = ['blake3', 'sha2', 'copy', 'symlink', 'git', 'warn', 'a b', 'x=y', 'é', '', 'name-desc', '{{name}}', 'tr ue', 'False', 'TRUE', 'none', 'infx', 'e5', '1_000', '0x10', '-', '+', '.', '1.2.3', '--1', '1e', 'nan0']
LITERALS = ['1', '0', '-7', '+5', '007', 'true', 'false', '1.5', '1e5', '.5', '5.', 'inf', '-inf', 'nan', 'NaN', 'Infinity', '+.5e-3', '1E-2',
            '9223372036854775807', '9223372036854775808', '-9223372036854775808', '-9223372036854775809', '-0', '1e400', '00.5']
POOL_KEYS = ['core.verbosity', 'cache.algorithm', 'git.auto_commit', 'pipeline.process_pool_size', 'file.recheck.method', 'a', 'a.b', 'a.c', 'x.y.z', 'file.carry-in.force', 'k-1', 'K']


def rand_value(rng, ty=None):
    ty = ty or rng.choice(['str', 'str', 'bool', 'int', 'float'])
    if ty == 'str': return rng.choice(WORDS[:12])
    if ty == 'bool': return rng.random() < 0.5
    if ty == 'int': return rng.choice([0, 1, -1, 4, 16, 2 ** 31, -2 ** 40, I64[1], I64[0]])
    return rng.choice([0.5, 2.25, -1.5, 100.0, 1e-3])


def gen_random(inp, rng, n, builtin_types, literals=False):
    """random configurations; with literals=False string-typed keys never get literal-looking texts through env/cli (the K5c region)"""
    for _ in range(n):
        ops = []
        builtin = rng.random() < 0.4
        types = dict(builtin_types) if builtin else {}
        if builtin:
            ops.append('default builtin')
        else:
            d = {}
            for k in rng.sample(POOL_KEYS, rng.randint(0, 6)):
                if not any(k2.startswith(k + '.') or k.startswith(k2 + '.') for k2 in d):
                    d[k] = rand_value(rng)
            types = {k: ty_of(v) for k, v in d.items()}
            ops.append(tree_op('default', d))

        def val_for(k):
            return rand_value(rng, types.get(k) if rng.random() < 0.9 else None)

        def text_for(k):
            decl = types.get(k)
            r = rng.random()
            if literals and r < 0.5:
                return rng.choice(LITERALS)
            if decl in (None, 'str'):
                return rng.choice(WORDS) if (literals or decl is None) else rng.choice([w for w in WORDS if looks_typed(w.strip()) is None])
            return render_text(rand_value(rng, decl))
        for slot in SLOTS:
            r = rng.random()
            if r < 0.45:
                d = {}
                for k in rng.sample(POOL_KEYS, rng.randint(0, 5)):
                    if not any(k2.startswith(k + '.') or k.startswith(k2 + '.') for k2 in d):
                        d[k] = val_for(k)
                ops.append(tree_op(f'file {slot} tree', d))
            elif r < 0.52:
                ops.append(f'file {slot} invalid')
            elif r < 0.58:
                ops.append(f'file {slot} absent')
        for k in rng.sample(POOL_KEYS, rng.randint(0, 4)):
            ops.append(f'env {esc("XVC_" + k)} {esc(text_for(k))}')
        if rng.random() < 0.08:
            ops.append(rng.choice(['env XVCa 1', 'env XVC_ 1', 'env XVC 1', 'env xvc_a 1', 'env XVC__a.b 2', 'env NOTXVC_a 3']))
        r = rng.random()
        if r < 0.7:
            els = []
            for k in rng.sample(POOL_KEYS, rng.randint(0, 4)) + ([rng.choice(POOL_KEYS)] if rng.random() < 0.3 else []):
                sp = rng.choice(['', '', ' ', '  '])
                els.append(f'{k}{sp}={sp}{text_for(k)}')
            if rng.random() < 0.05: els.append('a=b=c')
            if rng.random() < 0.03: els.append('nokey')
            ops.append('cli some ' + ' '.join(esc(e) for e in els))
        else:
            ops.append('cli none')
        for _ in range(rng.randint(1, 4)):
            for a, b in [('inc', 'system'), ('inc', 'user'), ('inc', 'env'), ('path', 'project'), ('path', 'local')] + \
                    ([('inc', 'project'), ('inc', 'local')] if 'project' in inp.flags else []):
                ops.append(f'{a} {b} {1 if rng.random() < 0.7 else 0}')
            ops.append('run')
        yield ops


def gen_parse(types):
    """every literal/word through env and through -c, for a string key, a bool key, an int key and an undeclared key"""
    toks = LITERALS + WORDS + [' 1', '1 ', ' true', 'true ', '\t7']
    for t in toks:
        for key in ('s.key', 'b.key', 'i.key', 'u.key'):
            base = tree_op('default', {'s.key': 'word', 'b.key': False, 'i.key': 3})
            yield [base, f'env {esc("XVC_" + key)} {esc(t)}', 'run']
            if '=' not in t:
                yield [base, 'cli some ' + esc(f'{key}={t}'), 'run']
                yield [base, 'cli some ' + esc(f' {key} = {t} '), 'run']


INPROC_CORPUS = [
    # precedence chain on one key, all seven sources
    ['default cache[ algorithm=s:blake3 ]', 'file system tree cache[ algorithm=s:sha2 ]', 'file user tree cache[ algorithm=s:sha3 ]',
     'file project tree cache[ algorithm=s:blake2 ]', 'file local tree cache[ algorithm=s:v-local ]', 'env XVC_cache.algorithm v-env',
     'cli some cache.algorithm%3Dv-cli', 'run', 'cli none', 'run', 'inc env 0', 'run', 'path local 0', 'run', 'path project 0', 'run',
     'inc user 0', 'run', 'inc system 0', 'run'],
    # env must not override cli; cli must not be overridden by anything
    ['default a=s:d', 'env XVC_a e', 'cli some a%3Dc', 'run', 'inc env 0', 'run'],
    # later -c wins over earlier -c
    ['default a=s:d', 'cli some a%3Dfirst a%3Dsecond', 'run'],
    # invalid / absent files contribute nothing
    ['default a=s:d', 'file project invalid', 'file local absent', 'run', 'file local tree a=s:l', 'run'],
    # nested tables flatten to dotted keys (the crate's own unit test)
    ['default builtin', 'file project tree core[ foo=s:bar val=i:100 ]', 'run'],
]
K5C_CORPUS = [
    ['default core[ verbosity=s:error ]', 'cli some core.verbosity%3D1', 'run'],
    ['default git[ command=s:git ]', 'env XVC_git.command true', 'run'],
    ['default pipeline[ default=s:default ]', 'cli some pipeline.default%3D1e5', 'run'],
]
K5B_CORPUS = [
    ['default cache[ algorithm=s:blake3 ]', 'file user tree cache[ algorithm=s:sha3 ]', 'inc user 0', 'run'],
    ['default cache[ algorithm=s:blake3 ]', 'file system tree cache[ algorithm=s:sha2 ]', 'inc system 0', 'run'],
]


# ---------------------------------------------------------------------------------------------------------------
# binary-level stream

ALGO_PREFIX = {'blake3': 'b3', 'b3': 'b3', 'blake2': 'b2', 'b2': 'b2', 'sha2': 's2', 's2': 's2', 'sha3': 's3', 's3': 's3'}
OBS_KEYS = ['cache.algorithm', 'file.recheck.method', 'file.track.no_commit']


class BinStream:
    """`xvc [switches] [-c …] file track <new file>` in a scratch repository set up from the op lines"""

    def __init__(self, chk, xvc, model, builtin, always_sets):
        self.chk, self.xvc, self.model, self.builtin = chk, xvc, model, builtin
        self.always = always_sets
        self.wired = []          # sources whose switch get_xvc_config_params reads (translator)
        self.n = 0
        self.sb = None

    def sandbox(self):
        if self.sb is None or self.n % 25 == 0:
            if self.sb: self.sb.cleanup()
            self.sb = Sandbox(self.chk.scratch, f'bin{self.n}', self.xvc)
            rc, out, err = self.sb.init(git=True)
            if rc != 0:
                self.chk.fatal('xvc init failed in the scratch repository', out + err)
        return self.sb

    def objects(self, sb):
        out = set()
        for pfx in ('b3', 'b2', 's2', 's3'):
            for dp, dn, fn in os.walk(sb.path('.xvc/' + pfx)):
                for f in fn:
                    out.add(os.path.relpath(os.path.join(dp, f), sb.path('.xvc')))
        return out

    def execute(self, ops):
        """returns observation dict for the single `binrun` of the case"""
        sb = self.sandbox()
        self.n += 1
        o = Oracle(self.builtin)
        for l in ops:
            if not l.startswith('binrun'):
                o.feed(l)
        # files
        userfile = os.path.join(sb.home, '.config', 'xvc')
        for slot, p in (('project', sb.path('.xvc/config.toml')), ('local', sb.path('.xvc/config.local.toml'))):
            if o.files[slot] is None:
                if os.path.exists(p): os.unlink(p)
            else:
                open(p, 'w').write(toml_text(o.files[slot]))
        # system and user are written in op order to whatever path the binary uses (same file on this platform)
        if os.path.exists(userfile): os.unlink(userfile)
        for l in ops:
            t = l.split(' ')
            if t[0] == 'file' and t[1] in ('system', 'user'):
                if t[2] == 'tree':
                    open(userfile, 'w').write(toml_text(parse_tree(t[3:])))
                elif os.path.exists(userfile):
                    os.unlink(userfile)
        binrun = [l for l in ops if l.startswith('binrun')][0]
        elems = [unesc(x) for x in binrun.split(' ')[1:] if x]
        name = f'f{self.n}.txt'
        sb.write(name, f'content {self.n} {self.chk.seed}\n')
        before = self.objects(sb)
        argv = [SWITCH_OF[s] for s in o.sw] + sum([['-c', e] for e in elems], []) + ['file', 'track', name]
        rc, out, err = sb.x(*argv, env=dict(o.env))
        new = sorted(self.objects(sb) - before)
        st = sb.lstat_kind(name)
        if st['kind'] == 'symlink': method = 'symlink'
        elif st['kind'] == 'file' and st.get('nlink', 1) > 1: method = 'hardlink'
        elif st['kind'] == 'file': method = 'copy'
        else: method = st['kind']
        obs = {'rc': rc, 'argv': argv, 'env': dict(o.env), 'prefix': sorted({p.split('/')[0] for p in new}), 'method': method,
               'committed': bool(new), 'stderr': err[-300:]}
        return obs

    def expected_behaviour(self, conf):
        """effective (algorithm, method, no_commit) -> what track must do; None when a value is outside the documented ones"""
        try:
            algo = conf['cache.algorithm']; meth = conf['file.recheck.method']; nc = conf['file.track.no_commit']
        except KeyError:
            return None
        if algo[0] != 'str' or algo[1] not in ALGO_PREFIX or meth[0] != 'str' or meth[1] not in ('copy', 'symlink', 'hardlink') or nc[0] != 'bool':
            return None
        if nc[1]:
            return {'prefix': [], 'method': 'copy', 'committed': False}
        return {'prefix': [ALGO_PREFIX[algo[1]]], 'method': meth[1], 'committed': True}

    def oracle(self, ops, obs, same_file=False, honoured=None):
        o = Oracle(self.builtin, same_file=same_file, honoured=honoured)
        for l in ops:
            if not l.startswith('binrun'):
                o.feed(l)
        binrun = [l for l in ops if l.startswith('binrun')][0]
        elems = [unesc(x) for x in binrun.split(' ')[1:] if x]
        exp = o.expect(binary=True, cli=elems)
        conf = {}
        for k in OBS_KEYS:
            e = exp.get(k)
            if e is None or e[0] != 'typed':
                return None, []
            conf[k] = (e[1], e[2], e[3])
        want = self.expected_behaviour(conf)
        if want is None:
            return None, []
        msgs = []
        if obs['rc'] != 0:
            msgs.append(f'xvc exited {obs["rc"]}: {obs["stderr"]}')
        for f in ('prefix', 'method', 'committed'):
            if obs[f] != want[f]:
                msgs.append(f'{f}: observed {obs[f]}, but the effective configuration ' +
                            ', '.join(f'{k}={conf[k][1]!r} (from {conf[k][2]})' for k in OBS_KEYS) + f' requires {want[f]}')
        return want, msgs

    def model_prediction(self, ops):
        rc, out, err = run_lines(self.model, [], ops)
        if rc != 0 or len(out) != len(ops):
            return None
        conf = parse_answer(out[-1])
        if conf is None:
            return None
        return self.expected_behaviour({k: conf[k] for k in OBS_KEYS if k in conf})


def gen_binary(rng, n, alias, corpus_only=False):
    """scenarios: which sources define which of the three observed keys, which switches, which -c options"""
    ALG = ['blake3', 'sha2', 'sha3', 'blake2']
    METH = ['copy', 'symlink', 'hardlink']
    cases = []

    def mk(defs, sw, cli, env):
        ops = ['platform alias' if alias else 'platform distinct', 'default builtin']
        proj = {'core.guid': 'c20c20c20c20c20c'}
        proj.update(defs.get('project', {}))
        ops.append(tree_op('file project tree', proj))
        for slot in ('system', 'user', 'local'):
            if slot in defs:
                ops.append(tree_op(f'file {slot} tree', defs[slot]))
        for k, v in env.items():
            ops.append(f'env {esc("XVC_" + k)} {esc(render_text(v))}')
        ops.append(' '.join(['sw'] + sw))
        ops.append(' '.join(['binrun'] + [esc(f'{k}={render_text(v)}') for k, v in cli.items()]))
        return ops
    # fixed scenarios: one per switch with the switched source defining the key, and the precedence chain
    k = 'cache.algorithm'
    cases.append(mk({'user': {k: 'sha3'}, 'system': {k: 'sha3'}, 'project': {k: 'blake2'}, 'local': {k: 'sha2'}}, [], {}, {}))
    cases.append(mk({'project': {k: 'blake2'}, 'local': {k: 'sha2'}}, ['local'], {}, {}))
    cases.append(mk({'project': {k: 'blake2'}}, ['project'], {}, {}))
    cases.append(mk({'project': {k: 'blake2'}, 'local': {k: 'sha2'}}, ['project'], {}, {}))
    cases.append(mk({'local': {k: 'sha2'}}, [], {k: 'sha3'}, {k: 'blake2'}))
    cases.append(mk({'local': {k: 'sha2'}}, [], {}, {k: 'blake2'}))
    cases.append(mk({'local': {k: 'sha2'}}, ['env'], {}, {k: 'blake2'}))
    cases.append(mk({'user': {k: 'sha3'}, 'system': {k: 'sha3'}}, ['user', 'system'], {}, {}))
    cases.append(mk({'user': {k: 'sha3'}, 'system': {k: 'sha3'}}, [], {}, {}))
    cases.append(mk({'local': {'file.recheck.method': 'symlink'}}, [], {}, {}))
    cases.append(mk({'local': {'file.recheck.method': 'symlink'}}, [], {'file.recheck.method': 'hardlink'}, {}))
    cases.append(mk({'project': {'file.track.no_commit': True}}, [], {}, {}))
    cases.append(mk({'project': {'file.track.no_commit': True}}, [], {'file.track.no_commit': False}, {}))
    cases.append(mk({'project': {'file.track.no_commit': True}}, [], {}, {'file.track.no_commit': False}))
    # K5b region: only one of system/user written, the other switched off
    cases.append(mk({'user': {k: 'sha3'}}, ['user'], {}, {}))
    cases.append(mk({'system': {k: 'sha2'}}, ['system'], {}, {}))
    if corpus_only:
        return cases
    while len(cases) < n:
        defs, env, cli = {}, {}, {}
        for slot in ('system', 'user', 'project', 'local'):
            if rng.random() < 0.5:
                d = {}
                if rng.random() < 0.7: d['cache.algorithm'] = rng.choice(ALG)
                if rng.random() < 0.4: d['file.recheck.method'] = rng.choice(METH)
                if rng.random() < 0.25: d['file.track.no_commit'] = rng.random() < 0.5
                if d: defs[slot] = d
        # system and user are one file here; keep the main stream on configurations where that cannot matter
        # (both written with the same content), the K5b region is exercised by the fixed scenarios above
        if alias and ('system' in defs or 'user' in defs):
            both = defs.get('user') or defs.get('system')
            defs['system'] = defs['user'] = both
        if rng.random() < 0.4: env['cache.algorithm'] = rng.choice(ALG)
        if rng.random() < 0.2: env['file.recheck.method'] = rng.choice(METH)
        if rng.random() < 0.3: cli['cache.algorithm'] = rng.choice(ALG)
        if rng.random() < 0.2: cli['file.recheck.method'] = rng.choice(METH)
        if rng.random() < 0.1: cli['file.track.no_commit'] = rng.random() < 0.5
        sw = [s for s in ('system', 'user', 'project', 'local', 'env') if rng.random() < 0.3]
        if alias and (('system' in sw) != ('user' in sw)) and 'system' in defs:
            sw = [s for s in sw if s not in ('system', 'user')] + rng.choice([[], ['system', 'user']])
        cases.append(mk(defs, sw, cli, env))
    return cases


# ---------------------------------------------------------------------------------------------------------------

def load_findings(chk):
    """known_findings.json is shared (and not written here); entries proposed by this module and not merged yet
    are read from lib/c20_known_findings.json so that the check has its final behaviour meanwhile."""
    have = {f['id'] for f in chk.known_findings}
    try:
        for f in json.load(open(PROPOSED_FINDINGS))['findings']:
            if f['property'] == chk.pid and f['id'] not in have:
                chk.known_findings.append(f)
                chk.notes.append(f'known finding {f["id"]} read from lib/c20_known_findings.json (proposed, not yet in known_findings.json)')
    except OSError:
        pass


def translate(chk):
    try:
        ex = extract_config.generate(REPO, GEN_DIR)
        return ex, None
    except extract_config.ExtractError as e:
        chk.proof['broken'].append({'stage': 'translator', 'package': 'XvcConfig', 'theorems': [],
                                    'errors': [f'translator/extract_config.py: {e}'],
                                    'note': 'the Rust source no longer has the shape the model is a transcription of; Gen/*.lean were left as they were'})
        return None, str(e)


def signature_inproc(inp, ops, msgs, ans=None):
    """Decidable facts about a single-run in-process failing input (ans = the harness answers for ops).
    Every complaint (key) is attributed separately:
      K5c  the key is declared a string, the winning source is env/cli, its text is a bool/i64/f64 literal and the
           effective value has exactly that literal's type;
      K5b  the complaint disappears when the expectation is recomputed with system file == user file (only on a
           platform where the harness reports the two paths equal, and only when the case writes one of them).
    Anything not attributed makes the kind `precedence` (never matched by a known finding)."""
    if ans is None:
        a = inp.run([ops])
        if not a:
            return {'kind': 'unknown'}
        _, ans, _ = a[0]
    keys = {k for _, k, _ in msgs}
    if not keys or None in keys:
        return {'kind': 'precedence', 'stream': 'inproc'}
    o = Oracle(inp.builtin)
    for l in ops:
        if l != 'run': o.feed(l)
    exp = o.expect()
    actual = parse_answer(ans[-1]) or {}
    retyped = {k for k in keys if exp.get(k, ('skip',))[0] == 'typed' and exp[k][1] == 'str' and exp[k][3] in ('env', 'cli')
               and looks_typed(exp[k][2]) and k in actual and actual[k][0] == looks_typed(exp[k][2])}
    rest = keys - retyped
    aliased = set()
    if rest and inp.alias and any(l.startswith('file system') or l.startswith('file user') for l in ops):
        still = {k for _, k, _ in inp.judge(ops, ans, same_file=True)}
        aliased = {k for k in rest if k not in still}
    if rest - aliased:
        return {'kind': 'precedence', 'stream': 'inproc', 'unattributed_keys': sorted(rest - aliased)}
    kinds = (['string-retyped'] if retyped else []) + (['system-user-same-path'] if aliased else [])
    return {'kind': '+'.join(kinds), 'stream': 'inproc'}


def run(chk: Check):
    quick = chk.tier == 'quick'
    load_findings(chk)
    ex, terr = translate(chk)
    if ex is None:
        # fall back to the committed snapshot for the oracle's knowledge of the builtin defaults
        try:
            ex = {'defaults': extract_config.extract_defaults(REPO), 'wiring': {'wiring': [], 'cli_always_sets': []}}
            ex['default_keys'] = [[k, extract_config.ty_of(v)] for k, v in extract_config.flatten(ex['defaults']['doc'])]
        except extract_config.ExtractError as e:
            chk.fatal('default configuration cannot be read from core/src/lib.rs', str(e))
    builtin = dict(extract_config.flatten(ex['defaults']['doc']))
    builtin_types = {k: ty_of(v) for k, v in builtin.items()}
    chk.extra['translator'] = {k: ex[k] for k in ('order', 'wiring', 'root', 'params') if k in ex}
    chk.extra['translator']['default_keys'] = ex.get('default_keys')
    chk.extra['translator']['digest'] = hashlib.sha1(json.dumps(chk.extra['translator'], sort_keys=True, default=str).encode()).hexdigest()
    chk.extra['translator']['regenerated_files_changed'] = ex.get('changed', [])

    model = chk.lean('XvcConfig', 'XvcConfig.Props', exe='configmodel',
                     extra_modules=['XvcConfig.Model', 'XvcConfig.Lemmas', 'XvcConfig.Gen.ConfigOrder', 'XvcConfig.Gen.ConfigDefaults'])
    have_model = os.path.exists(model)
    if any(b.get('stage') == 'lake build' for b in chk.proof['broken']):
        # a property theorem no longer checks on the regenerated tables; the driver does not depend on Props.lean:
        # build it alone so that the correspondence still runs against the model of the *current* tables
        rc, out = common.sh(['lake', 'build', 'configmodel'], cwd=os.path.join(common.LEAN_DIR, 'XvcConfig'), timeout=3000)
        have_model = rc == 0 and os.path.exists(model)
    if not have_model:
        chk.notes.append('model driver did not build; only the implementation-side oracle can run')
    bindir = chk.build_harness(['config_harness'])
    impl = os.path.join(bindir, 'config_harness')
    xvc = chk.build_xvc()
    chk.trusted_base += [
        'translator/extract_config.py (anchored text extraction of XvcConfig::new, get_xvc_config_params, XvcRootInner::new, default_project_config; python tomllib)',
        'harness/src/bin/config_harness.rs (calls xvc_config::XvcConfig::new in-process; renders TOML files from the op lines), lib/c20.py (generators, canonicaliser, diff, oracle), lib/xvcbin.py',
        'modelled, not verified: the `toml` crate parser (files are valid TOML over strings/bools/integers/decimal floats/nested tables; an unparsable file = absent), '
        'std::env, HashMap iteration order (irrelevant because keys within one source are distinct), the regex crate on `^XVC_?(.+)`, '
        'str::parse::<i64|f64|bool> (transcribed grammars, compared on a literal corpus), IEEE value of a float literal (floats are compared numerically, not modelled), clap',
    ]
    chk.assumptions += [
        'key segments contain no `.` and no table has a duplicate key, so flattened keys of one source are pairwise distinct',
        'environment variable names are unique up to the optional `_` after XVC (XVC_k and XVCk together are not generated) and contain no newline',
        'texts given through -c / XVC_ are ASCII; `trim` is modelled for ASCII white space',
        'arrays, datetimes and inline tables do not occur in configuration files (the default configuration has none)',
    ]

    inp = InProc(chk, impl, model if have_model else None, builtin)
    chk.extra['platform'] = {'system_config_file': inp.paths['system'].replace(inp.dir, '<scratch>'), 'user_config_file': inp.paths['user'].replace(inp.dir, '<scratch>'),
                             'same_path': inp.alias, 'params_flags': inp.flags}
    wired = [w[0] for w in ex['wiring']['wiring']] if 'wiring' in ex else []
    wired_doc = {'localp': 'local'}
    wired = [wired_doc.get(w, w) for w in wired]
    chk.extra['switches_wired_in_get_xvc_config_params'] = wired

    # ------------------------------------------------------------------ in-process streams
    streams = [('corpus', INPROC_CORPUS + K5C_CORPUS + K5B_CORPUS)]
    sub_keys = REP_KEYS if quick else REP_KEYS + [('git.command', 'str'), ('file.list.no_summary', 'bool')]
    streams.append(('subsets', list(gen_subsets(inp, sub_keys, full=not quick))))
    if not quick:
        all_keys = [(k, t) for k, t in ex['default_keys'] if k != 'core.guid']
        streams.append(('subsets-builtin', list(gen_subsets(inp, all_keys, full=False, with_builtin=True))))
    streams.append(('random', list(gen_random(inp, chk.rng, 1500 if quick else 20000, builtin_types))))
    streams.append(('random-literals', list(gen_random(inp, chk.rng, 300 if quick else 4000, builtin_types, literals=True))))
    streams.append(('parse', list(gen_parse(builtin_types))))
    ncomb = len(list(combos(inp.flags, not quick)))
    chk.extra['rule'] = (
        f'in-process (real XvcConfig::new vs model vs python oracle): corpus ({len(streams[0][1])} fixed cases); `subsets`: ALL 2^7 subsets of the seven sources '
        f'defining the key x {len(sub_keys)} representative keys (string, bool, int; five of them default keys, one not) x all {ncomb} include/path combinations '
        f'reachable through XvcConfigParams, every source giving a value that identifies it; '
        + ('' if quick else f'`subsets-builtin`: the same over ALL {len(ex["default_keys"]) - 1} keys of the built-in default configuration (subsets containing the default); ')
        + f'`random`: {len(streams[-3][1])} random configurations (nested tables, absent/invalid files, spaces around `=`, repeated -c, odd XVC names), 1-4 runs each; '
        f'`random-literals`: {len(streams[-2][1])} more with bool/int/float-looking texts through env/-c (K5c region); `parse`: {len(streams[-1][1])} cases, every literal/word of a '
        f'{len(LITERALS) + len(WORDS) + 5}-token corpus through env and -c for a string, bool, int and undeclared key. '
        f'binary: fixed scenarios (one per switch, precedence chain, K5b) + random scenarios of `xvc [switches] [-c …] file track` (see binary stream counts). '
        'A case is non-trivial when at least two sources define the judged key or a source is disabled; distinct by op list.')
    chk.extra['exhaustive'] = False
    chk.extra['exhaustive_part'] = f'all 128 subsets of defining sources x {len(sub_keys)} keys x {ncomb} include/path combinations'

    first_bad = {}
    for name, cases in streams:
        st = chk.tie['streams'].setdefault(name, {'cases': 0, 'runs': 0, 'disagreements': 0, 'oracle_failures': 0})
        for i in range(0, len(cases), 400):
            for ops, a_i, a_m in inp.run(cases[i:i + 400]):
                st['cases'] += 1
                nruns = sum(1 for l in ops if l == 'run')
                st['runs'] += nruns
                chk.evaluations += nruns
                for l in ops:
                    t = l.split(' ')
                    chk.count('op:' + t[0] + (':' + t[1] if t[0] in ('file', 'inc', 'path', 'cli') else '') + (':' + t[2] if t[0] == 'file' else ''))
                ndef = sum(1 for l in ops if l.split(' ')[0] in ('file', 'env', 'cli') and 'none' not in l and 'absent' not in l)
                if ndef >= 2 or any(l.endswith(' 0') for l in ops):
                    chk.nontrivial.add(hashlib.sha1('\n'.join(ops).encode()).hexdigest())
                bad = inp.judge(ops, a_i)
                if bad:
                    st['oracle_failures'] += len({j for j, _, _ in bad})
                    for j in sorted({j for j, _, _ in bad}):
                        if ops[j] == 'run':
                            flat = flat_case(ops, j)
                            fans = [a for l, a in zip(ops[:j], a_i[:j]) if l != 'run'] + [a_i[j]]
                            sig = signature_inproc(inp, flat, [b for b in bad if b[0] == j], fans)
                        else:
                            flat, sig = ops[:j + 1] + ['run'], {'kind': 'harness-op-failed'}
                        byk = st.setdefault('oracle_failures_by_kind', {})
                        byk[sig['kind']] = byk.get(sig['kind'], 0) + 1
                        slot = sig['kind'] if sig['kind'] != 'precedence' else f'precedence#{min(byk[sig["kind"]], 5)}'
                        first_bad.setdefault(('oracle', name, slot), (flat, [m for jj, _, m in bad if jj == j]))
                if a_m is not None:
                    builtin_flags = []
                    cur = True
                    for l in ops:
                        if l.startswith('default'): cur = l == 'default builtin'
                        builtin_flags.append(cur)
                    for j, (x, y) in enumerate(zip(a_i, a_m)):
                        if canon(x, builtin_flags[j]) != canon(y, builtin_flags[j]):
                            st['disagreements'] += 1
                            first_bad.setdefault(('tie', name, ''), (flat_case(ops, j) if ops[j] == 'run' else ops[:j + 1], None))
                            break
                if len(chk.samples) < 5 and st['cases'] % 97 == 3 and nruns:
                    chk.samples.append({'stream': name, 'ops': ops[:14], 'implementation_answers': [a[:300] for a in a_i[:14]],
                                        'model_answers': [a[:300] for a in (a_m or [])[:14]]})

    # minimise and report
    reported = set()
    for (kind, name, _), (ops, msgs) in first_bad.items():
        if kind == 'oracle':
            def fails(c):
                if 'run' not in c: return False
                r = inp.run([c])
                return bool(r) and bool(inp.judge(r[0][0], r[0][1]))
            small = shrink(ops, fails)
            r = inp.run([small])[0]
            bad = inp.judge(r[0], r[1])
            sig = signature_inproc(inp, small, bad)
            if '\n'.join(small) in reported:
                continue
            reported.add('\n'.join(small))
            chk.oracle_failure(bad[0][2] if bad else msgs[0], {'stream': 'inproc', 'ops': small},
                               {'answers': r[1], 'all': [m for _, _, m in bad][:6], 'found_in_stream': name}, signature=sig)
        else:
            def differs(c):
                r = inp.run([c])
                return bool(r) and any(canon(x, 'default builtin' in c) != canon(y, 'default builtin' in c) for x, y in zip(r[0][1], r[0][2]))
            small = shrink(ops, differs)
            r = inp.run([small])
            if r:
                chk.disagreement(name, small, r[0][1], r[0][2], 'minimised')

    # ------------------------------------------------------------------ binary stream
    bs = BinStream(chk, xvc, model if have_model else None, builtin, ex.get('wiring', {}).get('cli_always_sets', []))
    bs.wired = wired
    nbin = 40 if quick else 400
    bcases = gen_binary(chk.rng, nbin, inp.alias)
    st = chk.tie['streams'].setdefault('binary', {'cases': 0, 'runs': 0, 'disagreements': 0, 'oracle_failures': 0, 'judged': 0})
    bin_bad = {}
    for ops in bcases:
        obs = bs.execute(ops)
        st['cases'] += 1; st['runs'] += 1
        chk.evaluations += 1
        for l in ops:
            if l.startswith('sw '):
                for s in l.split(' ')[1:]:
                    if s: chk.count('bin:switch:' + s)
        chk.nontrivial.add(hashlib.sha1('\n'.join(ops).encode()).hexdigest())
        want, msgs = bs.oracle(ops, obs)
        if want is not None:
            st['judged'] += 1
            chk.count('bin:prefix:' + ','.join(obs['prefix']))
            chk.count('bin:method:' + obs['method'])
        if msgs:
            st['oracle_failures'] += 1
            sig = signature_binary(bs, ops, obs, inp.alias)
            byk = st.setdefault('oracle_failures_by_kind', {})
            byk[sig['kind']] = byk.get(sig['kind'], 0) + 1
            bin_bad.setdefault(json.dumps(sig, sort_keys=True), (ops, obs, msgs, sig))
        if have_model:
            pred = bs.model_prediction(ops)
            if pred is not None and any(obs[f] != pred[f] for f in ('prefix', 'method', 'committed')):
                st['disagreements'] += 1
                if st['disagreements'] == 1:
                    chk.disagreement('binary', ops, {f: obs[f] for f in ('rc', 'prefix', 'method', 'committed', 'stderr')}, pred,
                                     'track does not act on the effective value the model computes')
        if len(chk.samples) < 8 and st['cases'] in (2, 5):
            chk.samples.append({'stream': 'binary', 'ops': ops, 'argv': obs['argv'], 'observed': {f: obs[f] for f in ('rc', 'prefix', 'method', 'committed')}, 'required': want})
    for _, (ops, obs, msgs, sig) in bin_bad.items():
        def fails(c):
            if not any(l.startswith('binrun') for l in c): return False
            ob = bs.execute(c)
            return bool(bs.oracle(c, ob)[1])
        keep = [l for l in ops if l.startswith('binrun') or l.startswith('platform') or l.startswith('default')]
        small = shrink(ops, lambda c: all(k in c for k in keep) and fails(c), max_steps=40)
        ob = bs.execute(small)
        want, msgs2 = bs.oracle(small, ob)
        sig = signature_binary(bs, small, ob, inp.alias) if msgs2 else sig
        chk.oracle_failure((msgs2 or msgs)[0], {'stream': 'binary', 'ops': small},
                           {'argv': ob['argv'], 'env': ob['env'], 'observed': {f: ob[f] for f in ('rc', 'prefix', 'method', 'committed', 'stderr')}, 'required': want,
                            'all': msgs2 or msgs}, signature=sig)
    if bs.sb: bs.sb.cleanup()

    # the five documented switches must be wired (translator's table); an unwired one is a finding only through its failing replay above
    missing = [s for s in ('system', 'user', 'project', 'local', 'env') if s not in wired]
    if missing:
        chk.notes.append('get_xvc_config_params does not read the switch(es) ' + ', '.join(SWITCH_OF[s] for s in missing) +
                         ' (regenerated table Gen.wiring); the binary stream replays them')
    return chk.finish()


def signature_binary(bs, ops, obs, alias):
    """attribute a binary-level failure: which single deviation from the property explains the observation.
    `switch-ignored` also records the static fact whether get_xvc_config_params reads the switch (translator table):
    the known finding K5a matches only switches that are NOT read, so a wired switch that is ignored is a violation."""
    sw = []
    for l in ops:
        if l.startswith('sw '): sw = [x for x in l.split(' ')[1:] if x]
    # K5a: the observation is exactly what the property demands if one named switch is ignored
    for s in sw:
        if s in ('project', 'local'):
            want, msgs = bs.oracle(ops, obs, honoured=set(sw) - {s})
            if want is not None and not msgs:
                return {'kind': 'switch-ignored', 'switch': SWITCH_OF[s], 'read_by_get_xvc_config_params': s in bs.wired}
    # K5b: explained by system file == user file
    if alias:
        want, msgs = bs.oracle(ops, obs, same_file=True)
        if want is not None and not msgs and any(l.startswith('file system') or l.startswith('file user') for l in ops):
            return {'kind': 'system-user-same-path', 'stream': 'binary'}
    return {'kind': 'effective-value-not-used', 'stream': 'binary'}


def replay(chk: Check, data):
    load_findings(chk)
    ex = extract_config.extract(REPO)
    builtin = dict(extract_config.flatten(ex['defaults']['doc']))
    bindir = chk.build_harness(['config_harness'])
    inp = InProc(chk, os.path.join(bindir, 'config_harness'), None, builtin)
    bs = None
    for f in data.get('failures', []):
        case = f['case']
        chk.evaluations += 1
        print('case:', json.dumps(case))
        if case['stream'] == 'inproc':
            r = inp.run([case['ops']])[0]
            bad = inp.judge(r[0], r[1])
            print('answers:', r[1][-1][:600])
            print('oracle:', [m for _, _, m in bad] or 'property holds on this input')
            if bad:
                chk.oracle_failure(bad[0][2], case, {'answers': r[1]}, signature=signature_inproc(inp, case['ops'], bad))
        else:
            if bs is None:
                bs = BinStream(chk, chk.build_xvc(), None, builtin, [])
                bs.wired = [{'localp': 'local'}.get(w[0], w[0]) for w in ex['wiring']['wiring']]
            ob = bs.execute(case['ops'])
            want, msgs = bs.oracle(case['ops'], ob)
            print('argv:', ob['argv'], 'env:', ob['env'])
            print('observed:', {k: ob[k] for k in ('rc', 'prefix', 'method', 'committed')}, 'required:', want)
            print('oracle:', msgs or 'property holds on this input')
            if msgs:
                chk.oracle_failure(msgs[0], case, {'observed': ob}, signature=signature_binary(bs, case['ops'], ob, inp.alias))
    if bs and bs.sb: bs.sb.cleanup()
    return chk.finish()
