"""Static tie for C11 (lock order): extract the lock-nesting relation of the shared locks of the pipeline scheduler
from the CURRENT Rust sources of the xvc-pipeline crate and generate lean/XvcPipeline/XvcPipeline/Gen/Locks.lean.

An edge G -> L means: somewhere a thread may ACQUIRE lock L (read, write or lock alike) WHILE it holds a guard of lock G.
`Props/C11.lean` proves `C11_lock_order` (the generated table is irreflexive and acyclic, `decide`) and from it, with the
general theorem `C11_lock_order_no_wait_cycle`, that no wait-for cycle can form.  A self edge G -> G is the recursive
acquisition that deadlocks a std RwLock as soon as a writer queues between the two reads.

Rules (deliberately simple, conservative where cheap; limits at the end):

 R1 lock sites      `<receiver>.read()`, `.write()`, `.lock()` (empty argument list, white space/new lines allowed, an
                    optional `.clone()` before) where the last identifier of the receiver is a known lock name or an alias:
                    LOCKS below, plus `let x = <...lock...>.clone();` aliases found in the same function.
                    ANY such call whose receiver is not a known lock is an error (unknown lock => broken tie), and the number
                    of sites must equal a plain regex count over the raw sources (nothing silently dropped).
 R2 guard extent    (a) `let [mut] g = <site>` followed only by `?`, `.unwrap()`, `.expect(..)`  : bound guard, held to the end
                        of the enclosing block, or to `drop(g)` in that block;
                    (b) site inside the scrutinee of `if let` / `while let` / `match` / `for .. in`: held to the end of the
                        whole construct (all arms / else branches);
                    (c) otherwise a temporary: held to the end of the enclosing statement (next `;` at the same depth, or
                        the end of the block for a tail expression); the condition of a plain `if`/`while` is its own
                        statement (temporaries die before the block).
                    Within the extent, what counts as executed under the guard: everything textually after the site, plus
                    the calls whose argument list encloses the site (they run after their arguments).
                    (a') `let g = w!(<site>, ..);` - the guard is the first argument of wrappers (`uwr!`, `Ok`, ..) and nothing is
                        called on it: bound like (a).  In an `if .. else if ..` chain the construct that governs a site is the
                        last one opened before it (`else if let P = <site>` is a scrutinee, (b)).
 R3 closures        `let f = |..| ..;` is a local function: its body is not executed where it is written, a call `f(..)` in
                    the enclosing function runs it there.  Closures written inline (arguments of `.map(..)`, `uwr!(..)`, ..)
                    count as executed in place.
 R4 calls           every `name(`, `path::name(`, `.name(` , `name!(` inside a guard extent is a call.  `.name(` resolves to
                    every method (fn with a `self` parameter) of that name in the crate, `name(`/`path::name(` to every other
                    fn of that name, a local closure first.  A callee contributes every lock it may acquire, transitively
                    (fixpoint over the crate's call graph).  Passing `params` on is therefore covered by name resolution.
 R5 scope           all `*.rs` under pipeline/src (incl. the `verif` hook module); `#[cfg(test)]` modules excluded.

Limits (would be missed): locks reached through trait objects / function pointers / other crates (the path metadata
provider of xvc-core, which locks internally and returns, has its own table: `analyse_pmp` below, Gen/PmpLocks.lean,
`C11_pmp_no_self_deadlock`), guards stored in structs or returned from functions, guards moved into
threads, lazily evaluated iterators that capture a guard and are consumed in a later statement, macros that expand to lock
calls, non-lexical early `drop` through shadowing.  Conservative (may add edges that cannot happen): name-based call
resolution, whole-construct extent for scrutinee temporaries, branches not distinguished.
"""
import os, re, json, hashlib

# canonical lock -> names under which it appears as the last identifier of a receiver
LOCKS = {
    'dependency_diffs': ['dependency_diffs'],
    'output_diffs': ['output_diffs'],
    'current_states': ['current_states', 'step_states'],
    'available_process_slots': ['available_process_slots'],
    'command_process': ['command_process', 'cp'],
    'FILE_LOCK': ['FILE_LOCK'],
}
SITE = re.compile(r'(?P<recv>[A-Za-z_][\w]*(?:\s*\.\s*[A-Za-z_]\w*)*?)\s*(?:\.\s*clone\s*\(\s*\)\s*)?\.\s*(?P<op>read|write|lock)\s*\(\s*\)')
RAW_SITE = re.compile(r'\.\s*(read|write|lock)\s*\(\s*\)')


class LockExtractError(Exception):
    pass


def blank_comments_and_strings(src):
    """replace comments, string and char literals by blanks (new lines kept) so that offsets and line numbers survive"""
    out = list(src)
    i, n = 0, len(src)

    def blank(a, b):
        for k in range(a, b):
            if out[k] != '\n':
                out[k] = ' '
    while i < n:
        c = src[i]
        if src.startswith('//', i):
            j = src.find('\n', i)
            j = n if j < 0 else j
            blank(i, j); i = j
        elif src.startswith('/*', i):
            depth, j = 1, i + 2
            while j < n and depth:
                if src.startswith('/*', j): depth += 1; j += 2
                elif src.startswith('*/', j): depth -= 1; j += 2
                else: j += 1
            blank(i, j); i = j
        elif c == '"' or (c == 'r' and re.match(r'r#*"', src[i:i + 6]) and not (i and (src[i - 1].isalnum() or src[i - 1] == '_'))) \
                or (c == 'b' and src[i + 1:i + 2] == '"'):
            if c == 'b':
                i += 1; c = '"'
            if c == 'r':
                m = re.match(r'r(#*)"', src[i:])
                end = '"' + m.group(1)
                j = src.find(end, i + len(m.group(0)))
                j = n if j < 0 else j + len(end)
                blank(i + 1, j - 1) if False else blank(i, j)
                i = j
            else:
                j = i + 1
                while j < n and src[j] != '"':
                    j += 2 if src[j] == '\\' else 1
                blank(i + 1, min(j, n)); i = j + 1
        elif c == "'":
            m = re.match(r"'(\\.[^']*|[^'\\])'", src[i:])
            if m:
                blank(i + 1, i + len(m.group(0)) - 1); i += len(m.group(0))
            else:
                i += 1          # lifetime
        else:
            i += 1
    return ''.join(out)


def match_close(s, i, open_c, close_c):
    depth = 0
    for j in range(i, len(s)):
        if s[j] == open_c: depth += 1
        elif s[j] == close_c:
            depth -= 1
            if depth == 0:
                return j
    raise LockExtractError(f'unbalanced {open_c}{close_c} at offset {i}')


class Fn:
    def __init__(self, file, name, start, end, is_method, parent=None):
        self.file, self.name, self.start, self.end, self.is_method, self.parent = file, name, start, end, is_method, parent
        self.closures = {}          # local closure name -> Fn
        self.sites = []             # (pos, lock, op)
        self.extents = []           # (lock, site pos, lo, hi, enclosing call positions)
        self.calls = []             # (pos, kind, name)
        self.acq = set()

    def label(self):
        return (self.parent.label() + '::{closure ' + self.name + '}') if self.parent else self.name


def parse_functions(file, s):
    """top level and impl fns with bodies (nested fns too)"""
    fns = []
    test_ranges = []
    for m in re.finditer(r'#\[cfg\(test\)\]\s*(?:pub\s+)?mod\s+\w+\s*\{', s):
        test_ranges.append((m.start(), match_close(s, m.end() - 1, '{', '}')))
    for m in re.finditer(r'\bfn\s+([A-Za-z_]\w*)\s*(?:<[^(){};]*>)?\s*\(', s):
        if any(a <= m.start() <= b for a, b in test_ranges):
            continue
        p_open = m.end() - 1
        p_close = match_close(s, p_open, '(', ')')
        params = s[p_open + 1:p_close]
        j = p_close + 1
        depth = 0
        body = None
        while j < len(s):
            ch = s[j]
            if ch in '(<[' and not (ch == '<' and s[j - 1] == '-'): depth += 1 if ch != '<' else 0
            elif ch in ')]': depth -= 1
            if ch == ';' and depth <= 0:
                break
            if ch == '{' and depth <= 0:
                body = j
                break
            j += 1
        if body is None:
            continue
        end = match_close(s, body, '{', '}')
        is_method = bool(re.match(r'\s*(&\s*(\'\w+\s+)?)?(mut\s+)?self\b', params))
        fns.append(Fn(file, m.group(1), body, end, is_method))
    return fns


def find_closures(s, fn):
    """`let name = [move] |..| body;` inside fn (not inside nested fns)"""
    for m in re.finditer(r'\blet\s+(?:mut\s+)?([A-Za-z_]\w*)\s*(?::[^=;]+)?=\s*(?:move\s+)?\|', s[fn.start:fn.end]):
        a = fn.start + m.end() - 1                     # first '|'
        b = s.index('|', a + 1)
        k = b + 1
        # optional return type `-> T`
        mt = re.match(r'\s*->\s*[^{]+', s[k:])
        if mt:
            k += len(mt.group(0))
        while s[k].isspace():
            k += 1
        if s[k] == '{':
            end = match_close(s, k, '{', '}')
            start = k
        else:
            start = k
            end = stmt_end(s, k, fn.end)
        c = Fn(fn.file, m.group(1), start, end, False, parent=fn)
        fn.closures[m.group(1)] = c


def stmt_end(s, pos, limit):
    """offset of the `;` that ends the statement containing pos, or of the `}` that closes the enclosing block (tail
    expression, match arm).  Enclosing `(`..`)` / `[`..`]` are passed through: temporaries live to the end of the statement."""
    depth = 0
    j = pos
    while j < limit:
        ch = s[j]
        if ch in '({[':
            depth += 1
        elif ch in ')]':
            depth = max(depth - 1, 0)
        elif ch == '}':
            depth -= 1
            if depth < 0:
                return j
        elif ch == ';' and depth == 0:
            return j
        j += 1
    return limit


def stmt_start(s, pos, floor):
    """offset where the statement containing pos starts: after the previous `;` at the same depth, after the `{` that opens
    the enclosing block, or after a `}` that ends a preceding block statement"""
    depth = 0
    j = pos - 1
    while j > floor:
        ch = s[j]
        if ch in ')]':
            depth += 1
        elif ch in '([':
            depth = max(depth - 1, 0)
        elif ch == '}':
            if depth == 0:
                m = re.match(r'\s*(\.|\)|,|\?|;|else\b|\]|=>)', s[j + 1:j + 40])
                if not m:
                    return j + 1          # a block statement ended here
            depth += 1
        elif ch == '{':
            if depth == 0:
                return j + 1
            depth -= 1
        elif ch == ';' and depth == 0:
            return j + 1
        j -= 1
    return floor + 1


def enclosing_block_end(s, pos, limit):
    depth = 0
    for j in range(pos, limit + 1):
        ch = s[j]
        if ch == '{': depth += 1
        elif ch == '}':
            depth -= 1
            if depth < 0:
                return j
    return limit


def lock_of(recv, aliases):
    last = re.split(r'\s*\.\s*', recv.strip())[-1]
    return aliases.get(last)


def analyse(repo):
    src_dir = os.path.join(repo, 'pipeline', 'src')
    files = []
    for dp, dn, fn in os.walk(src_dir):
        for f in sorted(fn):
            if f.endswith('.rs'):
                files.append(os.path.join(dp, f))
    files.sort()
    base_alias = {n: k for k, v in LOCKS.items() for n in v}
    all_fns, raw_count, problems = [], 0, []
    texts = {}
    for path in files:
        raw = open(path).read()
        s = blank_comments_and_strings(raw)
        texts[path] = s
        rel = os.path.relpath(path, repo)
        fns = parse_functions(rel, s)
        # nesting: a fn inside another fn body is analysed on its own; its range is excluded from the outer one
        for f in fns:
            find_closures(s, f)
        all_fns += fns
        # raw count of lock-like calls on known names (independent, purely lexical)
        for m in RAW_SITE.finditer(s):
            head = s[max(0, m.start() - 200):m.start()]
            mm = re.search(r'([A-Za-z_]\w*)\s*(?:\.\s*clone\s*\(\s*\)\s*)?$', head)
            if mm and mm.group(1) in base_alias:
                raw_count += 1
    by_file = {}
    for f in all_fns:
        by_file.setdefault(f.file, []).append(f)
    # ------------------------------------------------------------------ sites, extents, calls per function
    units = []                    # every Fn incl. closures
    nsites = 0
    for path in files:
        s = texts[path]
        rel = os.path.relpath(path, repo)
        fns = by_file.get(rel, [])
        covered = []
        for f in fns:
            inner = [g for g in fns if g is not f and f.start < g.start and g.end < f.end]
            holes = [(g.start, g.end) for g in inner] + [(c.start, c.end) for c in f.closures.values()]
            scan_unit(s, f, holes, base_alias, problems)
            units.append(f)
            for c in f.closures.values():
                choles = [(g.start, g.end) for g in inner]
                scan_unit(s, c, choles, dict(base_alias, **getattr(f, 'aliases', {})), problems)
                units.append(c)
            covered.append((f.start, f.end))
        # lock calls outside every function body (cannot be attributed): error
        for m in SITE.finditer(s):
            if not any(a <= m.start() <= b for a, b in covered):
                if lock_of(m.group('recv'), base_alias):
                    problems.append(f'{rel}:{s[:m.start()].count(chr(10)) + 1}: lock call outside a function body')
    nsites = sum(len(u.sites) for u in units)
    if problems:
        raise LockExtractError('; '.join(problems[:6]))
    if nsites < raw_count:
        raise LockExtractError(f'the extractor understood {nsites} lock sites but a plain regex finds {raw_count} '
                               f'`.read()/.write()/.lock()` calls on the known lock names: a syntactic form is not understood')
    # ------------------------------------------------------------------ call graph closure
    methods, frees = {}, {}
    for f in all_fns:
        (methods if f.is_method else frees).setdefault(f.name, []).append(f)

    def resolve(u, kind, name):
        owner = u.parent or u
        if kind != 'method' and name in owner.closures:
            return [owner.closures[name]]
        if kind == 'method':
            return methods.get(name, [])
        return frees.get(name, []) + ([] if kind == 'free' else [])
    for u in units:
        u.acq = {l for (_, l, _) in u.sites}
    changed = True
    while changed:
        changed = False
        for u in units:
            for (pos, kind, name) in u.calls:
                for c in resolve(u, kind, name):
                    if not c.acq <= u.acq:
                        u.acq |= c.acq; changed = True
    # ------------------------------------------------------------------ edges
    edges = {}

    def add(g, l, where):
        edges.setdefault((g, l), [])
        if where not in edges[(g, l)]:
            edges[(g, l)].append(where)
    for u in units:
        s = texts[os.path.join(repo, u.file)]
        for (g, spos, lo, hi, encl) in u.extents:
            line_g = s[:spos].count('\n') + 1
            for (pos, l, op) in u.sites:
                if pos != spos and lo <= pos < hi and pos > spos:
                    add(g, l, f'{u.file}:{s[:pos].count(chr(10)) + 1} in {u.label()}: {l}.{op}() while the {g} guard of line {line_g} is held')
            for (pos, kind, name) in u.calls:
                if (spos < pos < hi) or pos in encl:
                    for c in resolve(u, kind, name):
                        for l in sorted(c.acq):
                            add(g, l, f'{u.file}:{s[:pos].count(chr(10)) + 1} in {u.label()}: call of {c.label()} (acquires {l}) while the {g} guard of line {line_g} is held')
    locks = [k for k in LOCKS if any(k == l for u in units for (_, l, _) in u.sites)]
    return {'locks': locks, 'edges': edges, 'sites': nsites, 'raw_sites': raw_count, 'functions': len(all_fns),
            'closures': sum(len(f.closures) for f in all_fns), 'files': len(files),
            'site_list': sorted(f'{u.file}:{texts[os.path.join(repo, u.file)][:p].count(chr(10)) + 1} {l}.{op} in {u.label()}'
                                for u in units for (p, l, op) in u.sites)}


def in_holes(pos, holes):
    return any(a <= pos <= b for a, b in holes)


def scan_unit(s, u, holes, base_alias, problems):
    body_lo, body_hi = u.start, u.end
    aliases = dict(base_alias)
    # R1 aliases: let x = <..lock..>.clone();
    for m in re.finditer(r'\blet\s+(?:mut\s+)?([A-Za-z_]\w*)\s*=\s*([\w\.\s]*?[A-Za-z_]\w*)\s*\.\s*clone\s*\(\s*\)\s*;', s[body_lo:body_hi]):
        lk = lock_of(m.group(2), aliases)
        if lk:
            aliases[m.group(1)] = lk
    u.aliases = {k: v for k, v in aliases.items() if k not in base_alias}
    text = s
    for m in SITE.finditer(text, body_lo, body_hi):
        pos = m.start()
        if in_holes(pos, holes):
            continue
        lk = lock_of(m.group('recv'), aliases)
        line = text[:pos].count('\n') + 1
        if not lk:
            last = re.split(r'\s*\.\s*', m.group('recv').strip())[-1]
            # closure / fn parameters of lock type are resolved by their name; anything else is unknown
            problems.append(f'{u.file}:{line}: `.{m.group("op")}()` on `{last}`, which is not a known lock or alias (extend LOCKS in lib/lock_extract.py)')
            continue
        u.sites.append((pos, lk, m.group('op')))
        site_end = m.end()
        # ---- R2 extent
        st = stmt_start(text, pos, body_lo)
        head = text[st:pos]
        tail_m = re.match(r'(\s*(\?|\.\s*unwrap\s*\(\s*\)|\.\s*expect\s*\([^()]*\)))*\s*;', text[site_end:])
        mlet = re.match(r'\s*let\s+(?:mut\s+)?([A-Za-z_]\w*)\s*(?::[^=]+)?=\s*$', head)
        if not (mlet and tail_m):
            # R2 (a'): the guard reaches the `let` through wrappers that hand their first argument on: `let g = uwr!(<site>, out);`
            wrapped = bound_through_wrappers(text, head, site_end)
            if wrapped:
                mlet, tail_m = wrapped
        if mlet and tail_m:
            g = mlet.group(1)
            hi = enclosing_block_end(text, site_end, body_hi)
            md = re.search(r'\bdrop\s*\(\s*' + re.escape(g) + r'\s*\)', text[site_end:hi])
            if md:
                hi = site_end + md.start()
            lo = site_end
        else:
            mscr = re.match(r'\s*(?:[A-Za-z_]\w*\s*=\s*)?(?:let\s+[^=]*=\s*)?(if\s+let\b|while\s+let\b|match\b|for\b)', head)
            plain_if = re.match(r'\s*(?:\}\s*else\s+)?(if|while)\b(?!\s+let\b)', head)
            # in an `if .. {} else if ..` chain the construct that governs the site is the LAST one opened before it (the blocks
            # of the earlier links are closed): `if a {} else if let P = <site> {}` is a scrutinee, `if let .. {} else if <site> {}` a condition
            kw = governing_keyword(head)
            if kw is not None and (mscr or plain_if):
                mscr, plain_if = (kw if kw != 'plain' else None), (kw == 'plain' or None)
            hi = stmt_end(text, pos, body_hi)
            if mscr:
                # the construct ends with its last block; stmt_end stops at `;` or at the closing brace of the parent block
                hi = construct_end(text, pos, body_hi)
            elif plain_if:
                # condition only: up to the `{` that opens the block
                hi = cond_end(text, pos, body_hi)
            lo = st
        # calls whose argument list encloses the site
        encl = set()
        for mc in re.finditer(r'([A-Za-z_]\w*)\s*(!?)\s*\(', text[st:pos]):
            o = st + mc.end() - 1
            try:
                c = match_close(text, o, '(', ')')
            except LockExtractError:
                continue
            if o < pos < c:
                encl.add(st + mc.start(1))
        u.extents.append((lk, pos, lo, hi, encl))
    # ---- R4 calls
    for m in re.finditer(r'(\.\s*|::\s*)?([A-Za-z_]\w*)\s*(!?)\s*(?:::\s*<[^()]*>\s*)?\(', text[body_lo:body_hi]):
        pos = body_lo + m.start(2)
        if in_holes(pos, holes):
            continue
        name = m.group(2)
        if name in ('if', 'while', 'match', 'for', 'return', 'loop', 'fn', 'let', 'Some', 'Ok', 'Err', 'None', 'move', 'in', 'as'):
            continue
        kind = 'method' if (m.group(1) or '').strip() == '.' else ('path' if m.group(1) else 'free')
        u.calls.append((pos, kind, name))


TAIL_OPS = re.compile(r'(\s*(\?|\.\s*unwrap\s*\(\s*\)|\.\s*expect\s*\([^()]*\)))*')


def bound_through_wrappers(text, head, site_end):
    """`let [mut] g = w1!(w2(<site>[?|.unwrap()|.expect(..)] [, more args]) [, more args]) ;` : the guard is the first argument
    of every wrapper and nothing is called on it, so the wrappers may hand it on to `g` (uwr!, Ok, Some, Box::new, ..).
    Returns (match of the let head, True) or None."""
    m = re.match(r'\s*let\s+(?:mut\s+)?([A-Za-z_]\w*)\s*(?::[^=]+)?=\s*((?:[A-Za-z_][\w:]*\s*!?\s*\(\s*)+)$', head)
    if not m:
        return None
    nwrap = m.group(2).count('(')
    j = site_end + TAIL_OPS.match(text, site_end).end() - site_end
    for _ in range(nwrap):
        depth = 0
        k = j
        while k < len(text):
            ch = text[k]
            if ch in '([{':
                depth += 1
            elif ch in ')]}':
                if depth == 0:
                    break
                depth -= 1
            elif ch == ';' and depth == 0:
                return None
            k += 1
        if k >= len(text) or text[k] != ')':
            return None
        between = text[j:k].strip()
        if between and not between.startswith(','):
            return None                     # something is called on the guard: a temporary
        j = TAIL_OPS.match(text, k + 1).end()
    return (m, True) if re.match(r'\s*;', text[j:]) else None


def governing_keyword(head):
    """the last `if let` / `while let` / `match` / `for` (returned as that text) or plain `if` / `while` ('plain') in the text
    between the start of the statement and a lock site, ignoring blocks and parenthesised groups that are already closed"""
    h = list(head)
    stack = []
    for i, ch in enumerate(head):
        if ch in '{(':
            stack.append(i)
        elif ch in '})' and stack:
            a = stack.pop()
            for k in range(a, i + 1):
                if h[k] != '\n':
                    h[k] = ' '
    flat = ''.join(h)
    last = None
    for m in re.finditer(r'\b(if\s+let|while\s+let|match|for|if|while)\b', flat):
        last = m.group(1)
    if last is None:
        return None
    return 'plain' if last in ('if', 'while') else last


def construct_end(s, pos, limit):
    """end of an `if let` / `match` / `for` / `while let` construct whose scrutinee contains pos: after the last block
    (following `else` / `else if` chains)"""
    j = pos
    depth = 0
    # find the `{` that opens the first block (depth 0 relative to the scrutinee)
    while j < limit:
        ch = s[j]
        if ch in '([': depth += 1
        elif ch in ')]': depth -= 1
        elif ch == '{' and depth <= 0:
            break
        j += 1
    end = match_close(s, j, '{', '}')
    while True:
        m = re.match(r'\s*else\s*(if\b[^{]*)?\{', s[end + 1:])
        if not m:
            break
        end = match_close(s, end + 1 + m.end() - 1, '{', '}')
    return end + 1


def cond_end(s, pos, limit):
    j, depth = pos, 0
    while j < limit:
        ch = s[j]
        if ch in '([': depth += 1
        elif ch in ')]': depth -= 1
        elif ch == '{' and depth <= 0:
            # a closure body inside the condition opens a `{` too: closures start with `|..|` right before
            if re.search(r'\|\s*$', s[pos:j]) or re.search(r'\|[^|]*\|\s*$', s[max(pos, j - 80):j]):
                j = match_close(s, j, '{', '}')
            else:
                return j
        j += 1
    return limit


# ------------------------------------------------------------------------------------------------ xvc-core: the path metadata provider
# Every dependency comparison of every step thread goes through ONE XvcPathMetadataProvider (core/src/util/pmp.rs); its map is
# behind a std RwLock that the step threads and the file-system watcher thread share.  The scheduler model treats a lookup as
# atomic, which needs: no function of the provider acquires a lock of which the same thread still holds a guard.
#
# Table `Gen.pmpAcquisitions`: one entry per ACQUISITION EVENT in a function of the file - a lock site, or a call of a function
# of the provider that (transitively) acquires - with the guards of the same thread that are alive at that point (R2 extents:
# bound guards incl. `let g = uwr!(<site>, ..)`, scrutinee temporaries of `if let`/`match`/`for`/`while let` for the WHOLE
# construct, other temporaries to the end of the statement, conditions of a plain `if`/`while` only for the condition).
#  P1 locks      the fields of the struct whose type mentions `RwLock<` / `Mutex<`; aliases: `let x = <lock>.clone();`,
#                `let x = <alias>;` and the closure parameter names in PMP_PARAM_ALIASES.  A `.read()/.write()/.lock()` on anything
#                else is an error (broken tie).
#  P2 calls      `self.name(..)`, `Self::name(..)`, `XvcPathMetadataProvider::name(..)` resolve to the fn `name` of the file; `name(..)`
#                to a local closure `let name = |..| ..`.  A method call on any other receiver (`pm.get(path)` on a guard: HashMap::get)
#                is a method of another type; none of those types can reach the provider (std, crossbeam, xvc-walker, glob).  Calls
#                with the NAME of a provider function on another receiver are listed in the evidence (`foreign_receiver_calls`).
#  P3 modes      `.read()` = shared, `.write()` / `.lock()` = exclusive.
# Limits: a provider reached through another binding (`let me = self; me.get(..)`), guards returned from functions or stored.

PMP_FILE = os.path.join('core', 'src', 'util', 'pmp.rs')
PMP_STRUCT = 'XvcPathMetadataProvider'
PMP_PARAM_ALIASES = {'pmm': 'path_map'}        # parameter of the watcher's `handle_fs_event` closure: the Arc of the path map


def analyse_pmp(repo):
    path = os.path.join(repo, PMP_FILE)
    raw = open(path).read()
    s = blank_comments_and_strings(raw)
    ms = re.search(r'\bstruct\s+' + PMP_STRUCT + r'\s*\{', s)
    if not ms:
        raise LockExtractError(f'{PMP_FILE}: struct {PMP_STRUCT} not found')
    body = s[ms.end():match_close(s, ms.end() - 1, '{', '}')]
    locks = [m.group(1) for m in re.finditer(r'\b([a-z_]\w*)\s*:\s*([^,{}]*?(?:RwLock|Mutex)\s*<[^,]*(?:<[^<>]*>[^,]*)*),', body)]
    if not locks:
        raise LockExtractError(f'{PMP_FILE}: no RwLock/Mutex field found in {PMP_STRUCT}')
    alias = {l: l for l in locks}
    alias.update({k: v for k, v in PMP_PARAM_ALIASES.items() if v in locks})
    # `let x = <alias>;` (moves of the Arc, e.g. into the watcher thread), to a fixpoint together with the `.clone()` rule of scan_unit
    for _ in range(3):
        for m in re.finditer(r'\blet\s+(?:mut\s+)?([A-Za-z_]\w*)\s*=\s*(?:self\s*\.\s*)?([A-Za-z_]\w*)\s*(?:\.\s*clone\s*\(\s*\)\s*)?;', s):
            if m.group(2) in alias and m.group(1) not in alias:
                alias[m.group(1)] = alias[m.group(2)]
    fns = parse_functions(PMP_FILE, s)
    problems, units = [], []
    for f in fns:
        find_closures(s, f)
    raw_count = sum(1 for m in RAW_SITE.finditer(s))
    covered = []
    for f in fns:
        inner = [g for g in fns if g is not f and f.start < g.start and g.end < f.end]
        holes = [(g.start, g.end) for g in inner] + [(c.start, c.end) for c in f.closures.values()]
        scan_unit(s, f, holes, alias, problems)
        units.append(f)
        for c in f.closures.values():
            scan_unit(s, c, [(g.start, g.end) for g in inner], alias, problems)
            units.append(c)
        covered.append((f.start, f.end))
    for m in SITE.finditer(s):
        if not any(a <= m.start() <= b for a, b in covered):
            problems.append(f'{PMP_FILE}:{s[:m.start()].count(chr(10)) + 1}: lock call outside a function body')
    if problems:
        raise LockExtractError('; '.join(problems[:6]))
    nsites = sum(len(u.sites) for u in units)
    if nsites != raw_count:
        raise LockExtractError(f'{PMP_FILE}: the extractor understood {nsites} lock sites but a plain regex finds {raw_count} '
                               '`.read()/.write()/.lock()` calls: a syntactic form is not understood')
    by_name = {}
    for f in fns:
        by_name.setdefault(f.name, []).append(f)
    foreign = []

    def resolve(u, pos, kind, name):
        owner = u.parent or u
        pre = s[max(0, pos - 60):pos]
        if kind == 'method':
            if re.search(r'(?<![\w.])self\s*\.\s*$', pre):
                return by_name.get(name, [])
            if name in by_name:
                foreign.append(f'{PMP_FILE}:{s[:pos].count(chr(10)) + 1} in {u.label()}: `.{name}(` on a receiver other than self')
            return []
        if kind == 'path':
            return by_name.get(name, []) if re.search(r'\b(Self|' + PMP_STRUCT + r')\s*::\s*$', pre) else []
        return [owner.closures[name]] if name in owner.closures else []
    mode = {'read': 'shared', 'write': 'exclusive', 'lock': 'exclusive'}
    for u in units:
        u.acq = {(l, mode[op]) for (_, l, op) in u.sites}
        u.rcalls = [(pos, c) for (pos, kind, name) in u.calls for c in resolve(u, pos, kind, name)]
    foreign = sorted(set(foreign))
    changed = True
    while changed:
        changed = False
        for u in units:
            for (_, c) in u.rcalls:
                if not c.acq <= u.acq:
                    u.acq |= c.acq; changed = True
    entries = []
    for u in units:
        op_at = {p: op for (p, _, op) in u.sites}

        def held_at(pos, own_site=None):
            h = []
            for (g, spos, lo, hi, encl) in u.extents:
                if spos == own_site:
                    continue
                if (spos < pos < hi) or pos in encl:
                    h.append((g, mode[op_at[spos]], s[:spos].count('\n') + 1))
            return sorted(set(h))
        for (pos, l, op) in u.sites:
            entries.append({'fn': u.label(), 'line': s[:pos].count('\n') + 1, 'via': f'{l}.{op}()', 'lock': l, 'mode': mode[op], 'held': held_at(pos, pos)})
        for (pos, c) in u.rcalls:
            for (l, m) in sorted(c.acq):
                entries.append({'fn': u.label(), 'line': s[:pos].count('\n') + 1, 'via': f'call of {c.label()}', 'lock': l, 'mode': m, 'held': held_at(pos)})
    entries.sort(key=lambda e: (e['line'], e['fn'], e['lock'], e['mode'], e['via']))
    extents = sorted(f'{u.label()}: {g} guard of line {s[:spos].count(chr(10)) + 1} alive to line {s[:max(hi - 1, spos)].count(chr(10)) + 1}'
                     for u in units for (g, spos, lo, hi, encl) in u.extents)
    return {'locks': locks, 'entries': entries, 'sites': nsites, 'functions': len(fns), 'closures': sum(len(f.closures) for f in fns),
            'guard_extents': extents, 'foreign_receiver_calls': foreign}


def pmp_lean_source(res):
    L = ['/-! GENERATED by lib/lock_extract.py (`analyse_pmp`) from core/src/util/pmp.rs (rules P1-P3, R2 in its source).  Do not edit.',
         '    One entry per acquisition event in a function of XvcPathMetadataProvider (a lock site, or a call of a provider function that',
         '    acquires): the lock, the mode, and the guards OF THE SAME THREAD that are alive at that point. -/',
         'namespace Sched.Gen', '', 'inductive PLock where']
    L += [f'  | {k}' for k in res['locks']]
    L += ['deriving DecidableEq, Repr', '',
          'def allPLocks : List PLock := [' + ', '.join('.' + k for k in res['locks']) + ']',
          'theorem mem_allPLocks (l : PLock) : l ∈ allPLocks := by cases l <;> simp [allPLocks]', '',
          '/-- `.read()` = shared, `.write()` / `.lock()` = exclusive -/',
          'inductive PMode where', '  | shared', '  | exclusive', 'deriving DecidableEq, Repr', '',
          'structure PAcq where', '  fn : String', '  line : Nat', '  lock : PLock', '  mode : PMode', '  held : List (PLock × PMode)', 'deriving Repr', '',
          'def pmpAcquisitions : List PAcq := [']
    for k, e in enumerate(res['entries']):
        held = ', '.join(f'(.{g}, .{m})' for (g, m, _) in e['held'])
        note = ('   while the ' + ', '.join(f'{g} guard of line {ln}' for (g, _, ln) in e['held']) + ' is alive') if e['held'] else ''
        L.append(f'  -- {PMP_FILE}:{e["line"]} in {e["fn"]}: {e["via"]}{note}')
        L.append(f'  {{ fn := "{e["fn"]}", line := {e["line"]}, lock := .{e["lock"]}, mode := .{e["mode"]}, held := [{held}] }}' + (',' if k + 1 < len(res['entries']) else ''))
    L += [']', '', f'-- lock sites: {res["sites"]}, functions: {res["functions"]} (+{res["closures"]} local closures)', '-- guard extents:']
    L += [f'--   {x}' for x in res['guard_extents']]
    L += ['end Sched.Gen']
    return '\n'.join(L) + '\n'


def lean_source(res):
    L = []
    L.append('/-! GENERATED by lib/lock_extract.py from the Rust sources under pipeline/src (rules in its header).  Do not edit.')
    L.append('    `(g, l) ∈ lockEdges`: a thread may acquire lock `l` while it holds a guard of lock `g`. -/')
    L.append('namespace Sched.Gen')
    L.append('')
    L.append('inductive Lock where')
    for k in res['locks']:
        L.append(f'  | {k}')
    L.append('deriving DecidableEq, Repr')
    L.append('')
    L.append('def allLocks : List Lock := [' + ', '.join('.' + k for k in res['locks']) + ']')
    L.append('theorem mem_allLocks (l : Lock) : l ∈ allLocks := by cases l <;> simp [allLocks]')
    L.append('')
    L.append('def lockEdges : List (Lock × Lock) := [')
    items = sorted(res['edges'].items())
    for k, ((g, l), where) in enumerate(items):
        for w in where[:4]:
            L.append(f'  -- {w}')
        if len(where) > 4:
            L.append(f'  -- ... and {len(where) - 4} more place(s)')
        L.append(f'  (.{g}, .{l})' + (',' if k + 1 < len(items) else ''))
    L.append(']')
    L.append('')
    L.append(f'-- lock sites: {res["sites"]}, functions scanned: {res["functions"]} (+{res["closures"]} local closures), files: {res["files"]}')
    L.append('end Sched.Gen')
    return '\n'.join(L) + '\n'


def extract(repo, gen_dir):
    import sched_translate
    res = analyse(repo)
    src = lean_source(res)
    changed = sched_translate.write_if_changed(os.path.join(gen_dir, 'Locks.lean'), src)
    pres = analyse_pmp(repo)
    psrc = pmp_lean_source(pres)
    pchanged = sched_translate.write_if_changed(os.path.join(gen_dir, 'PmpLocks.lean'), psrc)
    pmp = {'file': PMP_FILE, 'locks': pres['locks'], 'lock_sites': pres['sites'], 'functions_scanned': pres['functions'], 'local_closures': pres['closures'],
           'acquisition_events': len(pres['entries']), 'guard_extents': pres['guard_extents'], 'foreign_receiver_calls': pres['foreign_receiver_calls'],
           'acquisitions_under_a_guard': [f'{PMP_FILE}:{e["line"]} {e["fn"]}: {e["via"]} acquires {e["lock"]} ({e["mode"]}) while holding ' +
                                          ', '.join(f'{g} ({m}, line {ln})' for (g, m, ln) in e['held']) for e in pres['entries'] if e['held']],
           'reacquisitions': [f'{PMP_FILE}:{e["line"]} {e["fn"]}: {e["via"]}' for e in pres['entries'] if any(g == e['lock'] for (g, _, _) in e['held'])],
           'rewritten': pchanged, 'digest': hashlib.sha256(psrc.encode()).hexdigest()[:16]}
    return {'path_metadata_provider': pmp, 'lock_sites': res['sites'], 'raw_regex_sites': res['raw_sites'], 'functions_scanned': res['functions'],
            'local_closures': res['closures'], 'files': res['files'], 'locks': res['locks'],
            'edges': [{'held': g, 'acquired': l, 'where': w[:3]} for (g, l), w in sorted(res['edges'].items())],
            'self_edges': [g for (g, l) in res['edges'] if g == l], 'rewritten': changed,
            'digest': hashlib.sha256(src.encode()).hexdigest()[:16]}


if __name__ == '__main__':
    import sys
    sys.path.insert(0, os.path.dirname(os.path.abspath(__file__)))
    repo = sys.argv[1] if len(sys.argv) > 1 else os.environ.get('VERIF_REPO', '/repo')
    if '--pmp' in sys.argv:
        sys.argv.remove('--pmp')
        repo = sys.argv[1] if len(sys.argv) > 1 else os.environ.get('VERIF_REPO', '/repo')
        r = analyse_pmp(repo)
        print(pmp_lean_source(r))
        print(json.dumps(r['foreign_receiver_calls'], indent=1))
        sys.exit(0)
    r = analyse(repo)
    print(json.dumps({'sites': r['sites'], 'raw': r['raw_sites'], 'functions': r['functions'], 'closures': r['closures'],
                      'site_list': r['site_list'], 'edges': {f'{g}->{l}': w for (g, l), w in sorted(r['edges'].items())}}, indent=1))
